(* Extract.v — extraction of the executable model for the correspondence driver.
   Directives in force: those of ExtrOcamlBasic and ExtrOcamlString (with ExtrOcamlChar) as shipped
   with Coq 8.16.1; none of our own. Z, positive, N, nat stay extracted inductives. *)
Require Coq.extraction.Extraction.
From Coq Require Import ExtrOcamlBasic ExtrOcamlString.
From Bkl Require Import Model.Value Model.Driver.
Extraction Language OCaml.
Extraction "model.ml" run_case Z_of_string Str.Z_to_string wfb.
