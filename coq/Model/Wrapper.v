(* Wrapper.v — wrapper/wrapper.go: the argument scan of WrapOrDie, and cmd/bklb's name rule.
   FileMatch + evaluation of a file argument is a parameter: [None] = FileMatch fails (the argument
   is not a bkl file), [Some (Err _)] = it resolves but evaluation fails, [Some (Ok t)] = the path of
   the temporary file holding the evaluated layers. *)
From Coq Require Import String Ascii List Bool.
From Bkl Require Import Model.Value Model.Str.
Import ListNotations.
Local Open Scope string_scope.
Local Open Scope list_scope.

Inductive wrapped := Exec (cmd : string) (args : list string) | Fail.

Fixpoint wrap_args (resolve : string -> option (res string)) (args : list string) : option (list string) :=
  match args with
  | [] => Some []
  | a :: r =>
      match resolve a with
      | None => match wrap_args resolve r with Some r' => Some (a :: r') | None => None end
      | Some (Ok t) => match wrap_args resolve r with Some r' => Some (t :: r') | None => None end
      | Some (Err _) => None
      end
  end.

Definition wrap (resolve : string -> option (res string)) (cmd : string) (args : list string) : wrapped :=
  match wrap_args resolve args with Some a => Exec cmd a | None => Fail end.

(* cmd/bklb: the program name is the invoked name with one trailing b removed *)
Definition wrapped_name (argv0 : string) : option string :=
  if has_suffix "b" argv0 then Some (trim_suffix "b" argv0) else None.
