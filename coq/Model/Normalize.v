(* Normalize.v — normalize.go over the Go dynamic types the three decoders produce, and the table
   "how a logical value arrives from each format" (an assumption about the codecs, validated per run
   by the typed dump of the harness). *)
From Coq Require Import String Ascii List ZArith Bool.
From Bkl Require Import Model.Value.
Import ListNotations.
Local Open Scope string_scope.
Local Open Scope list_scope.

Inductive raw : Type :=
| RNull
| RBool (b : bool)
| RInt (z : Z)                                   (* Go int *)
| RInt64 (z : Z)                                 (* Go int64 *)
| RFloat (g : string)                            (* float64 *)
| RJsonInt (z : Z)                               (* json.Number whose Int64() succeeds *)
| RJsonFloat (g : string)                        (* json.Number whose Int64() fails; g = Float64() *)
| RStr (s : string)
| RList (l : list raw)
| RMap (m : list (string * raw))
| RMapAny.                                       (* map[any]any: YAML mapping with a non-string key *)

Fixpoint normalize (r : raw) : res value :=
  match r with
  | RNull => Ok VNull
  | RBool b => Ok (VBool b)
  | RInt z | RInt64 z | RJsonInt z => Ok (VInt z)
  | RFloat g | RJsonFloat g => Ok (VFloat g)
  | RStr s => Ok (VStr s)
  | RList l => do l' <- (fix go (l : list raw) : res (list value) :=
                           match l with [] => Ok [] | x :: r => do y <- normalize x; do r' <- go r; Ok (y :: r') end) l;
               Ok (VList l')
  | RMap m => do m' <- (fix go (m : list (string * raw)) : res emap :=
                          match m with [] => Ok [] | (k, x) :: r => do y <- normalize x; do r' <- go r; Ok ((k, y) :: r') end) m;
              Ok (VMap m')
  | RMapAny => Err EInvalidType
  end.

Inductive fmt := FJson | FYaml | FToml.

(* what each decoder hands to normalize for a logical value *)
Fixpoint arrives (f : fmt) (v : value) : raw :=
  match v with
  | VNull => RNull
  | VBool b => RBool b
  | VInt z => match f with
              | FJson => RJsonInt z
              | FYaml => if (Z.leb (-2147483648) z && Z.leb z 2147483647)%Z then RInt z else RInt64 z
              | FToml => RInt64 z
              end
  | VFloat g => match f with FJson => RJsonFloat g | _ => RFloat g end
  | VStr s => RStr s
  | VList l => RList ((fix go (l : list value) := match l with [] => [] | x :: r => arrives f x :: go r end) l)
  | VMap m => RMap ((fix go (m : emap) := match m with [] => [] | (k, x) :: r => (k, arrives f x) :: go r end) m)
  end.
