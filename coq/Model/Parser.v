(* Parser.v — parser.go / document.go as a state machine over a heap of documents. *)
From Coq Require Import String Ascii List ZArith Bool.
From Bkl Require Import Model.Value Model.Merge Model.Str Model.Eval.
Import ListNotations.
Local Open Scope string_scope.
Local Open Scope list_scope.

Record doc := { d_id : string; d_parents : list nat; d_data : value }.

Record pstate := {
  heap : list doc;         (* every Document the history created, by allocation order *)
  pdocs : list nat;        (* Parser.docs *)
  users : list nat;        (* documents created by the caller, in creation order (ops refer to these positions) *)
  failed : bool            (* a merge returned an error: Go state is then partially updated *)
}.

Definition init : pstate := {| heap := []; pdocs := []; users := []; failed := false |}.

Inductive op :=
| ONew (id : string) (parents : list nat) (data : value)   (* NewDocumentWithData + AddParents *)
| OMerge (d : nat)                                          (* Parser.MergeDocument *)
| ODocuments                                                (* Parser.Documents *)
| OOutput.                                                  (* Parser.OutputDocuments / Output / OutputToWriter *)

Inductive out :=
| RNew (i : nat)
| RMerge (r : res unit)
| RDocs (l : list value)
| ROut (r : res (list value))
| RSkipped.

Definition get_doc (h : list doc) (i : nat) : doc :=
  nth i h {| d_id := ""; d_parents := []; d_data := VNull |}.

Fixpoint set_doc (h : list doc) (i : nat) (d : doc) : list doc :=
  match h, i with [], _ => [] | _ :: t, 0 => d :: t | x :: t, S j => x :: set_doc t j d end.

Definition set_data (h : list doc) (i : nat) (v : value) : list doc :=
  let d := get_doc h i in set_doc h i {| d_id := d_id d; d_parents := d_parents d; d_data := v |}.
Definition add_parent (h : list doc) (i : nat) (p : nat) : list doc :=
  let d := get_doc h i in set_doc h i {| d_id := d_id d; d_parents := d_parents d ++ [p]; d_data := d_data d |}.

(* Document.AllParents: ids of the transitive parents (fuel = heap size; parent graphs are acyclic) *)
Fixpoint all_parent_ids (fuel : nat) (h : list doc) (ps : list nat) : list string :=
  match fuel with
  | 0 => []
  | S f => flat_map (fun p => d_id (get_doc h p) :: all_parent_ids f h (d_parents (get_doc h p))) ps
  end.

Definition mem_str (s : string) (l : list string) : bool := existsb (String.eqb s) l.

(* Parser.parents *)
Definition parents_in (st : pstate) (pi : nat) : list nat :=
  let ids := all_parent_ids (1 + List.length (heap st)) (heap st) (d_parents (get_doc (heap st) pi)) in
  filter (fun i => mem_str (d_id (get_doc (heap st) i)) ids) (pdocs st).

(* mergeDocs over a list of targets, stopping at the first error *)
Fixpoint merge_into (h : list doc) (targets : list nat) (pi : nat) : list doc * res unit :=
  match targets with
  | [] => (h, Ok tt)
  | t :: r =>
      match merge' (d_data (get_doc h t)) (d_data (get_doc h pi)) with
      | Ok v => merge_into (add_parent (set_data h t v) pi t) r pi
      | Err e => (h, Err e)
      end
  end.

Inductive target_sel := SelAppendNew | SelTargets (l : list nat) | SelAppendSelf | SelNoMatch.

(* MergeDocument's target selection, on the patch as it is stored *)
Definition select (st : pstate) (pi : nat) : target_sel * value :=
  let patch := get_doc (heap st) pi in
  match d_data patch with
  | VMap m =>
      match lookup "$match" m with
      | Some mv =>
          let body := VMap (remove "$match" m) in
          if is_null mv then (SelAppendNew, body) else
          let matching := filter (fun i => vmatch (d_data (get_doc (heap st) i)) mv) in
          match matching (parents_in st pi) with
          | [] => match matching (pdocs st) with [] => (SelNoMatch, body) | l => (SelTargets l, body) end
          | l => (SelTargets l, body)
          end
      | None => match parents_in st pi with [] => (SelAppendSelf, d_data patch) | l => (SelTargets l, d_data patch) end
      end
  | _ => match parents_in st pi with [] => (SelAppendSelf, d_data patch) | l => (SelTargets l, d_data patch) end
  end.

Definition merge_document (st : pstate) (pi : nat) : pstate * res unit :=
  let '(sel, body) := select st pi in
  let h0 := set_data (heap st) pi body in
  match sel with
  | SelAppendNew =>
      let ni := List.length h0 in
      let h1 := h0 ++ [{| d_id := (d_id (get_doc h0 pi) ++ "|matchnull")%string; d_parents := []; d_data := VNull |}] in
      let '(h2, r) := merge_into h1 [ni] pi in
      ({| heap := h2; pdocs := pdocs st ++ [ni]; users := users st; failed := negb (is_ok r) |}, r)
  | SelTargets l =>
      let '(h2, r) := merge_into h0 l pi in
      ({| heap := h2; pdocs := pdocs st; users := users st; failed := negb (is_ok r) |}, r)
  | SelAppendSelf => ({| heap := h0; pdocs := pdocs st ++ [pi]; users := users st; failed := false |}, Ok tt)
  | SelNoMatch => ({| heap := h0; pdocs := pdocs st; users := users st; failed := true |}, Err ENoMatch)
  end.

Definition documents (st : pstate) : list value := map (fun i => d_data (get_doc (heap st) i)) (pdocs st).

Definition step (o : oracles) (st : pstate) (x : op) : pstate * out :=
  if failed st then (st, RSkipped) else
  match x with
  | ONew id ps data =>
      let hp := map (fun u => nth u (users st) 0) ps in
      ({| heap := heap st ++ [{| d_id := id; d_parents := hp; d_data := data |}]; pdocs := pdocs st;
          users := users st ++ [List.length (heap st)]; failed := false |},
       RNew (List.length (users st)))
  | OMerge d => let '(st', r) := merge_document st (nth d (users st) 0) in (st', RMerge r)
  | ODocuments => (st, RDocs (documents st))
  | OOutput => (st, ROut (eval_docs o (documents st)))
  end.

Fixpoint run (o : oracles) (st : pstate) (ops : list op) : pstate * list out :=
  match ops with
  | [] => (st, [])
  | x :: r => let '(st1, y) := step o st x in let '(st2, ys) := run o st1 r in (st2, y :: ys)
  end.
