(* Driver.v — the correspondence interface, in Gallina: a case is a [value], the answer is a
   [value]. The OCaml driver only parses and prints values; the same [run_case] is evaluated by
   vm_compute in the thorough tier. *)
From Coq Require Import String Ascii List ZArith NArith Bool DecimalString.
From Bkl Require Import Model.Value Model.Merge Model.Str Model.Eval Model.Tools Model.Parser Model.Wrapper Model.Files Model.Yaml Model.Root Model.Stream Model.Normalize.
Import ListNotations.
Local Open Scope string_scope.
Local Open Scope list_scope.

Definition Z_of_string (s : string) : option Z :=
  match NilZero.int_of_string s with Some i => Some (Z.of_int i) | None => None end.

Definition err_name (e : err) : string :=
  match e with
  | EUseless => "useless" | ENoMatch => "nomatch" | EMultiMatch => "multimatch" | EInvalidType => "invalidtype"
  | EExtraKeys => "extrakeys" | ERequired => "required" | EInvalidDirective => "invaliddirective"
  | EValidateMixed => "validatemixed" | ECircular => "circular" | ERefNotFound => "refnotfound"
  | EVarNotFound => "varnotfound" | EInvalidRepeat => "invalidrepeat" | EInvalidArgs => "invalidargs"
  | EUnknownFormat => "unknownformat" | EUnmarshal => "unmarshal" | EMarshal => "marshal"
  | EMissingMatch => "missingmatch" | EMissingFile => "missingfile" | EInvalidParent => "invalidparent"
  | EConflictingParent => "conflictingparent" | EInvalidFilename => "invalidfilename"
  | EOracle => "oracle" | EOther => "other"
  end.

Definition enc_res {A} (f : A -> value) (r : res A) : value :=
  match r with Ok a => VList [VStr "ok"; f a] | Err e => VList [VStr "err"; VStr (err_name e)] end.

(* an encoded result inside an oracle table: ["ok", v] or ["err", cls] (class is not interpreted) *)
Definition dec_res (v : value) : res value :=
  match v with
  | VList [VStr t; x] => if String.eqb t "ok" then Ok x else Err EOther
  | _ => Err EOracle
  end.

Definition str_of (v : value) : string := match v with VStr s => s | _ => "" end.
Definition list_of (v : value) : list value := match v with VList l => l | _ => [] end.
Definition map_of (v : value) : emap := match v with VMap m => m | _ => [] end.
Definition nat_of (v : value) : nat := match v with VInt z => Z.to_nat z | _ => 0 end.

(* oracle tables:
   {env:{NAME:val}, yaml:{s:res}, enc:[[fmt,v,res]], dec:[[fmt,text,res-of-list]], sha:{s:hex}, lower:[cp], fmts:[name]} *)
Definition oracles_of (t : value) : oracles :=
  let tm := map_of t in
  let tab k := lookup_or_null k tm in
  {| o_env := map (fun kv => (fst kv, str_of (snd kv))) (map_of (tab "env"));
     o_yaml := fun s => match lookup s (map_of (tab "yaml")) with Some r => dec_res r | None => Err EOracle end;
     o_enc := fun f v =>
       match find (fun e => match e with VList [VStr f'; v'; _] => String.eqb f f' && deep_eqb v v' | _ => false end) (list_of (tab "enc")) with
       | Some (VList [_; _; r]) => match dec_res r with Ok (VStr s) => Ok s | Ok _ => Err EOracle | Err e => Err e end
       | _ => Err EOracle
       end;
     o_dec := fun f s =>
       match find (fun e => match e with VList [VStr f'; VStr s'; _] => String.eqb f f' && String.eqb s s' | _ => false end) (list_of (tab "dec")) with
       | Some (VList [_; _; r]) => match dec_res r with Ok (VList l) => Ok l | Ok _ => Err EOracle | Err e => Err e end
       | _ => Err EOracle
       end;
     o_fmt := fun f => existsb (fun x => String.eqb (str_of x) f) (list_of (tab "fmts"));
     o_sha := fun s => match lookup s (map_of (tab "sha")) with Some (VStr h) => Ok h | _ => Err EOracle end;
     o_lower := fun cp => existsb (fun x => match x with VInt z => Z.eqb z (Z.of_N cp) | _ => false end) (list_of (tab "lower"))
  |}.

Definition enc_unit_res (r : res unit) : value := enc_res (fun _ => VNull) r.
Definition enc_list_res (r : res (list value)) : value := enc_res VList r.

Definition dec_op (v : value) : option op :=
  match v with
  | VList [VStr t; VStr id; VList ps; data] => if String.eqb t "new" then Some (ONew id (map nat_of ps) data) else None
  | VList [VStr t; VInt i] => if String.eqb t "merge" then Some (OMerge (Z.to_nat i)) else None
  | VList [VStr t] => if String.eqb t "docs" then Some ODocuments else if String.eqb t "out" then Some OOutput else None
  | _ => None
  end.

Definition enc_out (x : out) : value :=
  match x with
  | RNew i => VList [VStr "new"; VInt (Z.of_nat i)]
  | RMerge r => VList [VStr "merge"; enc_unit_res r]
  | RDocs l => VList [VStr "docs"; VList l]
  | ROut r => VList [VStr "out"; enc_list_res r]
  | RSkipped => VList [VStr "skipped"]
  end.

Fixpoint dec_ops (l : list value) : option (list op) :=
  match l with
  | [] => Some []
  | x :: r => match dec_op x, dec_ops r with Some a, Some b => Some (a :: b) | _, _ => None end
  end.

Definition bad_case : value := VList [VStr "badcase"].

Definition dec_fs (v : value) : fsys :=
  flat_map (fun e =>
    match e with
    | VList [VStr n; VList [VStr k; x]] =>
        if String.eqb k "link" then [(n, FLink (str_of x))]
        else [(n, FReg (match dec_res x with Ok (VList l) => Ok l | Ok _ => Err EOracle | Err e => Err e end))]
    | _ => []
    end) (list_of v).

(* a yaml.v3 node tree as a value: ["s", tag, text] | ["seq", [...]] | ["map", [[k, v], ...]] | ["alias", node] | ["empty"] *)
Fixpoint dec_ynode (fuel : nat) (v : value) : ynode :=
  match fuel with
  | 0 => YEmpty
  | S f =>
      match v with
      | VList [VStr t; VStr tag; VStr text] => if String.eqb t "s" then YScalar tag text else YEmpty
      | VList [VStr t] => if String.eqb t "aliasup" then YAliasUp else YEmpty
      | VList [VStr t; x] =>
          if String.eqb t "alias" then YAlias (dec_ynode f x)
          else match x with
               | VList l =>
                   if String.eqb t "seq" then YSeq (map (dec_ynode f) l)
                   else if String.eqb t "map" then YMap (flat_map (fun kv => match kv with VList [k; y] => [(dec_ynode f k, dec_ynode f y)] | _ => [] end) l)
                   else YEmpty
               | _ => YEmpty
               end
      | _ => YEmpty
      end
  end.

(* Go dynamic types before normalisation, as plain values: ["nil"] ["bool", b] ["int", n] ["int64", n] ["float", g]
   ["jsonint", n] ["jsonfloat", g] ["str", s] ["list", [...]] ["map", [[k, v], ...]] ["mapany"] *)
Fixpoint enc_raw (r : raw) : value :=
  match r with
  | RNull => VList [VStr "nil"]
  | RBool b => VList [VStr "bool"; VBool b]
  | RInt z => VList [VStr "int"; VInt z]
  | RInt64 z => VList [VStr "int64"; VInt z]
  | RFloat g => VList [VStr "float"; VFloat g]
  | RJsonInt z => VList [VStr "jsonint"; VInt z]
  | RJsonFloat g => VList [VStr "jsonfloat"; VFloat g]
  | RStr s => VList [VStr "str"; VStr s]
  | RList l => VList [VStr "list"; VList (map enc_raw l)]
  | RMap m => VList [VStr "map"; VList (map (fun kv => VList [VStr (fst kv); enc_raw (snd kv)]) m)]
  | RMapAny => VList [VStr "mapany"]
  end.

Fixpoint dec_raw (fuel : nat) (v : value) : raw :=
  match fuel with
  | 0 => RNull
  | S f =>
      match v with
      | VList [VStr t] => if String.eqb t "mapany" then RMapAny else RNull
      | VList [VStr t; x] =>
          if String.eqb t "bool" then (match x with VBool b => RBool b | _ => RNull end)
          else if String.eqb t "int" then (match x with VInt z => RInt z | _ => RNull end)
          else if String.eqb t "int64" then (match x with VInt z => RInt64 z | _ => RNull end)
          else if String.eqb t "jsonint" then (match x with VInt z => RJsonInt z | _ => RNull end)
          else if String.eqb t "float" then (match x with VFloat g => RFloat g | _ => RNull end)
          else if String.eqb t "jsonfloat" then (match x with VFloat g => RJsonFloat g | _ => RNull end)
          else if String.eqb t "str" then (match x with VStr s => RStr s | _ => RNull end)
          else if String.eqb t "list" then (match x with VList l => RList (map (dec_raw f) l) | _ => RNull end)
          else if String.eqb t "map" then
            (match x with
             | VList l => RMap (flat_map (fun kv => match kv with VList [VStr k; y] => [(k, dec_raw f y)] | _ => [] end) l)
             | _ => RNull end)
          else RNull
      | _ => RNull
      end
  end.

Definition fmt_of (s : string) : fmt := if String.eqb s "json" then FJson else if String.eqb s "yaml" then FYaml else FToml.

(* a path-level file system: [[comps...], ["dir"] | ["file", content] | ["link", spelled_abs, [comps...]]] *)
Definition dec_cpath (v : value) : cpath := match v with VList l => map str_of l | _ => [] end.
Definition dec_tfs (v : value) : tfs :=
  flat_map (fun e => match e with
                     | VList [p; VList [VStr k]] => if String.eqb k "dir" then [(dec_cpath p, TDir)] else []
                     | VList [p; VList [VStr k; c]] => if String.eqb k "file" then [(dec_cpath p, TFile (Ok c))] else []
                     | VList [p; VList [VStr k; VBool a; t]] => if String.eqb k "link" then [(dec_cpath p, TLink a (dec_cpath t))] else []
                     | _ => []
                     end) (list_of v).

Definition opt_str (v : value) : option string := match v with VStr s => Some s | _ => None end.

(* which oracle entry does evaluating [$encode: spec] on obj need next? (used by the harness to
   complete the tables with independently computed encodings) *)
Fixpoint flatten_spec (v : value) : list string :=
  match v with
  | VStr s => [s]
  | VList l => (fix go (l : list value) := match l with [] => [] | x :: r => flatten_spec x ++ go r end) l
  | _ => []
  end.

Fixpoint first_missing (o : oracles) (obj : value) (ts : list string) : value :=
  match ts with
  | [] => VNull
  | t :: r =>
      let parts := split_colon t in
      let cmd := hd "" parts in
      if String.eqb cmd "sha256" && Nat.eqb (List.length parts) 1 then
        match o_sha o (show obj) with
        | Ok h => first_missing o (VStr h) r
        | Err _ => VList [VStr "sha"; VStr (show obj)]
        end
      else if o_fmt o cmd && Nat.eqb (List.length parts) 1 then
        match o_enc o cmd obj with
        | Ok e => first_missing o (VStr e) r
        | Err EOracle => VList [VStr "enc"; VStr cmd; obj]
        | Err _ => VNull
        end
      else match encode_string o obj t with Ok x => first_missing o x r | Err _ => VNull end
  end.

(* merge a chain of layers one at a time: result after each layer, then evaluation of the final document *)
Fixpoint chain_steps (acc : value) (layers : list value) : list value * res value :=
  match layers with
  | [] => ([], Ok acc)
  | l :: r =>
      match merge' acc l with
      | Ok a => let '(rs, fin) := chain_steps a r in (enc_res (fun x => x) (Ok a) :: rs, fin)
      | Err e => ([enc_res (fun x => x) (Err e)], Err e)
      end
  end.

Definition run_case (c : value) : value :=
  match c with
  | VList (VStr opn :: args) =>
      if String.eqb opn "match" then
        match args with [obj; pat] => VBool (vmatch obj pat) | _ => bad_case end
      else if String.eqb opn "merge" then
        match args with [d; s] => enc_res (fun x => x) (merge' d s) | _ => bad_case end
      else if String.eqb opn "chain" then
        (* [tables; base; layers...] -> [steps..., eval] *)
        match args with
        | t :: b :: layers =>
            let '(steps, fin) := chain_steps b layers in
            VList [VList steps;
                   match fin with Ok d => enc_list_res (eval_docs (oracles_of t) [d]) | Err _ => VList [VStr "skipped"] end]
        | _ => bad_case
        end
      else if String.eqb opn "eval" then
        match args with [t; VList docs] => enc_list_res (eval_docs (oracles_of t) docs) | _ => bad_case end
      else if String.eqb opn "required" then
        match args with [v] => match required v with Some r => r | None => VNull end | _ => bad_case end
      else if String.eqb opn "c17" then
        (* [tables; layers] -> [merged; required skeleton or null; evaluation of the merged document] *)
        match args with
        | [t; VList layers] =>
            match merge_chain layers with
            | Ok d => VList [enc_res (fun x => x) (Ok d);
                             match required d with Some r => r | None => VNull end;
                             enc_list_res (eval_docs (oracles_of t) [d])]
            | Err e => VList [enc_res (fun x => x) (Err e)]
            end
        | _ => bad_case
        end
      else if String.eqb opn "intersect" then
        match args with [VList vs] => intersect_all vs | _ => bad_case end
      else if String.eqb opn "diff" then
        match args with [target; base] => diff_doc target base | _ => bad_case end
      else if String.eqb opn "history" then
        match args with
        | t :: VList ops :: _ =>          (* further arguments are notes of the generator *)
            match dec_ops ops with
            | Some os => VList (map enc_out (snd (run (oracles_of t) init os)))
            | None => bad_case
            end
        | _ => bad_case
        end
      else if String.eqb opn "encq" then
        match args with [t; obj; spec] => first_missing (oracles_of t) obj (flatten_spec spec) | _ => bad_case end
      else if String.eqb opn "cli" then
        (* [tables; fs; {f, o, P, inputs}] -> ok [format, documents] | err *)
        match args with
        | [t; fsv; VMap om] =>
            let o := oracles_of t in
            let opts := {| c_format := opt_str (lookup_or_null "f" om); c_output := opt_str (lookup_or_null "o" om);
                           c_skip_parent := is_bool (lookup_or_null "P" om) true;
                           c_inputs := map str_of (list_of (lookup_or_null "inputs" om)) |} in
            enc_res (fun r => VList [VStr (fst r); VList (snd r)])
                    (bkl_cli o (map str_of (list_of (lookup_or_null "fmts" (map_of t)))) (dec_fs fsv) opts)
        | _ => bad_case
        end
      else if String.eqb opn "setroots" then
        (* [fs; first root; [roots...]; path]: nested SetRoot calls, then opening path: "setroot-err" | ok content | err *)
        match args with
        | [fsv; r0; VList rs; p] =>
            match set_roots (dec_cpath r0) (map dec_cpath rs) with
            | None => VList [VStr "setroot-err"]
            | Some final => enc_res (fun x => x) (root_open 64 (dec_tfs fsv) final (dec_cpath p))
            end
        | _ => bad_case
        end
      else if String.eqb opn "wrappedname" then
        (* [argv0 base name]: the program cmd/bklb runs, or null when the name does not end in b *)
        match args with [VStr n] => match wrapped_name n with Some w => VList [VStr "run"; VStr w] | None => VNull end | _ => bad_case end
      else if String.eqb opn "normalize" then
        (* [raw]: normalize.go on the Go value a decoder produced *)
        match args with [r] => enc_res (fun x => x) (normalize (dec_raw (size r) r)) | _ => bad_case end
      else if String.eqb opn "arrives" then
        (* [format; value]: the Go value the format's decoder hands over for a logical value *)
        match args with [VStr f; v] => enc_raw (arrives (fmt_of f) v) | _ => bad_case end
      else if String.eqb opn "framejoin" then
        (* [[lines of doc 1], [lines of doc 2], ...] -> the lines of the stream *)
        match args with [VList ds] => VList (map VStr (join_docs (map (fun d => map str_of (list_of d)) ds))) | _ => bad_case end
      else if String.eqb opn "framesplit" then
        (* [toml?; lines of a stream] -> the documents' lines *)
        match args with
        | [VBool t; VList ls] => VList (map (fun d => VList (map VStr d)) (split_docs t (map str_of ls) []))
        | _ => bad_case
        end
      else if String.eqb opn "rootopen" then
        (* [fs; root; path]: what opening path through a root handle on root returns (fuel 64: link hops + components) *)
        match args with [fsv; r; p] => enc_res (fun x => x) (root_open 64 (dec_tfs fsv) (dec_cpath r) (dec_cpath p)) | _ => bad_case end
      else if String.eqb opn "ynode" then
        match args with [n] => enc_res (fun x => x) (ytranslate (dec_ynode (size n) n)) | _ => bad_case end
      else if String.eqb opn "wrap" then
        (* [table; args]: table maps an argument to ["file", fmt] or ["fail"]; answer: the plan *)
        match args with
        | [VMap table; VList al] =>
            let resolve (a : string) : option (res string) :=
              match lookup a table with
              | Some (VList (VStr k :: _)) => if String.eqb k "file" then Some (Ok a) else Some (Err EOther)
              | _ => None
              end in
            match wrap resolve "rec" (map str_of al) with
            | Fail => VList [VStr "fail"]
            | Exec _ out =>
                VList [VStr "exec";
                       VList (map (fun a => match lookup a table with
                                            | Some (VList [VStr _; VStr f]) => VList [VStr "file"; VStr f]
                                            | _ => VList [VStr "same"; VStr a]
                                            end) out)]
            end
        | _ => bad_case
        end
      else if String.eqb opn "show" then
        match args with [v] => VStr (show v) | _ => bad_case end
      else if String.eqb opn "b64" then
        match args with [VStr s] => VList [VStr (b64_encode s); match b64_decode (b64_encode s) with Some x => VStr x | None => VNull end] | _ => bad_case end
      else bad_case
  | _ => bad_case
  end.
