(* Tools.v — cmd/bklr/required.go, cmd/bkli/intersect.go, cmd/bkld/diff.go (after the fix commits).
   In these Go functions a nil interface means "nothing"; here that is VNull. *)
From Coq Require Import String Ascii List ZArith Bool.
From Bkl Require Import Model.Value Model.Merge.
Import ListNotations.
Local Open Scope string_scope.
Local Open Scope list_scope.

(* ---- bklr ---- *)
Fixpoint required (v : value) : option value :=
  match v with
  | VStr s => if String.eqb s "$required" then Some v else None
  | VList l =>
      match (fix go (l : list value) : list value :=
               match l with [] => [] | x :: xs => match required x with Some y => y :: go xs | None => go xs end end) l with
      | [] => None
      | r => Some (VList r)
      end
  | VMap m =>
      match (fix go (m : emap) : emap :=
               match m with [] => [] | (k, x) :: xs => match required x with Some y => (k, y) :: go xs | None => go xs end end) m with
      | [] => None
      | r => Some (VMap r)
      end
  | _ => None
  end.

(* ---- bkli ---- *)
Fixpoint remove_first (x : value) (l : list value) : option (list value) :=
  match l with
  | [] => None
  | y :: r => if deep_eqb x y then Some r else match remove_first x r with Some r' => Some (y :: r') | None => None end
  end.

Fixpoint list_inter (a b : list value) : list value :=
  match a with
  | [] => []
  | x :: r => match remove_first x b with Some b' => x :: list_inter r b' | None => list_inter r b end
  end.

Fixpoint intersect (a b : value) {struct a} : value :=
  if is_null b then VNull else
  match a with
  | VMap am =>
      match b with
      | VMap bm =>
          VMap ((fix go (am : emap) : emap :=
                   match am with
                   | [] => []
                   | (k, v) :: r =>
                       match lookup k bm with
                       | None => go r
                       | Some v2 =>
                           if is_null v && is_null v2 then (k, VNull) :: go r
                           else match intersect v v2 with VNull => go r | x => (k, x) :: go r end
                       end
                   end) am)
      | _ => VStr "$required"
      end
  | VList al =>
      match b with
      | VList bl =>
          match list_inter al bl with
          | [] => match al, bl with [], [] => VList [] | _, _ => VList [VStr "$required"] end
          | r => VList r
          end
      | _ => VStr "$required"
      end
  | VNull => VNull
  | _ => if scalar_eqb a b then a else VStr "$required"
  end.

(* bkli folds its inputs: doc := first; doc := intersect(next, doc) *)
Definition intersect_all (l : list value) : value :=
  match l with [] => VNull | x :: r => fold_left (fun acc d => intersect d acc) r x end.

(* ---- bkld ---- *)
Definition patchable (dst src : value) : bool :=
  match src with
  | VMap s => match dst with VMap _ => true | _ => match s with [] => true | _ => false end end
  | VList _ => match dst with VList _ => true | _ => false end
  | _ => true
  end.

Definition applies (src patch dst : list value) : bool :=
  match merge' (VList src) (VList patch) with Ok r => deep_eqb r (VList dst) | Err _ => false end.

Definition replace_marker : value := VMap [("$replace", VBool true)].

Fixpoint diff (dst src : value) {struct dst} : value :=
  match dst with
  | VMap dm =>
      match src with
      | VMap sm =>
          if existsb (fun kv => match lookup (fst kv) sm with Some v2 => negb (patchable (snd kv) v2) | None => false end) dm
          then VMap (insert "$replace" (VBool true) dm)
          else
            let changed :=
              (fix go (dm : emap) : emap :=
                 match dm with
                 | [] => []
                 | (k, v) :: r =>
                     match lookup k sm with
                     | None => (k, v) :: go r
                     | Some v2 => match diff v v2 with VNull => go r | v3 => (k, v3) :: go r end
                     end
                 end) dm in
            let deleted := fold_left (fun acc kv => if has_key (fst kv) dm then acc else insert (fst kv) (VStr "$delete") acc) sm changed in
            match deleted with [] => VNull | r => VMap r end
      | _ => dst
      end
  | VList dl =>
      match src with
      | VList sl =>
          let added := filter (fun v1 => negb (existsb (fun v2 => deep_eqb v1 v2) sl)) dl in
          let gone := filter (fun v1 => negb (existsb (fun v2 => deep_eqb v1 v2) dl)) sl in
          let whole := VList (dl ++ [replace_marker]) in
          if forallb (fun v => match v with VMap _ => true | _ => false end) gone then
            let ret := added ++ map (fun v => VMap [("$delete", v)]) gone in
            if applies sl ret dl then match ret with [] => VNull | _ => VList ret end else whole
          else whole
      | _ => dst
      end
  | _ => if scalar_eqb dst src then VNull else dst
  end.

Definition diff_doc (dst src : value) : value :=
  match diff dst src with
  | VMap m => VMap (insert "$match" (VMap []) m)
  | VList l => VList (VMap [("$match", VMap [])] :: l)
  | x => x
  end.
