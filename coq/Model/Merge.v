(* Merge.v — match.go, merge.go and the pops of util.go (as they stand after the fix commits).
   Structural recursion on the pattern / source argument; no fuel. *)
From Coq Require Import String Ascii List ZArith Bool.
From Bkl Require Import Model.Value.
Import ListNotations.
Local Open Scope string_scope.
Local Open Scope list_scope.

(* ---- match.go ---- *)
Definition single_placeholder (m : emap) : bool :=
  match m with
  | [(k, _)] => String.eqb k "$merge" || String.eqb k "$replace" || String.eqb k "$encode"
  | _ => false
  end.

Fixpoint vmatch (obj pat : value) {struct pat} : bool :=
  match pat with
  | VMap p =>
      let inv := has_map_bool p "$invert" true in
      let r :=
        match obj with
        | VMap o =>
            if single_placeholder o then false
            else (fix go (p : emap) : bool :=
                    match p with
                    | [] => true
                    | (k, pv) :: rest =>
                        (if inv && String.eqb k "$invert" then true else vmatch (lookup_or_null k o) pv) && go rest
                    end) p
        | _ => false
        end in
      if inv then negb r else r
  | VList p =>
      match obj with
      | VList o =>
          (fix go (p : list value) : bool :=
             match p with [] => true | pv :: rest => existsb (fun ov => vmatch ov pv) o && go rest end) p
      | _ => false
      end
  | _ => scalar_eqb obj pat
  end.

(* ---- util.go ---- *)
Definition pop_list_string (l : list value) (s : string) : bool * list value :=
  (existsb (fun v => is_str v s) l, filter (fun v => negb (is_str v s)) l).

Definition has_list_map_bool (l : list value) (k : string) (b : bool) : bool :=
  existsb (fun v => match v with VMap m => has_map_bool m k b | _ => false end) l.

Fixpoint pop_list_map_bool_go (l : list value) (k : string) (b : bool) : res (list value) :=
  match l with
  | [] => Ok []
  | v :: r =>
      match v with
      | VMap m =>
          if has_map_bool m k b
          then (match remove k m with [] => pop_list_map_bool_go r k b | _ => Err EExtraKeys end)
          else do r' <- pop_list_map_bool_go r k b; Ok (v :: r')
      | _ => do r' <- pop_list_map_bool_go r k b; Ok (v :: r')
      end
  end.

Definition pop_list_map_bool (l : list value) (k : string) (b : bool) : res (bool * list value) :=
  if has_list_map_bool l k b then do l' <- pop_list_map_bool_go l k b; Ok (true, l') else Ok (false, l).

(* popListMapValue: entries that are single-key maps {k: val} are removed; the last val is
   returned (VNull when none); a second occurrence after a non-null val is an error. *)
Fixpoint pop_list_map_value_go (l : list value) (k : string) (ret : value) : res (value * list value) :=
  match l with
  | [] => Ok (ret, [])
  | x :: r =>
      match x with
      | VMap [(k', val)] =>
          if String.eqb k' k
          then (if is_null ret then pop_list_map_value_go r k val else Err EExtraKeys)
          else do '(ret', r') <- pop_list_map_value_go r k ret; Ok (ret', x :: r')
      | _ => do '(ret', r') <- pop_list_map_value_go r k ret; Ok (ret', x :: r')
      end
  end.
Definition pop_list_map_value (l : list value) (k : string) : res (value * list value) :=
  pop_list_map_value_go l k VNull.

(* ---- merge.go ----
   [skipm = true] means: src is the map of a list entry {$match: m, ...} and is to be read
   with its "$match" key removed (Go builds that map with popMapValue). *)
Definition strip_match (skipm : bool) (src : value) : value :=
  match src with VMap s => if skipm then VMap (remove "$match" s) else src | _ => src end.

Definition list_delete (d : list value) (del : value) : res (list value) :=
  if existsb (fun v => vmatch v del) d then Ok (filter (fun v => negb (vmatch v del)) d) else Err EUseless.

Fixpoint merge (dst src : value) (skipm : bool) {struct src} : res value :=
  let src' := strip_match skipm src in
  match dst with
  | VMap d =>
      match src with
      | VMap s =>
          let s' := if skipm then remove "$match" s else s in
          if has_map_bool s' "$replace" true then Ok (VMap (remove "$replace" s')) else
          do r <- (fix go (s : emap) (acc : emap) : res emap :=
                     match s with
                     | [] => Ok acc
                     | (k, v) :: rest =>
                         if skipm && String.eqb k "$match" then go rest acc else
                         match lookup k acc with
                         | None => if is_str v "$delete" then Err EUseless else go rest (insert k v acc)
                         | Some e =>
                             if is_str v "$delete" then go rest (remove k acc)
                             else do v2 <- merge e v false; go rest (insert k v2 acc)
                         end
                     end) s d;
          Ok (VMap r)
      | VNull => Ok dst
      | _ => match d with [] => Ok src | _ => Err EInvalidType end
      end
  | VList d =>
      match src with
      | VList s =>
          if existsb (fun v => is_str v "$replace") s
          then Ok (VList (filter (fun v => negb (is_str v "$replace")) s)) else
          if has_list_map_bool s "$replace" true
          then (do l' <- pop_list_map_bool_go s "$replace" true; Ok (VList l')) else
          let d0 := filter (fun v => negb (is_str v "$required")) d in
          do r <- (fix go (s : list value) (acc : list value) : res (list value) :=
                     match s with
                     | [] => Ok acc
                     | v :: rest =>
                         match v with
                         | VMap vm =>
                             match lookup "$delete" vm with
                             | Some del =>
                                 match remove "$delete" vm with
                                 | [] => do acc' <- list_delete acc del; go rest acc'
                                 | _ => Err EExtraKeys
                                 end
                             | None =>
                                 match lookup "$match" vm with
                                 | Some m =>
                                     let rest_m := remove "$match" vm in
                                     do acc' <-
                                       (if has_key "$value" rest_m
                                        then match remove "$value" rest_m with
                                             | [] =>
                                                 map_res (fun e =>
                                                   if vmatch e m
                                                   then (fix find (c : emap) : res value :=
                                                           match c with
                                                           | [] => Ok e
                                                           | (k, x) :: c' => if String.eqb k "$value" then merge e x false else find c'
                                                           end) vm
                                                   else Ok e) acc
                                             | _ => Err EExtraKeys
                                             end
                                        else map_res (fun e => if vmatch e m then merge e v true else Ok e) acc);
                                     if existsb (fun e => vmatch e m) acc then go rest acc' else Err ENoMatch
                                 | None => go rest (acc ++ [v])
                                 end
                             end
                         | _ => go rest (acc ++ [v])
                         end
                     end) s d0;
          Ok (VList r)
      | VNull => Ok dst
      | _ => Err EInvalidType
      end
  | VNull => Ok src'
  | _ => if scalar_eqb src' dst then Err EUseless else Ok src'
  end.

Definition merge' (d s : value) : res value := merge d s false.

(* mergeMap / mergeList entry points used by process1 *)
Definition merge_map (d : emap) (s : value) : res value := merge' (VMap d) s.
Definition merge_list (d : list value) (s : value) : res value := merge' (VList d) s.

Definition merge_chain (layers : list value) : res value :=
  match layers with
  | [] => Ok VNull
  | b :: r => fold_left (fun acc l => do a <- acc; merge' a l) r (Ok b)
  end.
