(* Files.v — file.go, filepath.go and the input loop of cmd/bkl/main.go over an abstract
   single-directory file system. Paths are plain file names ("a.b.yaml"); a $parent value or
   input containing '/' or glob magic other than '*' is outside the model (Err EOracle).
   File contents are given already decoded and normalised (the codecs are C04/C05's subject). *)
From Coq Require Import String Ascii List ZArith Bool.
From Bkl Require Import Model.Value Model.Merge Model.Str Model.Eval Model.Parser.
Import ListNotations.
Local Open Scope string_scope.
Local Open Scope list_scope.

Inductive fnode :=
| FReg (docs : res (list value))     (* regular file: decoded documents, or undecodable *)
| FLink (target : string).           (* symbolic link to another name in the directory *)

Definition fsys := list (string * fnode).

Fixpoint fs_lookup (fs : fsys) (n : string) : option fnode :=
  match fs with [] => None | (k, x) :: r => if String.eqb k n then Some x else fs_lookup r n end.

(* follow links (os.Stat / open / EvalSymlinks); None = does not exist, dangling or a loop *)
Fixpoint resolve (fuel : nat) (fs : fsys) (n : string) : option (string * res (list value)) :=
  match fuel with
  | 0 => None
  | S f => match fs_lookup fs n with
           | None => None
           | Some (FReg d) => Some (n, d)
           | Some (FLink t) => resolve f fs t
           end
  end.
Definition link_fuel (fs : fsys) : nat := 1 + List.length fs.
Definition exists_file (fs : fsys) (n : string) : bool := match resolve (link_fuel fs) fs n with Some _ => true | None => false end.

(* ---- filepath.go ---- *)
Definition last_dot_split (s : string) : option (string * string) :=   (* (before last '.', after) *)
  match rev (split_on "."%char s) with
  | [] | [_] => None
  | e :: r => Some (join "." (rev r), e)
  end.
Definition ext (s : string) : string := match last_dot_split s with Some (_, e) => e | None => "" end.
Definition count_dots (s : string) : nat := List.length (split_on "."%char s) - 1.

Definition supported (fmts : list string) (e : string) : bool := existsb (String.eqb e) fmts.

(* findFile: some supported extension under which the layer exists (the quantifier of C03 has exactly one) *)
Definition find_file (fmts : list string) (fs : fsys) (base : string) : option string :=
  find (fun n => exists_file fs n) (map (fun e => (base ++ "." ++ e)%string) fmts).

Fixpoint wmatch (p s : string) {struct p} : bool :=
  match p with
  | EmptyString => match s with EmptyString => true | _ => false end
  | String c p' =>
      if Ascii.eqb c "*"%char
      then (fix star (s : string) : bool := wmatch p' s || match s with EmptyString => false | String _ s' => star s' end) s
      else match s with String d s' => Ascii.eqb c d && wmatch p' s' | EmptyString => false end
  end.

Definition has_char (c : ascii) (s : string) : bool := match index_of c s 0%N with Some _ => true | None => false end.
Definition in_model_name (s : string) : bool :=
  negb (has_char "/"%char s || has_char "?"%char s || has_char "["%char s || has_char "\"%char s).

Fixpoint insert_sorted (s : string) (l : list string) : list string :=
  match l with [] => [s] | x :: r => if String.leb s x then s :: l else x :: insert_sorted s r end.
Definition sort_names (l : list string) : list string := fold_right insert_sorted [] l.

(* globFiles(path): pattern path.* ; the wildcard may not match a dot; supported extensions only; sorted *)
Definition glob_files (fmts : list string) (fs : fsys) (path : string) : list string :=
  let pat := (path ++ ".*")%string in
  let dots := count_dots pat in
  sort_names (filter (fun n => wmatch pat n && Nat.eqb (count_dots n) dots && supported fmts (ext n)) (map fst fs)).

(* ---- file.go ---- *)
Record lfile := { lf_id : string; lf_docs : list value; lf_parent_files : list string (* ids *) }.

Inductive pdir := PNone | PNoParent | PList (l : list string).

(* parentsFromDirective over the documents: pops $parent from every map document *)
Fixpoint parent_directive (docs : list value) : res (list value * list string * bool) :=
  match docs with
  | [] => Ok ([], [], false)
  | d :: r =>
      do '(r', ps, nop) <- parent_directive r;
      match d with
      | VMap m =>
          match lookup "$parent" m with
          | None => Ok (d :: r', ps, nop)
          | Some v =>
              let d' := VMap (remove "$parent" m) in
              match v with
              | VStr s => Ok (d' :: r', s :: ps, nop)
              | VList l => match to_string_list l with Ok ss => Ok (d' :: r', ss ++ ps, nop) | Err _ => Err EInvalidParent end
              | VBool true => Err EInvalidParent
              | VBool false | VNull => Ok (d' :: r', ps, true)
              | _ => Ok (d' :: r', ps, nop)
              end
          end
      | _ => Ok (d :: r', ps, nop)
      end
  end.

Definition parents_from_filename (fmts : list string) (fs : fsys) (name : string) : res (list string) :=
  match rev (split_on "."%char name) with
  | [] | [_] => Err EInvalidFilename
  | [_; _] => Ok []
  | _ :: _ :: r =>
      match find_file fmts fs (join "." (rev r)) with
      | Some p => Ok [p]
      | None => Err EMissingFile
      end
  end.

(* file.parents(): the directive wins, then a symlink's target name, then the file's own name *)
Definition parents_of (fmts : list string) (fs : fsys) (path : string) (docs : list value) : res (list value * list string * string) :=
  do '(docs', ps, nop) <- parent_directive docs;
  if nop then (match ps with [] => Ok (docs', [], path) | _ => Err EConflictingParent end) else
  match ps with
  | _ :: _ =>
      if forallb in_model_name ps then
        do abs <- map_res (fun p => match glob_files fmts fs p with [] => Err EMissingFile | l => Ok l end) ps;
        Ok (docs', concat abs, path)
      else Err EOracle
  | [] =>
      match resolve (link_fuel fs) fs path with
      | Some (real, _) =>
          do ps' <- parents_from_filename fmts fs real;
          Ok (docs', ps', real)
      | None => Err EMissingFile
      end
  end.

(* loadFileAndParents: files parents-first; [chain] = paths of the files being loaded (cycle check) *)
Fixpoint load_chain (fuel : nat) (fmts : list string) (fs : fsys) (path : string) (child_id : option string) (chain : list string)
  : res (list lfile) :=
  match fuel with
  | 0 => Err ECircular
  | S f =>
      if existsb (String.eqb path) chain then Err ECircular else
      if negb (supported fmts (ext path)) then Err EUnknownFormat else
      match resolve (link_fuel fs) fs path with
      | None => Err EMissingFile
      | Some (_, Err e) => Err EUnmarshal
      | Some (_, Ok docs) =>
          let id := match child_id with Some c => (c ++ "|" ++ path)%string | None => path end in
          do '(docs', ps, _) <- parents_of fmts fs path docs;
          (* the chain holds the paths as requested (file.path), not link targets: since the fix 1453be7 a symlinked
             layer keeps its own path, so a cycle through a link is seen the second time its name comes up *)
          do pfs <- map_res (fun p => load_chain f fmts fs p (Some id) (path :: chain)) ps;
          let direct := map (fun l => match rev l with x :: _ => lf_id x | [] => "" end) pfs in
          Ok (concat pfs ++ [{| lf_id := id; lf_docs := docs'; lf_parent_files := direct |}])
      end
  end.

(* ---- merging loaded files into the parser model ---- *)
Definition doc_ids (f : lfile) : list string :=
  map (fun i => (lf_id f ++ "|doc" ++ Z_to_string (Z.of_nat i))%string) (seq 0 (List.length (lf_docs f))).

(* allocate the documents of all files (parents first), then merge them in order *)
Fixpoint alloc_files (files : list lfile) (table : list (string * list nat)) (next : nat) : list op * list (string * list nat) * nat :=
  match files with
  | [] => ([], table, next)
  | f :: r =>
      let parents := flat_map (fun pid => match find (fun e => String.eqb (fst e) pid) table with Some (_, l) => l | None => [] end) (lf_parent_files f) in
      let n := List.length (lf_docs f) in
      let idx := seq next n in
      let news := map (fun idv => ONew (fst idv) parents (snd idv)) (combine (doc_ids f) (lf_docs f)) in
      let '(ops, t', nx) := alloc_files r ((lf_id f, idx) :: table) (next + n) in
      (news ++ ops, t', nx)
  end.

(* NB: setParents links a file's documents to the documents of the file that *named it as parent*:
   the child's documents get the parent's documents as Parents. alloc_files above therefore needs,
   for each file, the ids of its direct parent files, which load_chain records. *)

Definition merge_files_ops (files : list lfile) (next : nat) : list op * nat :=
  let '(news, _, nx) := alloc_files files [] next in
  (news ++ map OMerge (seq next (nx - next)), nx).

Record cli_opts := { c_format : option string; c_output : option string; c_skip_parent : bool; c_inputs : list string }.

(* FileMatch *)
Definition file_match (fmts : list string) (fs : fsys) (path : string) : res (string * string) :=
  let f := ext path in
  if negb (supported fmts f) then Err EInvalidType else
  match last_dot_split path with
  | Some (base, _) => match find_file fmts fs base with Some real => Ok (real, f) | None => Err EMissingFile end
  | None => Err EInvalidType
  end.

(* the ops the CLI performs on its parser, and the format it writes *)
Fixpoint cli_inputs (fmts : list string) (fs : fsys) (skip : bool) (inputs : list string) (next : nat) (fmt : option string)
  : res (list op * option string) :=
  match inputs with
  | [] => Ok ([], fmt)
  | i :: r =>
      if negb (in_model_name i) then Err EOracle else
      do '(real, f) <- file_match fmts fs i;
      let fmt' := match fmt with Some x => Some x | None => Some f end in
      do files <- (if skip
                   then match resolve (link_fuel fs) fs real with
                        | Some (_, Ok docs) =>
                            if supported fmts (ext real)
                            then Ok [{| lf_id := real; lf_docs := map (fun d => match d with VMap m => VMap (remove "$parent" m) | _ => d end) docs; lf_parent_files := [] |}]
                            else Err EUnknownFormat
                        | Some (_, Err _) => Err EUnmarshal
                        | None => Err EMissingFile
                        end
                   else load_chain (2 + List.length fs) fmts fs real None []);
      let '(ops, nx) := merge_files_ops files next in
      do '(ops', fmt'') <- cli_inputs fmts fs skip r nx fmt';
      Ok (ops ++ ops', fmt'')
  end.

Definition chosen_format (o : cli_opts) (first_input_fmt : option string) : string :=
  match c_format o with
  | Some f => f
  | None => match c_output o with
            | Some p => ext p
            | None => match first_input_fmt with Some f => f | None => "json-pretty" end
            end
  end.

(* the whole command: (format, evaluated documents) or an error; a failing MergeDocument is an error too *)
Definition bkl_cli (orc : oracles) (fmts : list string) (fs : fsys) (o : cli_opts) : res (string * list value) :=
  do '(ops, infmt) <- cli_inputs fmts fs (c_skip_parent o) (c_inputs o) 0 None;
  let '(st, outs) := run orc init ops in
  if failed st then Err EOther else
  do docs <- eval_docs orc (documents st);
  Ok (chosen_format o infmt, docs).
