(* Value.v — JSON-like trees as bkl sees them, result monad, sorted association maps.
   Executable definitions only (no proofs). *)
From Coq Require Import String Ascii List ZArith Bool.
Import ListNotations.
Local Open Scope string_scope.
Local Open Scope list_scope.

Inductive value : Type :=
| VNull
| VBool (b : bool)
| VInt (z : Z)
| VFloat (g : string)      (* finite float64, identified by strconv 'g' shortest form *)
| VStr (s : string)
| VList (l : list value)
| VMap (m : list (string * value)).   (* invariant: strictly sorted by key *)

Definition emap := list (string * value).

Section ValueInd.
  Variable P : value -> Prop.
  Hypothesis HN : P VNull.
  Hypothesis HB : forall b, P (VBool b).
  Hypothesis HI : forall z, P (VInt z).
  Hypothesis HF : forall g, P (VFloat g).
  Hypothesis HS : forall s, P (VStr s).
  Hypothesis HL : forall l, Forall P l -> P (VList l).
  Hypothesis HM : forall m, Forall (fun kv => P (snd kv)) m -> P (VMap m).
  Fixpoint value_ind' (v : value) : P v :=
    match v with
    | VNull => HN | VBool b => HB b | VInt z => HI z | VFloat g => HF g | VStr s => HS s
    | VList l => HL l ((fix go (l : list value) : Forall P l :=
                          match l with [] => Forall_nil _ | x :: xs => Forall_cons _ (value_ind' x) (go xs) end) l)
    | VMap m => HM m ((fix go (m : emap) : Forall (fun kv => P (snd kv)) m :=
                          match m with [] => Forall_nil _ | kv :: xs => Forall_cons kv (value_ind' (snd kv)) (go xs) end) m)
    end.
End ValueInd.

Fixpoint size (v : value) : nat :=
  match v with
  | VList l => S ((fix go (l : list value) : nat := match l with [] => 0 | x :: xs => size x + go xs end) l)
  | VMap m => S ((fix go (m : emap) : nat := match m with [] => 0 | (_, x) :: xs => size x + go xs end) m)
  | _ => 1
  end.

(* ---- errors and results ---- *)
Inductive err :=
| EUseless | ENoMatch | EMultiMatch | EInvalidType | EExtraKeys | ERequired | EInvalidDirective
| EValidateMixed | ECircular | ERefNotFound | EVarNotFound | EInvalidRepeat | EInvalidArgs
| EUnknownFormat | EUnmarshal | EMarshal | EMissingMatch | EMissingFile | EInvalidParent | EConflictingParent
| EInvalidFilename | EOracle | EOther.

Inductive res (A : Type) : Type := Ok (a : A) | Err (e : err).
Arguments Ok {A} a.
Arguments Err {A} e.

Definition bind {A B} (r : res A) (f : A -> res B) : res B :=
  match r with Ok a => f a | Err e => Err e end.
Notation "'do' x <- e1 ; e2" := (bind e1 (fun x => e2)) (at level 200, x name, e1 at level 100, e2 at level 200).
Notation "'do' ' p <- e1 ; e2" := (bind e1 (fun x => match x with p => e2 end)) (at level 200, p pattern, e1 at level 100, e2 at level 200).

Definition is_ok {A} (r : res A) : bool := match r with Ok _ => true | Err _ => false end.

Fixpoint map_res {A B} (f : A -> res B) (l : list A) : res (list B) :=
  match l with [] => Ok [] | x :: r => do y <- f x; do r' <- map_res f r; Ok (y :: r') end.

(* ---- sorted association maps (Go map[string]any as a finite function) ---- *)
Fixpoint lookup (k : string) (m : emap) : option value :=
  match m with [] => None | (k', v) :: r => if String.eqb k k' then Some v else lookup k r end.

Fixpoint insert (k : string) (v : value) (m : emap) : emap :=
  match m with
  | [] => [(k, v)]
  | (k', v') :: r =>
      match String.compare k k' with
      | Eq => (k, v) :: r
      | Lt => (k, v) :: m
      | Gt => (k', v') :: insert k v r
      end
  end.

Fixpoint remove (k : string) (m : emap) : emap :=
  match m with [] => [] | (k', v) :: r => if String.eqb k k' then remove k r else (k', v) :: remove k r end.

Definition has_key (k : string) (m : emap) : bool := match lookup k m with Some _ => true | None => false end.

Definition of_list (l : list (string * value)) : emap := fold_left (fun acc kv => insert (fst kv) (snd kv) acc) l [].

Fixpoint sorted_keys (m : emap) : bool :=
  match m with
  | [] => true
  | (k, _) :: r => match r with [] => true | (k', _) :: _ => String.ltb k k' && sorted_keys r end
  end.

Fixpoint wfb (v : value) : bool :=
  match v with
  | VList l => (fix go (l : list value) := match l with [] => true | x :: xs => wfb x && go xs end) l
  | VMap m => sorted_keys m && (fix go (m : emap) := match m with [] => true | (_, x) :: xs => wfb x && go xs end) m
  | _ => true
  end.

(* Go's == on interface values when at least one side is a scalar or nil *)
Definition scalar_eqb (a b : value) : bool :=
  match a, b with
  | VNull, VNull => true
  | VBool x, VBool y => Bool.eqb x y
  | VInt x, VInt y => Z.eqb x y
  | VFloat x, VFloat y => String.eqb x y
  | VStr x, VStr y => String.eqb x y
  | _, _ => false
  end.

(* reflect.DeepEqual on normalised trees *)
Fixpoint deep_eqb (a b : value) {struct a} : bool :=
  match a, b with
  | VList x, VList y =>
      (fix go (x y : list value) {struct x} : bool :=
         match x, y with
         | [], [] => true
         | p :: ps, q :: qs => deep_eqb p q && go ps qs
         | _, _ => false
         end) x y
  | VMap x, VMap y =>
      (fix go (x y : emap) {struct x} : bool :=
         match x, y with
         | [], [] => true
         | (k1, p) :: ps, (k2, q) :: qs => String.eqb k1 k2 && deep_eqb p q && go ps qs
         | _, _ => false
         end) x y
  | VList _, _ | VMap _, _ | _, VList _ | _, VMap _ => false
  | _, _ => scalar_eqb a b
  end.

Definition is_null (v : value) : bool := match v with VNull => true | _ => false end.
Definition is_str (v : value) (s : string) : bool := match v with VStr x => String.eqb x s | _ => false end.
Definition is_bool (v : value) (b : bool) : bool := match v with VBool x => Bool.eqb x b | _ => false end.
Definition has_map_bool (m : emap) (k : string) (b : bool) : bool :=
  match lookup k m with Some v => is_bool v b | None => false end.
Definition lookup_or_null (k : string) (m : emap) : value := match lookup k m with Some v => v | None => VNull end.
