(* Stream.v — stream framing of yaml.go / toml.go at the level of lines: documents are joined with a
   line "---" and split again on lines that are exactly "---" (TOML also on "+++"). *)
From Coq Require Import String Ascii List Bool.
From Bkl Require Import Model.Value.
Import ListNotations.
Local Open Scope string_scope.
Local Open Scope list_scope.

Definition is_sep (toml : bool) (l : string) : bool := String.eqb l "---" || (toml && String.eqb l "+++").

(* regexp.Split on the separator lines *)
Fixpoint split_docs (toml : bool) (lines : list string) (cur : list string) : list (list string) :=
  match lines with
  | [] => [rev cur]
  | l :: r => if is_sep toml l then rev cur :: split_docs toml r [] else split_docs toml r (l :: cur)
  end.

Fixpoint join_docs (docs : list (list string)) : list string :=
  match docs with
  | [] => []
  | [d] => d
  | d :: r => d ++ "---" :: join_docs r
  end.

Definition no_sep_line (toml : bool) (d : list string) : bool := forallb (fun l => negb (is_sep toml l)) d.
