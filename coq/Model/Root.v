(* Root.v — the logic of the root sandbox (parser.go SetRoot, file.go loadFile) over a zoned view of
   the file system. The os.Root contract is the parameter [inside]: it says whether a path, after
   the kernel's resolution of .. and symbolic links, stays inside the root. Contents are read only
   through [root_read]; existence probes (Stat, Glob, EvalSymlinks) see everything. *)
From Coq Require Import String Ascii List Bool.
From Bkl Require Import Model.Value.
Import ListNotations.
Local Open Scope string_scope.
Local Open Scope list_scope.

Section Root.
  Variable inside : string -> bool.

  Definition contents := string -> option (res (list value)).     (* path -> decoded documents, if it exists *)

  (* Parser.loadFile: open through the root handle *)
  Definition root_read (c : contents) (p : string) : res (list value) :=
    if inside p then match c p with Some d => d | None => Err EMissingFile end else Err EOther.

  (* One step of parent loading as far as the sandbox is concerned: a probe decides which paths
     are candidates (it may look anywhere), then every candidate is read through the root. *)
  Definition load_candidates (c : contents) (probe : list string) : res (list (list value)) :=
    map_res (root_read c) probe.
End Root.

(* ---- a concrete path-level model: what opening a path through a root handle does ----
   Paths are lists of components (absolute, lexically clean). The file system is a table from paths to nodes; a link
   carries its target as an absolute component path (the harness joins a relative target with the link's directory and
   cleans it lexically) and whether it was SPELLED absolute (Go's os.Root refuses those outright).
   [walk] follows the remaining components from [cur]; every lookup it makes is under [root]; a link whose target is not
   under root (component-wise: /x/root2 is NOT under /x/root) is an escape. *)
Definition cpath := list string.
Inductive tnode :=
| TDir
| TFile (content : res value)
| TLink (spelled_abs : bool) (target : cpath).
Definition tfs := list (cpath * tnode).

Fixpoint cpath_eqb (a b : cpath) : bool :=
  match a, b with
  | [], [] => true
  | x :: a', y :: b' => String.eqb x y && cpath_eqb a' b'
  | _, _ => false
  end.

Fixpoint tfs_lookup (fs : tfs) (p : cpath) : option tnode :=
  match fs with [] => None | (q, n) :: r => if cpath_eqb q p then Some n else tfs_lookup r p end.

Fixpoint is_prefix (r p : cpath) : bool :=
  match r, p with
  | [], _ => true
  | x :: r', y :: p' => String.eqb x y && is_prefix r' p'
  | _ :: _, [] => false
  end.

Fixpoint walk (fuel : nat) (fs : tfs) (root cur : cpath) (rest : list string) : res value :=
  match fuel with
  | 0 => Err ECircular                                  (* too many levels of symbolic links *)
  | S f =>
      match rest with
      | [] =>
          match tfs_lookup fs cur with
          | Some (TFile d) => d
          | Some TDir => Err EInvalidType                (* is a directory *)
          | Some (TLink _ _) => Err EOther               (* not reached: links are followed when stepped onto *)
          | None => Err EMissingFile
          end
      | c :: r =>
          let next := cur ++ [c] in
          match tfs_lookup fs next with
          | None => Err EMissingFile
          | Some TDir => walk f fs root next r
          | Some (TFile d) => match r with [] => d | _ => Err EInvalidType end
          | Some (TLink spelled_abs t) =>
              if spelled_abs then Err EOther               (* os.Root refuses absolute link targets *)
              else if is_prefix root t then walk f fs root root (skipn (List.length root) t ++ r)
              else Err EOther                              (* the link leaves the root *)
          end
      end
  end.

(* Parser.loadFile under a root: Rel(rootPath, Abs(path)) must not start with ".." *)
Definition root_open (fuel : nat) (fs : tfs) (root p : cpath) : res value :=
  if is_prefix root p then walk fuel fs root root (skipn (List.length root) p) else Err EOther.

(* Parser.SetRoot: the new root is given relative to the CURRENT root handle (OpenRoot), so it must lie under it *)
Definition set_root (cur p : cpath) : option cpath := if is_prefix cur p then Some p else None.

Fixpoint set_roots (cur : cpath) (ps : list cpath) : option cpath :=
  match ps with
  | [] => Some cur
  | p :: r => match set_root cur p with Some c => set_roots c r | None => None end
  end.
