(* Root.v — the logic of the root sandbox (parser.go SetRoot, file.go loadFile) over a zoned view of
   the file system. The os.Root contract is the parameter [inside]: it says whether a path, after
   the kernel's resolution of .. and symbolic links, stays inside the root. Contents are read only
   through [root_read]; existence probes (Stat, Glob, EvalSymlinks) see everything. *)
From Coq Require Import String Ascii List Bool.
From Bkl Require Import Model.Value.
Import ListNotations.
Local Open Scope string_scope.
Local Open Scope list_scope.

Section Root.
  Variable inside : string -> bool.

  Definition contents := string -> option (res (list value)).     (* path -> decoded documents, if it exists *)

  (* Parser.loadFile: open through the root handle *)
  Definition root_read (c : contents) (p : string) : res (list value) :=
    if inside p then match c p with Some d => d | None => Err EMissingFile end else Err EOther.

  (* One step of parent loading as far as the sandbox is concerned: a probe decides which paths
     are candidates (it may look anywhere), then every candidate is read through the root. *)
  Definition load_candidates (c : contents) (probe : list string) : res (list (list value)) :=
    map_res (root_read c) probe.
End Root.
