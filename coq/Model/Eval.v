(* Eval.v — get.go, process1.go, repeat.go, evalcontext.go, process2.go, output.go, validate.go,
   finalize.go and the evaluation loop of Parser.OutputDocuments / Document.Process, as they
   stand after the fix commits. Executable definitions only. *)
From Coq Require Import String Ascii List ZArith NArith Bool.
From Bkl Require Import Model.Value Model.Merge Model.Str.
Import ListNotations.
Local Open Scope string_scope.
Local Open Scope list_scope.

(* Everything bkl asks of the outside world during evaluation. Section variables in proofs,
   finite tables supplied per case in the correspondence driver. *)
Record oracles := {
  o_env   : list (string * string);              (* os.Environ() *)
  o_yaml  : string -> res value;                 (* yaml.Unmarshal of a reference string *)
  o_enc   : string -> value -> res string;       (* GetFormat(f).MarshalStream([v]) *)
  o_dec   : string -> string -> res (list value);(* normalize . GetFormat(f).UnmarshalStream *)
  o_fmt   : string -> bool;                      (* is f a key of formatByExtension *)
  o_sha   : string -> res string;                (* hex(sha256(s)) *)
  o_lower : N -> bool                            (* unicode.IsLower for runes >= 0x80 *)
}.

Definition depth_limit : nat := 1000.

(* ---- paths into the live document ---- *)
Inductive pstep := K (k : string) | I (i : nat).
Definition path := list pstep.

Fixpoint set_nth (l : list value) (i : nat) (v : value) : list value :=
  match l, i with [], _ => [] | _ :: t, 0 => v :: t | h :: t, S j => h :: set_nth t j v end.

Fixpoint write (D : value) (p : path) (v : value) : value :=
  match p with
  | [] => v
  | K k :: r => match D with VMap m => match lookup k m with Some c => VMap (insert k (write c r v) m) | None => D end | _ => D end
  | I i :: r => match D with VList l => match nth_error l i with Some c => VList (set_nth l i (write c r v)) | None => D end | _ => D end
  end.

Definition nth_doc (S : list value) (i : nat) : value := nth i S VNull.
Definition write_doc (S : list value) (cur : nat) (loc : option path) (v : value) : list value :=
  match loc with Some p => set_nth S cur (write (nth_doc S cur) p v) | None => S end.
Definition ext (loc : option path) (s : pstep) : option path :=
  match loc with Some p => Some (p ++ [s]) | None => None end.

Fixpoint keys_prefix (kp : list string) (p : path) : bool :=
  match kp with
  | [] => true
  | k :: kr => match p with K k' :: pr => String.eqb k k' && keys_prefix kr pr | _ => false end
  end.

(* ---- get.go ---- *)
Fixpoint get_path (obj : value) (parts : list string) : res value :=
  match parts with
  | [] => Ok obj
  | k :: r => match obj with
              | VMap m => match lookup k m with Some v => get_path v r | None => Err ERefNotFound end
              | _ => Err ERefNotFound
              end
  end.

Fixpoint to_string_list (l : list value) : res (list string) :=
  match l with [] => Ok [] | VStr s :: r => do r' <- to_string_list r; Ok (s :: r') | _ => Err EInvalidType end.

(* index of the unique document matching pat *)
Fixpoint cross_doc_go (S : list value) (pat : value) (i : nat) (found : option nat) : res nat :=
  match S with
  | [] => match found with Some j => Ok j | None => Err ENoMatch end
  | d :: r => if vmatch d pat
              then match found with Some _ => Err EMultiMatch | None => cross_doc_go r pat (1 + i) (Some i) end
              else cross_doc_go r pat (1 + i) found
  end.
Definition cross_doc (S : list value) (pat : value) : res nat := cross_doc_go S pat 0 None.

(* a resolved reference: the value, the document it lives in and its key path there *)
Definition resolved := (value * (nat * list string))%type.

Definition get_path_from_list (S : list value) (di : nat) (p : list value) : res resolved :=
  let after (di : nat) (p : list value) :=
    do ks <- to_string_list p; do v <- get_path (nth_doc S di) ks; Ok (v, (di, ks)) in
  match p with
  | (VMap _ as pat) :: r | (VList _ as pat) :: r => do dj <- cross_doc S pat; after dj r
  | _ => after di p
  end.

Definition get_path_from_string (o : oracles) (S : list value) (di : nat) (s : string) : res resolved :=
  do p <- o_yaml o s;
  match p with
  | VStr p3 => let ks := split_on "."%char p3 in do v <- get_path (nth_doc S di) ks; Ok (v, (di, ks))
  | VList l => get_path_from_list S di l
  | _ => Err EInvalidType
  end.

Fixpoint get (o : oracles) (S : list value) (di : nat) (m : value) {struct m} : res resolved :=
  match m with
  | VStr s => get_path_from_string o S di s
  | VList l => get_path_from_list S di l
  | VMap conf =>
      match lookup "$match" conf with
      | None => Err EMissingMatch
      | Some pat =>
          do dj <- cross_doc S pat;
          (fix find (c : emap) : res resolved :=
             match c with
             | [] => Ok (nth_doc S dj, (dj, []))
             | (k, x) :: c' => if String.eqb k "$path" then get o S dj x else find c'
             end) conf
      end
  | _ => Err EInvalidType
  end.

(* ---- process1.go ---- *)
Fixpoint indexed_from (i : nat) (l : list value) : list (nat * value) :=
  match l with [] => [] | x :: r => (i, x) :: indexed_from (1 + i) r end.

(* popListMapValue over an indexed list (indices are positions in the live list) *)
Fixpoint pop_list_map_value_idx (l : list (nat * value)) (k : string) (ret : value) : res (value * list (nat * value)) :=
  match l with
  | [] => Ok (ret, [])
  | (i, x) :: r =>
      match x with
      | VMap [(k', val)] =>
          if String.eqb k' k
          then (if is_null ret then pop_list_map_value_idx r k val else Err EExtraKeys)
          else do '(ret', r') <- pop_list_map_value_idx r k ret; Ok (ret', (i, x) :: r')
      | _ => do '(ret', r') <- pop_list_map_value_idx r k ret; Ok (ret', (i, x) :: r')
      end
  end.

Definition is_merge_entry (v : value) : option value :=
  match v with VMap [(k, x)] => if String.eqb k "$merge" then Some x else None | _ => None end.

Section P1.
  Variable o : oracles.
  Variable cur : nat.                       (* index of the document being evaluated *)

  (* result value and the updated document list *)
  Fixpoint p1 (fuel : nat) (S : list value) (loc : option path) (obj : value) {struct fuel} : res (value * list value) :=
    match fuel with
    | 0 => Err ECircular
    | S f =>
      match obj with
      | VMap m =>
          match lookup "$merge" m with
          | Some r =>
              let obj1 := remove "$merge" m in
              let S1 := write_doc S cur loc (VMap obj1) in
              do '(inn, (di, kp)) <- get o S1 cur r;
              if (match loc with Some p => Nat.eqb di cur && keys_prefix kp p | None => false end)
              then Err ECircular else
              do next <- merge_map obj1 inn;
              let inplace := match inn with
                             | VMap s => negb (has_map_bool s "$replace" true)
                             | VNull => true
                             | _ => false
                             end in
              if inplace then p1 f (write_doc S1 cur loc next) loc next else p1 f S1 None next
          | None =>
          match lookup "$replace" m with
          | Some r => do '(inn, _) <- get o S cur r; p1 f S None inn
          | None =>
              do '(racc, S') <-
                fold_left (fun acc kv =>
                  do '(racc, Sc) <- acc;
                  let '(k, v) := kv in
                  do '(v2, S2) <- p1 f Sc (ext loc (K k)) v;
                  match v2 with
                  | VNull => Ok (racc, S2)
                  | _ => do '(k2, _) <- p1 f S2 None (VStr k);
                         match k2 with VStr k3 => Ok (insert k3 v2 racc, S2) | _ => Err EInvalidType end
                  end) m (Ok ([], S));
              Ok (VMap racc, S')
          end end
      | VList l =>
          let merges := flat_map (fun v => match is_merge_entry v with Some x => [x] | None => [] end) l in
          let l1 := filter (fun v => match is_merge_entry v with Some _ => false | None => true end) l in
          do l2 <- fold_left (fun acc mv =>
                     do lc <- acc;
                     do '(inn, _) <- get o S cur mv;
                     do r <- merge_list lc inn;
                     match r with VList x => Ok x | _ => Err EOther end) merges (Ok l1);
          let live := match merges with [] => true | _ => false end in
          do '(rep, l3) <- pop_list_map_value_idx (indexed_from 0 l2) "$replace" VNull;
          if negb (is_null rep) then (do '(inn, _) <- get o S cur rep; p1 f S None inn) else
          do '(racc, S') <-
            fold_left (fun acc iv =>
              do '(racc, Sc) <- acc;
              let '(i, v) := iv in
              do '(v2, S2) <- p1 f Sc (if live then ext loc (I i) else None) v;
              match v2 with VNull => Ok (racc, S2) | _ => Ok (racc ++ [v2], S2) end) l3 (Ok ([], S));
          Ok (VList racc, S')
      | VStr s =>
          if has_prefix "$merge:" s then (do '(inn, _) <- get o S cur (VStr (drop 7 s)); p1 f S None inn)
          else if has_prefix "$replace:" s then (do '(inn, _) <- get o S cur (VStr (drop 9 s)); p1 f S None inn)
          else Ok (obj, S)
      | _ => Ok (obj, S)
      end
    end.
End P1.

(* ---- evalcontext.go ---- *)
Definition ectx := emap.     (* variable name -> value *)
Definition env_ctx (o : oracles) : ectx :=
  fold_left (fun acc kv => insert ("$env:" ++ fst kv)%string (VStr (snd kv)) acc) (o_env o) [].
Definition get_var (ec : ectx) (n : string) : res value :=
  match lookup n ec with Some v => Ok v | None => Err EVarNotFound end.

(* ---- repeat.go ---- *)
Fixpoint count_up (n : nat) (i : Z) : list Z := match n with 0 => [] | S n' => i :: count_up n' (i + 1)%Z end.
Definition range (n : Z) : list Z := count_up (Z.to_nat n) 0%Z.

Definition repeat_from_int (d : value) (ec : ectx) (name : string) (count : Z) : list (value * ectx) :=
  map (fun i => (d, insert name (VInt i) ec)) (range count).

Definition repeat_gen (d : value) (ec : ectx) (v : value) : res (list (value * ectx)) :=
  match v with
  | VInt n => Ok (repeat_from_int d ec "$repeat" n)
  | VMap rs =>
      let ec1 := fold_left (fun acc kv => insert ("$repeat." ++ fst kv)%string (snd kv) acc) rs ec in
      fold_left (fun acc kv =>
        do ds <- acc;
        match snd kv with
        | VInt c => Ok (flat_map (fun de => repeat_from_int (fst de) (snd de) ("$repeat:" ++ fst kv)%string c) ds)
        | _ => Err EInvalidRepeat
        end) rs (Ok [(d, ec1)])
  | _ => Err EInvalidRepeat
  end.

(* returns the data left in the document (doc.Data), the generated (data, context) pairs, and
   whether $repeat was present (the generated documents are then clones) *)
Definition repeat_doc (d : value) (ec : ectx) : res (value * list (value * ectx) * bool) :=
  match d with
  | VMap m =>
      match lookup "$repeat" m with
      | Some v => let d' := VMap (remove "$repeat" m) in do g <- repeat_gen d' ec v; Ok (d', g, true)
      | None => Ok (d, [(d, ec)], false)
      end
  | VList l =>
      do '(v, l2) <- pop_list_map_value l "$repeat";
      if is_null v then Ok (d, [(d, ec)], false)
      else let d' := VList l2 in do g <- repeat_gen d' ec v; Ok (d', g, true)
  | _ => Ok (d, [(d, ec)], false)
  end.

(* ---- validate.go ---- *)
Definition is_lower_ascii (b : N) : bool := in_range b 97 122.
Definition validate_string (o : oracles) (s : string) : option err :=
  if String.eqb s "$required" then Some ERequired else
  match s with
  | String c r =>
      if Ascii.eqb c "$"%char then
        match bytes_of r with
        | [] => None
        | (b :: _) as bs =>
            if N.ltb b 128 then (if is_lower_ascii b then Some EInvalidDirective else None)
            else match decode_rune bs with
                 | Some cp => if o_lower o cp then Some EInvalidDirective else None
                 | None => None
                 end
        end
      else None
  | EmptyString => None
  end.

(* Go visits map entries in random order and returns the first error; the model reports
   which kinds of error are present. *)
Definition join_err (a b : option err) : option err :=
  match a, b with
  | None, x | x, None => x
  | Some ERequired, Some ERequired => Some ERequired
  | Some EInvalidDirective, Some EInvalidDirective => Some EInvalidDirective
  | _, _ => Some EValidateMixed
  end.

Fixpoint validate_go (o : oracles) (v : value) : option err :=
  match v with
  | VStr s => validate_string o s
  | VList l => (fix go (l : list value) := match l with [] => None | x :: xs => join_err (validate_go o x) (go xs) end) l
  | VMap m => (fix go (m : emap) := match m with [] => None
                | (k, x) :: xs => join_err (join_err (validate_string o k) (validate_go o x)) (go xs) end) m
  | _ => None
  end.
Definition validate (o : oracles) (v : value) : res unit :=
  match validate_go o v with None => Ok tt | Some e => Err e end.

(* ---- process2.go ---- *)
Fixpoint find_close (s : string) (acc : string) : option (string * string) :=   (* up to the first '}' before any newline *)
  match s with
  | EmptyString => None
  | String c r =>
      if Ascii.eqb c "}"%char then Some (rev_string acc, r)
      else if Ascii.eqb c "010"%char then None
      else find_close r (String c acc)
  end.

Inductive seg := Lit (s : string) | Ref (s : string).

(* interpRE = {.*?} : at a '{' that has a '}' ahead on the same line, the reference runs to the
   first '}'; any other '{' is literal text. *)
Fixpoint scan (s : string) (lit : string) (inref : option string) : list seg :=
  match s with
  | EmptyString => [Lit (rev_string lit)]
  | String c r =>
      match inref with
      | Some acc =>
          if Ascii.eqb c "}"%char then Ref (rev_string acc) :: scan r EmptyString None
          else scan r lit (Some (String c acc))
      | None =>
          if Ascii.eqb c "{"%char then
            match find_close r EmptyString with
            | Some _ => Lit (rev_string lit) :: scan r EmptyString (Some EmptyString)
            | None => scan r (String c lit) None
            end
          else scan r (String c lit) None
      end
  end.

Definition split_colon (s : string) : list string := split_on ":"%char s.

Definition to_string_list_permissive (v : value) : res (list string) :=
  match v with VList l => Ok (map show l) | _ => Err EInvalidType end.

Definition to_list_value (k delim : string) (v : value) : value :=
  if is_str v "" then VStr k else VStr (k ++ delim ++ show v)%string.

Definition to_list_map (v : value) (delim : string) : res (list value) :=
  match v with
  | VMap m => Ok (flat_map (fun kv => match snd kv with
                                      | VList l => map (to_list_value (fst kv) delim) l
                                      | x => [to_list_value (fst kv) delim x]
                                      end) m)
  | _ => Err EInvalidType
  end.

Definition to_list_list (l : list value) (delim : string) : res (list value) :=
  do ls <- map_res (fun x => to_list_map x delim) l; Ok (concat ls).

(* ---- $encode transforms (process2EncodeString / process2EncodeAny) ---- *)
Definition encode_one (o : oracles) (obj : value) (v : string) : res value :=
  let parts := split_colon v in
  let cmd := hd "" parts in
  let n := List.length parts in
  if String.eqb cmd "base64" then
    (if Nat.eqb n 1 then Ok (VStr (b64_encode (show obj))) else Err EInvalidArgs)
  else if String.eqb cmd "flatten" then
    (if Nat.eqb n 1 then
       match obj with
       | VList l => Ok (VList (flat_map (fun x => match x with VList y => y | _ => [x] end) l))
       | _ => Err EInvalidType
       end
     else Err EInvalidArgs)
  else if String.eqb cmd "join" then
    (if Nat.leb n 2 then
       do strs <- to_string_list_permissive obj; Ok (VStr (join (nth 1 parts "") strs))
     else Err EInvalidArgs)
  else if String.eqb cmd "prefix" then
    (if Nat.eqb n 2 then
       do strs <- to_string_list_permissive obj; Ok (VList (map (fun x => VStr (nth 1 parts "" ++ x)%string) strs))
     else Err EInvalidArgs)
  else if String.eqb cmd "sha256" then
    (if Nat.eqb n 1 then do h <- o_sha o (show obj); Ok (VStr h) else Err EInvalidArgs)
  else if String.eqb cmd "tolist" then
    (if Nat.eqb n 2 then
       match obj with
       | VList l => do r <- to_list_list l (nth 1 parts ""); Ok (VList r)
       | _ => do r <- to_list_map obj (nth 1 parts ""); Ok (VList r)
       end
     else Err EInvalidArgs)
  else if String.eqb cmd "values" then
    (if Nat.eqb n 1 then
       match obj with VMap m => Ok (VList (map snd m)) | _ => Err EInvalidType end
     else Err EInvalidArgs)
  else
    (if Nat.eqb n 1 then
       (if o_fmt o cmd then do e <- o_enc o cmd obj; Ok (VStr e) else Err EUnknownFormat)
     else Err EInvalidArgs).

Definition encode_string (o : oracles) (obj : value) (v : string) : res value :=
  if String.eqb (hd "" (split_colon v)) "flags"
  then do x <- encode_one o obj "tolist:="; encode_one o x "prefix:--"
  else encode_one o obj v.

Fixpoint encode_any (o : oracles) (obj : value) (v : value) {struct v} : res value :=
  match v with
  | VStr s => encode_string o obj s
  | VList l => (fix go (l : list value) (acc : value) : res value :=
                  match l with [] => Ok acc | x :: r => do a <- encode_any o acc x; go r a end) l obj
  | _ => Err EInvalidType
  end.

Definition is_interp (s : string) : bool := has_prefix "$""" s && has_suffix """" s.
Definition is_var_string (s : string) : bool := has_prefix "$env:" s || String.eqb s "$repeat".

Section P2.
  Variable o : oracles.
  Variable S : list value.                  (* all documents as they are while this one is evaluated *)
  Variable di : nat.                        (* index of the document references resolve against *)

  Definition get_with_var (ec : ectx) (r : string) : res value :=
    match get o S di (VStr r) with
    | Ok (v, _) => Ok v
    | Err _ => get_var ec r
    end.

  (* process2String. fuel 0 = the depth guard of process2StringInterp fires. *)
  Fixpoint p2_string (fuel : nat) (ec : ectx) (s : string) {struct fuel} : res value :=
    if is_interp s then
      match fuel with
      | 0 => Err ECircular
      | Datatypes.S f =>
          let body := trim_suffix """" (trim_prefix "$""" s) in
          do parts <- map_res (fun sg =>
                        match sg with
                        | Lit l => Ok l
                        | Ref r =>
                            do v <- get_with_var ec r;
                            match v with
                            | VStr v2 => do x <- p2_string f ec v2; Ok (show x)
                            | _ => Ok (show v)
                            end
                        end) (scan body EmptyString None);
          Ok (VStr (String.concat "" parts))
      end
    else if is_var_string s then get_var ec s
    else Ok (VStr s).

  Fixpoint p2 (fuel : nat) (ec : ectx) (obj : value) {struct fuel} : res value :=
    match fuel with
    | 0 => Err ECircular
    | Datatypes.S f =>
      let encode (obj v : value) : res value :=
        do obj2 <- p2 f ec obj; do _ <- validate o obj2; encode_any o obj2 v in
      let repeat_count (r : value) : res (list Z) :=
        match r with VInt n => Ok (range n) | _ => Err EInvalidType end in
      match obj with
      | VMap m =>
          do m1 <- fold_left (fun acc kv =>
                     do a <- acc;
                     let '(k, v) := kv in
                     match v with
                     | VMap vm =>
                         match lookup "$repeat" vm with
                         | Some r =>
                             let body := VMap (remove "$repeat" vm) in
                             do idx <- repeat_count r;
                             do mm <- fold_left (fun acc2 i =>
                                        do a2 <- acc2;
                                        let ec' := insert "$repeat" (VInt i) ec in
                                        do v2 <- p2 f ec' body;
                                        match v2 with
                                        | VNull => Ok a2
                                        | _ => do k2 <- p2 f ec' (VStr k);
                                               match k2 with VStr k3 => Ok (insert k3 v2 a2) | _ => Err EInvalidType end
                                        end) idx (Ok []);
                             Ok (fold_left (fun a3 kv2 => insert (fst kv2) (snd kv2) a3) mm a)
                         | None => Ok (insert k v a)
                         end
                     | _ => Ok (insert k v a)
                     end) m (Ok []);
          match lookup "$encode" m1 with
          | Some v => encode (VMap (remove "$encode" m1)) v
          | None =>
          match lookup "$decode" m1 with
          | Some v =>
              let m2 := remove "$decode" m1 in
              match v with
              | VStr fmt =>
                  match lookup "$value" m2 with
                  | Some (VStr text) =>
                      match remove "$value" m2 with
                      | [] =>
                          if o_fmt o fmt then
                            do decs <- o_dec o fmt text;
                            match decs with [dec] => p2 f ec dec | _ => Err EUnmarshal end
                          else Err EUnknownFormat
                      | _ => Err EExtraKeys
                      end
                  | _ => Err EInvalidType
                  end
              | _ => Err EInvalidType
              end
          | None =>
          match lookup "$value" m1 with
          | Some v => match remove "$value" m1 with [] => p2 f ec v | _ => Err EExtraKeys end
          | None =>
              do r <- fold_left (fun acc kv =>
                        do a <- acc;
                        let '(k, v) := kv in
                        do v2 <- p2 f ec v;
                        match v2 with
                        | VNull => Ok a
                        | _ => do k2 <- p2 f ec (VStr k);
                               match k2 with VStr k3 => Ok (insert k3 v2 a) | _ => Err EInvalidType end
                        end) m1 (Ok []);
              Ok (VMap r)
          end end end
      | VList l =>
          do '(enc, l1) <- pop_list_map_value l "$encode";
          if negb (is_null enc) then encode (VList l1) enc else
          do r <- fold_left (fun acc v =>
                    do a <- acc;
                    match v with
                    | VMap vm =>
                        match lookup "$repeat" vm with
                        | Some r =>
                            let body := VMap (remove "$repeat" vm) in
                            do idx <- repeat_count r;
                            fold_left (fun acc2 i =>
                              do a2 <- acc2;
                              do v2 <- p2 f (insert "$repeat" (VInt i) ec) body;
                              match v2 with VNull => Ok a2 | _ => Ok (a2 ++ [v2]) end) idx (Ok a)
                        | None => do v2 <- p2 f ec v; match v2 with VNull => Ok a | _ => Ok (a ++ [v2]) end
                        end
                    | _ => do v2 <- p2 f ec v; match v2 with VNull => Ok a | _ => Ok (a ++ [v2]) end
                    end) l1 (Ok []);
          Ok (VList r)
      | VStr s => p2_string fuel ec s
      | _ => Ok obj
      end
    end.
End P2.

(* ---- output.go ---- *)
Fixpoint find_outputs (v : value) {struct v} : res (value * list value) :=
  match v with
  | VMap m =>
      let marked := has_map_bool m "$output" true in
      do '(ret, outs) <-
        (fix go (m : emap) : res (emap * list value) :=
           match m with
           | [] => Ok ([], [])
           | (k, x) :: r =>
               if marked && String.eqb k "$output" then go r else
               do '(x', o1) <- find_outputs x;
               do '(r', o2) <- go r;
               Ok ((k, x') :: r', o1 ++ o2)
           end) m;
      Ok (VMap ret, (if marked then [VMap ret] else []) ++ outs)
  | VList l =>
      let marked := has_list_map_bool l "$output" true in
      do '(ret, outs) <-
        (fix go (l : list value) : res (list value * list value) :=
           match l with
           | [] => Ok ([], [])
           | x :: r =>
               match (match x with VMap xm => if has_map_bool xm "$output" true
                                              then Some (match remove "$output" xm with [] => true | _ => false end) else None
                              | _ => None end) with
               | Some true => go r                        (* the list's own marker entry *)
               | Some false => Err EExtraKeys
               | None =>
                   do '(x', o1) <- find_outputs x;
                   do '(r', o2) <- go r;
                   Ok (x' :: r', o1 ++ o2)
               end
           end) l;
      Ok (VList ret, outs ++ (if marked then [VList ret] else []))
  | _ => Ok (v, [])
  end.

(* None = hidden *)
Fixpoint filter_output (v : value) {struct v} : res (option value) :=
  match v with
  | VMap m =>
      if has_map_bool m "$output" false then Ok None else
      do r <- (fix go (m : emap) : res emap :=
                 match m with
                 | [] => Ok []
                 | (k, x) :: r =>
                     do x' <- filter_output x;
                     do r' <- go r;
                     match x' with Some y => Ok ((k, y) :: r') | None => Ok r' end
                 end) m;
      Ok (Some (VMap r))
  | VList l =>
      if has_list_map_bool l "$output" false then
        (do _ <- pop_list_map_bool_go l "$output" false; Ok None)
      else
      do r <- (fix go (l : list value) : res (list value) :=
                 match l with
                 | [] => Ok []
                 | x :: r =>
                     do x' <- filter_output x;
                     do r' <- go r;
                     match x' with Some y => Ok (y :: r') | None => Ok r' end
                 end) l;
      Ok (Some (VList r))
  | VNull => Ok None
  | _ => Ok (Some v)
  end.

(* ---- finalize.go ---- *)
Fixpoint finalize (v : value) : value :=
  match v with
  | VStr s => VStr (unescape s)
  | VList l => VList ((fix go (l : list value) := match l with [] => [] | x :: r => finalize x :: go r end) l)
  | VMap m => VMap ((fix go (m : emap) (acc : emap) := match m with [] => acc | (k, x) :: r => go r (insert (unescape k) (finalize x) acc) end) m [])
  | _ => v
  end.

(* ---- Parser.outputDocument for one processed document ---- *)
Definition outputs_of (o : oracles) (d : value) : res (list value) :=
  do '(obj, outs) <- find_outputs d;
  let sel := match outs with [] => [obj] | _ => outs end in
  do rs <- map_res (fun v =>
             do v2 <- filter_output v;
             match v2 with
             | None => Ok []
             | Some y => do _ <- validate o y; Ok [finalize y]
             end) sel;
  Ok (concat rs).

(* ---- Document.Process + Parser.OutputDocuments over copies of the stored documents ---- *)
Definition process_doc (o : oracles) (S : list value) (i : nat) : res (list value * list value) :=
  do '(r, S1) <- p1 o i depth_limit S (Some []) (nth_doc S i);
  do '(lft, gens, cloned) <- repeat_doc r (env_ctx o);
  let S2 := set_nth S1 i lft in
  do ds <- map_res (fun de => p2 o S2 i depth_limit (snd de) (fst de)) gens;
  (* without $repeat the document itself is evaluated and keeps the result *)
  let S3 := if cloned then S2 else match ds with [d] => set_nth S2 i d | _ => S2 end in
  Ok (ds, S3).

Fixpoint eval_docs_from (o : oracles) (n : nat) (i : nat) (S : list value) : res (list value) :=
  match n with
  | 0 => Ok []
  | Datatypes.S n' =>
      do '(ds, S') <- process_doc o S i;
      do outs <- map_res (outputs_of o) ds;
      do rest <- eval_docs_from o n' (1 + i) S';
      Ok (concat outs ++ rest)
  end.

(* Parser.OutputDocuments on the stored (merged, unevaluated) documents *)
Definition eval_docs (o : oracles) (docs : list value) : res (list value) :=
  eval_docs_from o (List.length docs) 0 docs.
