(* Yaml.v — yaml.go's own logic: yamlTranslateNode / yamlMerge over a model of yaml.v3 node trees.
   (The YAML parser itself is third-party: the harness renders node trees to YAML text with its own emitter,
   so the node tree the model sees and the one yaml.v3 builds are tied by the per-run comparison.) *)
From Coq Require Import String Ascii List ZArith Bool DecimalString.
From Bkl Require Import Model.Value.
Import ListNotations.
Local Open Scope string_scope.
Local Open Scope list_scope.

Inductive ynode : Type :=
| YScalar (tag : string) (text : string)        (* short tag as yaml.v3 resolves it: !!str !!int !!float !!bool !!null !!timestamp !!merge *)
| YSeq (l : list ynode)
| YMap (kvs : list (ynode * ynode))             (* key nodes and value nodes, in document order *)
| YAlias (target : ynode)                        (* *anchor: the aliased node *)
| YAliasUp                                       (* *anchor where the anchor is on a node ENCLOSING the alias (a: &a [*a]): yaml.v3
                                                    registers the anchor before it parses the children, so its node tree has a cycle;
                                                    the translation (since fix 9e9f681) tracks the anchors being expanded and reports it *)
| YEmpty.                                        (* Kind 0: an empty document *)

Definition key_text (k : ynode) : string := match k with YScalar _ t => t | _ => "" end.

(* numbers arrive as text; decimal integers are parsed, float text is kept (the generator writes canonical forms) *)
Definition Z_of_dec (s : string) : option Z :=
  match NilZero.int_of_string s with Some i => Some (Z.of_int i) | None => None end.

(* yamlMerge: copy the entries of a mapping (or of a list of mappings, so that EARLIER ones win) into dst *)
Definition yaml_merge (dst : emap) (src : value) : res emap :=
  match src with
  | VMap m => Ok (fold_left (fun acc kv => insert (fst kv) (snd kv) acc) m dst)
  | VList l =>
      fold_left (fun acc x => do a <- acc;
                              match x with
                              | VMap m => Ok (fold_left (fun acc2 kv => insert (fst kv) (snd kv) acc2) m a)
                              | _ => Err EInvalidType
                              end) (rev l) (Ok dst)
  | _ => Err EInvalidType
  end.

Fixpoint ytranslate (n : ynode) : res value :=
  match n with
  | YEmpty => Ok VNull
  | YAlias t => ytranslate t
  | YAliasUp => Err ECircular
  | YSeq l => do l' <- (fix go (l : list ynode) : res (list value) :=
                          match l with [] => Ok [] | x :: r => do y <- ytranslate x; do r' <- go r; Ok (y :: r') end) l;
              Ok (VList l')
  | YMap kvs =>
      (* first the merge keys, in order; then the local keys, which win *)
      do merged <- (fix go (kvs : list (ynode * ynode)) (acc : emap) : res emap :=
                      match kvs with
                      | [] => Ok acc
                      | (k, v) :: r =>
                          if String.eqb (key_text k) "<<"
                          then do v2 <- ytranslate v; do acc' <- yaml_merge acc v2; go r acc'
                          else go r acc
                      end) kvs [];
      do all <- (fix go (kvs : list (ynode * ynode)) (acc : emap) : res emap :=
                   match kvs with
                   | [] => Ok acc
                   | (k, v) :: r =>
                       if String.eqb (key_text k) "<<" then go r acc
                       else do v2 <- ytranslate v; go r (insert (key_text k) v2 acc)
                   end) kvs merged;
      Ok (VMap all)
  | YScalar tag text =>
      if String.eqb tag "!!bool" then
        (if String.eqb text "true" then Ok (VBool true) else if String.eqb text "false" then Ok (VBool false) else Err EOracle)
      else if String.eqb tag "!!int" then
        (match Z_of_dec text with Some z => Ok (VInt z) | None => Err EOracle end)
      else if String.eqb tag "!!float" then Ok (VFloat text)
      else if String.eqb tag "!!null" then Ok VNull
      else if String.eqb tag "!!str" || String.eqb tag "!!timestamp" || String.eqb tag "!!merge" then Ok (VStr text)
      else Err EInvalidType
  end.
