(* Str.v — string helpers (strings.HasPrefix/HasSuffix/TrimPrefix/Split/ReplaceAll/Join),
   fmt "%v" rendering, base64, UTF-8 second-rune decoding. Executable definitions only. *)
From Coq Require Import String Ascii List ZArith NArith Bool DecimalString.
From Bkl Require Import Model.Value.
Import ListNotations.
Local Open Scope string_scope.
Local Open Scope list_scope.

Definition has_prefix (p s : string) : bool := String.prefix p s.

Fixpoint drop (n : nat) (s : string) : string :=
  match n with 0 => s | S n' => match s with EmptyString => EmptyString | String _ r => drop n' r end end.

Definition trim_prefix (p s : string) : string := if has_prefix p s then drop (String.length p) s else s.

Fixpoint rev_string_acc (s acc : string) : string :=
  match s with EmptyString => acc | String c r => rev_string_acc r (String c acc) end.
Definition rev_string (s : string) : string := rev_string_acc s EmptyString.

Definition has_suffix (x s : string) : bool := String.prefix (rev_string x) (rev_string s).
Definition trim_suffix (x s : string) : string :=
  if has_suffix x s then rev_string (drop (String.length x) (rev_string s)) else s.

(* strings.Split(s, sep) for a one-byte separator: always at least one part *)
Fixpoint split_on_aux (c : ascii) (s : string) (cur : string) : list string :=
  match s with
  | EmptyString => [rev_string cur]
  | String a r => if Ascii.eqb a c then rev_string cur :: split_on_aux c r EmptyString
                  else split_on_aux c r (String a cur)
  end.
Definition split_on (c : ascii) (s : string) : list string := split_on_aux c s EmptyString.

Definition join (sep : string) (l : list string) : string := String.concat sep l.

(* strings.ReplaceAll(s, "$$", "$"): left to right, non-overlapping *)
Fixpoint unescape (s : string) : string :=
  match s with
  | EmptyString => EmptyString
  | String a r =>
      match r with
      | String b r' =>
          if Ascii.eqb a "$"%char && Ascii.eqb b "$"%char then String "$"%char (unescape r') else String a (unescape r)
      | EmptyString => String a EmptyString
      end
  end.

(* doubling every dollar *)
Fixpoint escape (s : string) : string :=
  match s with
  | EmptyString => EmptyString
  | String a r => if Ascii.eqb a "$"%char then String a (String a (escape r)) else String a (escape r)
  end.

Definition Z_to_string (z : Z) : string := NilZero.string_of_int (Z.to_int z).

(* fmt.Sprintf("%v", v) *)
Fixpoint show (v : value) : string :=
  match v with
  | VNull => "<nil>"
  | VBool true => "true"
  | VBool false => "false"
  | VInt z => Z_to_string z
  | VFloat g => g
  | VStr s => s
  | VList l => "[" ++ join " " ((fix go (l : list value) := match l with [] => [] | x :: xs => show x :: go xs end) l) ++ "]"
  | VMap m => "map[" ++ join " " ((fix go (m : emap) := match m with [] => [] | (k, x) :: xs => (k ++ ":" ++ show x)%string :: go xs end) m) ++ "]"
  end%string.

(* ---- base64 (RFC 4648, standard alphabet, padded) ---- *)
Definition b64_alphabet : string := "ABCDEFGHIJKLMNOPQRSTUVWXYZabcdefghijklmnopqrstuvwxyz0123456789+/".
Definition b64_char (n : N) : ascii :=
  match String.get (N.to_nat n) b64_alphabet with Some c => c | None => "="%char end.

Fixpoint b64_encode (s : string) : string :=
  match s with
  | EmptyString => EmptyString
  | String a EmptyString =>
      let x := N_of_ascii a in
      String (b64_char (x / 4)) (String (b64_char ((x mod 4) * 16)) "==")
  | String a (String b EmptyString) =>
      let x := N_of_ascii a in let y := N_of_ascii b in
      String (b64_char (x / 4)) (String (b64_char ((x mod 4) * 16 + y / 16)) (String (b64_char ((y mod 16) * 4)) "="))
  | String a (String b (String c r)) =>
      let x := N_of_ascii a in let y := N_of_ascii b in let z := N_of_ascii c in
      String (b64_char (x / 4)) (String (b64_char ((x mod 4) * 16 + y / 16))
        (String (b64_char ((y mod 16) * 4 + z / 64)) (String (b64_char (z mod 64)) (b64_encode r))))
  end%N.

Fixpoint index_of (c : ascii) (s : string) (i : N) : option N :=
  match s with EmptyString => None | String a r => if Ascii.eqb a c then Some i else index_of c r (i + 1)%N end.
Definition b64_val (c : ascii) : option N := index_of c b64_alphabet 0%N.

Fixpoint b64_decode (s : string) : option string :=
  match s with
  | EmptyString => Some EmptyString
  | String a (String b (String c (String d r))) =>
      match b64_val a, b64_val b with
      | Some x, Some y =>
          let c1 := ascii_of_N (x * 4 + y / 16) in
          if Ascii.eqb c "="%char then
            (if Ascii.eqb d "="%char then match r with EmptyString => Some (String c1 EmptyString) | _ => None end else None)
          else match b64_val c with
               | Some z =>
                   let c2 := ascii_of_N ((y mod 16) * 16 + z / 4) in
                   if Ascii.eqb d "="%char then match r with EmptyString => Some (String c1 (String c2 EmptyString)) | _ => None end
                   else match b64_val d, b64_decode r with
                        | Some w, Some t => Some (String c1 (String c2 (String (ascii_of_N ((z mod 4) * 64 + w)) t)))
                        | _, _ => None
                        end
               | None => None
               end
      | _, _ => None
      end
  | _ => None
  end%N.

(* ---- second rune of a string that starts with '$' (utf8string.At(1)) ---- *)
Definition in_range (x lo hi : N) : bool := (N.leb lo x && N.leb x hi)%N.

(* decode one rune at the head of a byte list; None = utf8.RuneError *)
Definition decode_rune (l : list N) : option N :=
  match l with
  | [] => None
  | b0 :: r =>
      if N.ltb b0 128 then Some b0 else
      match r with
      | b1 :: r1 =>
          if in_range b0 194 223 then (if in_range b1 128 191 then Some ((b0 - 192) * 64 + (b1 - 128)) else None) else
          match r1 with
          | b2 :: r2 =>
              let lo1 := if N.eqb b0 224 then 160 else if N.eqb b0 240 then 144 else 128 in
              let hi1 := if N.eqb b0 237 then 159 else if N.eqb b0 244 then 143 else 191 in
              if in_range b0 224 239 then
                (if in_range b1 lo1 hi1 && in_range b2 128 191
                 then Some ((b0 - 224) * 4096 + (b1 - 128) * 64 + (b2 - 128)) else None)
              else
              match r2 with
              | b3 :: _ =>
                  if in_range b0 240 244 && in_range b1 lo1 hi1 && in_range b2 128 191 && in_range b3 128 191
                  then Some ((b0 - 240) * 262144 + (b1 - 128) * 4096 + (b2 - 128) * 64 + (b3 - 128)) else None
              | [] => None
              end
          | [] => None
          end
      | [] => None
      end
  end%N.

Fixpoint bytes_of (s : string) : list N :=
  match s with EmptyString => [] | String a r => N_of_ascii a :: bytes_of r end.
