(* C18 — with a root set nothing outside it is read. The os.Root contract is the parameter [inside]. *)
From Coq Require Import String Ascii List Bool.
From Bkl Require Import Model.Value Model.Root.
Import ListNotations.

(* a path that leaves the root is never read: the attempt fails, whatever is there *)
Theorem C18_escape_fails : forall inside c p, inside p = false -> root_read inside c p = Err EOther.
Proof. intros inside c p H. unfold root_read. now rewrite H. Qed.
Print Assumptions C18_escape_fails.

(* what is read does not depend on content or existence of anything outside the root *)
Theorem C18_content_indep : forall inside c1 c2 p,
  (forall q, inside q = true -> c1 q = c2 q) -> root_read inside c1 p = root_read inside c2 p.
Proof. intros inside c1 c2 p H. unfold root_read. destruct (inside p) eqn:E; [now rewrite (H p E)|reflexivity]. Qed.
Print Assumptions C18_content_indep.

(* loading a list of candidate parents: independent of everything outside the root *)
Theorem C18_candidates_indep : forall inside c1 c2 l,
  (forall q, inside q = true -> c1 q = c2 q) -> load_candidates inside c1 l = load_candidates inside c2 l.
Proof.
  intros inside c1 c2 l H. unfold load_candidates. induction l as [|x r IH]; [reflexivity|].
  cbn [map_res]. rewrite (C18_content_indep inside c1 c2 x H), IH. reflexivity.
Qed.
Print Assumptions C18_candidates_indep.

(* a probe (Glob, Stat, EvalSymlinks) that names a candidate outside the root can only lead to a failure *)
Theorem C18_outside_candidate_fails : forall inside c l p,
  In p l -> inside p = false -> exists e, load_candidates inside c l = Err e.
Proof.
  intros inside c l p Hin Hout. unfold load_candidates. induction l as [|x r IH]; [contradiction|].
  cbn [map_res]. destruct Hin as [->|Hin].
  - rewrite (C18_escape_fails inside c p Hout). eexists; reflexivity.
  - destruct (root_read inside c x); [|eexists; reflexivity]. cbn [bind].
    destruct (IH Hin) as [e He]. rewrite He. eexists; reflexivity.
Qed.
Print Assumptions C18_outside_candidate_fails.

(* ---- the concrete path-level model (Model/Root.v: cpath, tfs, walk, root_open), executed against bkl -r on every run ---- *)
From Bkl Require Import Proofs.RootProofs.
Local Open Scope string_scope.
Local Open Scope list_scope.

(* whatever opening a path through the root returns is the content of a file UNDER the root (component-wise), whatever
   the links along the way say *)
Theorem C18_reads_only_inside : forall fs root fuel p d, root_open fuel fs root p = Ok d ->
  exists q, is_prefix root q = true /\ tfs_lookup fs q = Some (TFile (Ok d)).
Proof. exact root_open_inside. Qed.
Print Assumptions C18_reads_only_inside.

(* a path that is not under the root is refused *)
Theorem C18_outside_refused : forall fs root fuel p, is_prefix root p = false -> root_open fuel fs root p = Err EOther.
Proof. exact root_open_outside. Qed.
Print Assumptions C18_outside_refused.

(* the result - success, failure and content - is independent of the content, kind and existence of everything that is
   not under the root *)
Theorem C18_outside_irrelevant : forall root fs1 fs2 fuel p,
  (forall q, is_prefix root q = true -> tfs_lookup fs1 q = tfs_lookup fs2 q) ->
  root_open fuel fs1 root p = root_open fuel fs2 root p.
Proof. exact root_open_indep. Qed.
Print Assumptions C18_outside_irrelevant.

(* nested SetRoot calls can only narrow: a call succeeds only for a path under the current root, so after any sequence
   of successful calls whatever is opened lies under the FIRST root as well *)
Theorem C18_nested_roots : forall fs first ps final fuel p d,
  set_roots first ps = Some final -> root_open fuel fs final p = Ok d ->
  exists q, is_prefix first q = true /\ tfs_lookup fs q = Some (TFile (Ok d)).
Proof. exact nested_roots_confine. Qed.
Print Assumptions C18_nested_roots.

(* "under" is component-wise: a sibling directory whose name extends the root's is outside; and a relative link from
   inside the root to it is an escape *)
Example C18_sibling_example :
  let fs := [(["x"], TDir); (["x"; "root"], TDir); (["x"; "root2"], TDir);
             (["x"; "root2"; "decoy.yaml"], TFile (Ok (VStr "S1")));
             (["x"; "root"; "a.yaml"], TLink false ["x"; "root2"; "decoy.yaml"]);
             (["x"; "root"; "b.yaml"], TFile (Ok (VStr "inside")));
             (["x"; "root"; "c.yaml"], TLink false ["x"; "root"; "b.yaml"])] in
  root_open 64 fs ["x"; "root"] ["x"; "root"; "a.yaml"] = Err EOther /\
  root_open 64 fs ["x"; "root"] ["x"; "root2"; "decoy.yaml"] = Err EOther /\
  root_open 64 fs ["x"; "root"] ["x"; "root"; "c.yaml"] = Ok (VStr "inside").
Proof. repeat split; reflexivity. Qed.
