(* C18 — with a root set nothing outside it is read. The os.Root contract is the parameter [inside]. *)
From Coq Require Import String Ascii List Bool.
From Bkl Require Import Model.Value Model.Root.
Import ListNotations.

(* a path that leaves the root is never read: the attempt fails, whatever is there *)
Theorem C18_escape_fails : forall inside c p, inside p = false -> root_read inside c p = Err EOther.
Proof. intros inside c p H. unfold root_read. now rewrite H. Qed.
Print Assumptions C18_escape_fails.

(* what is read does not depend on content or existence of anything outside the root *)
Theorem C18_content_indep : forall inside c1 c2 p,
  (forall q, inside q = true -> c1 q = c2 q) -> root_read inside c1 p = root_read inside c2 p.
Proof. intros inside c1 c2 p H. unfold root_read. destruct (inside p) eqn:E; [now rewrite (H p E)|reflexivity]. Qed.
Print Assumptions C18_content_indep.

(* loading a list of candidate parents: independent of everything outside the root *)
Theorem C18_candidates_indep : forall inside c1 c2 l,
  (forall q, inside q = true -> c1 q = c2 q) -> load_candidates inside c1 l = load_candidates inside c2 l.
Proof.
  intros inside c1 c2 l H. unfold load_candidates. induction l as [|x r IH]; [reflexivity|].
  cbn [map_res]. rewrite (C18_content_indep inside c1 c2 x H), IH. reflexivity.
Qed.
Print Assumptions C18_candidates_indep.

(* a probe (Glob, Stat, EvalSymlinks) that names a candidate outside the root can only lead to a failure *)
Theorem C18_outside_candidate_fails : forall inside c l p,
  In p l -> inside p = false -> exists e, load_candidates inside c l = Err e.
Proof.
  intros inside c l p Hin Hout. unfold load_candidates. induction l as [|x r IH]; [contradiction|].
  cbn [map_res]. destruct Hin as [->|Hin].
  - rewrite (C18_escape_fails inside c p Hout). eexists; reflexivity.
  - destruct (root_read inside c x); [|eexists; reflexivity]. cbn [bind].
    destruct (IH Hin) as [e He]. rewrite He. eexists; reflexivity.
Qed.
Print Assumptions C18_outside_candidate_fails.
