(* C19 — producing output is a pure observation of parser state. Proofs in Proofs/ParserProofs.v. *)
From Coq Require Import String Ascii List.
From Bkl Require Import Model.Value Model.Eval Model.Parser Proofs.ParserProofs.
Import ListNotations.

(* an output or Documents call leaves the parser state exactly as it was *)
Theorem C19_observer_pure : forall o st x, is_observer x = true -> fst (step o st x) = st.
Proof. exact observer_pure. Qed.
Print Assumptions C19_observer_pure.

(* calling it again returns the same answer, whatever observers ran in between *)
Theorem C19_repeatable : forall o st x y, is_observer x = true -> is_observer y = true ->
  snd (step o (fst (step o st x)) y) = snd (step o st y).
Proof. intros o st x y Hx Hy. rewrite (observer_pure o st x Hx). reflexivity. Qed.
Print Assumptions C19_repeatable.

(* for every history: merging further layers after output calls behaves exactly as if output had never been
   requested — same final state, same results of every non-observer call *)
Theorem C19_history : forall o ops st,
  fst (run o st ops) = fst (run o st (filter (fun x => negb (is_observer x)) ops)) /\
  filter is_merge_out (snd (run o st ops)) = filter is_merge_out (snd (run o st (filter (fun x => negb (is_observer x)) ops))).
Proof. intros o ops st. apply run_without_observers. Qed.
Print Assumptions C19_history.

(* the documents exposed are the merged, unevaluated trees: Documents() is a projection of the state *)
Theorem C19_documents : forall o st, failed st = false -> step o st ODocuments = (st, RDocs (documents st)).
Proof. intros o st H. unfold step. now rewrite H. Qed.
Print Assumptions C19_documents.
(* every observation anywhere in a history equals what a parser returns that was fed only the earlier non-observer
   calls: neither earlier output requests nor anything that happens later influences it *)
Theorem C19_observation_at : forall o a x b st, is_observer x = true ->
  nth_error (snd (run o st (a ++ x :: b))) (List.length a) =
  Some (snd (step o (fst (run o st (filter (fun x => negb (is_observer x)) a))) x)).
Proof. exact observation_at. Qed.
Print Assumptions C19_observation_at.
(* Output is a function of what Documents() shows: two parsers exposing the same documents print the same *)
Theorem C19_output_of_documents : forall o st st', failed st = false -> failed st' = false ->
  documents st = documents st' -> snd (step o st OOutput) = snd (step o st' OOutput).
Proof. intros o st st' F F' D. unfold step. rewrite F, F'. cbn [snd]. now rewrite D. Qed.
Print Assumptions C19_output_of_documents.
