(* C19 — producing output is a pure observation of parser state. *)
From Coq Require Import String Ascii List.
From Bkl Require Import Model.Value Model.Eval Model.Parser.
Import ListNotations.

Definition is_observer (x : op) : bool := match x with ODocuments | OOutput => true | _ => false end.

(* an output or Documents call leaves the parser state exactly as it was *)
Theorem C19_observer_pure : forall o st x, is_observer x = true -> fst (step o st x) = st.
Proof. intros o st x H. unfold step. destruct (failed st); [reflexivity|]. destruct x; try discriminate; reflexivity. Qed.
Print Assumptions C19_observer_pure.

(* calling it again returns the same answer, whatever observers ran in between *)
Theorem C19_repeatable : forall o st x y, is_observer x = true -> is_observer y = true ->
  snd (step o (fst (step o st x)) y) = snd (step o st y).
Proof. intros o st x y Hx Hy. rewrite (C19_observer_pure o st x Hx). reflexivity. Qed.
Print Assumptions C19_repeatable.
