(* C01 — layer merge follows the documented rules (merge.go, match.go, util.go).
   Statements only; proofs are in Proofs/MergeProofs.v. [merge' d s] is the merge of child s over
   parent d; [key_spec], [entry_rejected], [plain_entry], [strip_required] are defined there. *)
From Coq Require Import String Ascii List ZArith.
From Bkl Require Import Model.Value Model.Merge Proofs.MapsProofs Proofs.MergeProofs.
Import ListNotations.
Local Open Scope string_scope.
Local Open Scope list_scope.

(* a child scalar replaces the parent's scalar; the same scalar is a useless override *)
Theorem C01_scalar : forall d s, match d with VNull | VMap _ | VList _ => False | _ => True end ->
  merge' d s = if scalar_eqb s d then Err EUseless else Ok s.
Proof. intros d s H. destruct d; try contradiction; destruct s; reflexivity. Qed.
Print Assumptions C01_scalar.

(* a null child leaves a parent map or list unchanged; a null parent takes the child.
   (Over a parent scalar an explicit null child yields null: the code treats it as an override.) *)
Theorem C01_null : forall d, match d with VMap _ | VList _ | VNull => True | _ => False end ->
  merge' d VNull = Ok d /\ forall s, merge' VNull s = Ok s.
Proof. intros d H. split; [destruct d; try contradiction; reflexivity|intro s; destruct s; reflexivity]. Qed.
Print Assumptions C01_null.

(* maps merge recursively by key: key by key, the result is
     - the parent's value for keys the child does not mention,
     - absent for keys the child sets to $delete,
     - the child's value for new keys,
     - the recursive merge for keys present on both sides *)
Theorem C01_map_keywise : forall d s r, NoDup (keys s) -> has_map_bool s "$replace" true = false ->
  merge' (VMap d) (VMap s) = Ok (VMap r) -> forall k, lookup k r = key_spec d s k.
Proof. exact merge_map_keywise. Qed.
Print Assumptions C01_map_keywise.

(* $replace: true replaces the whole map by the child's (minus the marker) *)
Theorem C01_map_replace : forall d s, has_map_bool s "$replace" true = true ->
  merge' (VMap d) (VMap s) = Ok (VMap (remove "$replace" s)).
Proof. exact merge_map_replace. Qed.
Print Assumptions C01_map_replace.

(* a map child is rejected exactly when one of its entries is a $delete of an absent key or a
   rejected override of a present key *)
Theorem C01_map_reject_iff : forall d s, NoDup (keys s) -> has_map_bool s "$replace" true = false ->
  ((exists er, merge' (VMap d) (VMap s) = Err er) <-> exists kv, In kv s /\ entry_rejected d kv).
Proof. exact merge_map_reject_iff. Qed.
Print Assumptions C01_map_reject_iff.

(* lists concatenate parent-then-child (the parent's $required placeholders are dropped) *)
Theorem C01_list_concat : forall d s, no_list_replace s -> Forall plain_entry s ->
  merge' (VList d) (VList s) = Ok (VList (strip_required d ++ s)).
Proof. exact merge_list_concat. Qed.
Print Assumptions C01_list_concat.

Theorem C01_list_replace : forall d s, existsb (fun v => is_str v "$replace") s = true ->
  merge' (VList d) (VList s) = Ok (VList (filter (fun v => negb (is_str v "$replace")) s)).
Proof. exact merge_list_replace_string. Qed.
Print Assumptions C01_list_replace.

(* list $delete removes exactly the matching entries, and is rejected when it hits nothing *)
Theorem C01_list_delete : forall d pat,
  merge' (VList d) (VList [VMap [("$delete", pat)]]) =
    if existsb (fun v => vmatch v pat) (strip_required d)
    then Ok (VList (filter (fun v => negb (vmatch v pat)) (strip_required d))) else Err EUseless.
Proof. exact merge_list_delete_entry. Qed.
Print Assumptions C01_list_delete.

(* a list entry {$match: m, ...patch}: EVERY entry of the parent list that matches m, wherever it stands, is merged with
   the patch (read without its $match key); the other entries and the order are unchanged; when nothing matches the
   layer is rejected *)
Theorem C01_list_match : forall d vm m,
  has_map_bool vm "$replace" true = false -> lookup "$delete" vm = None -> lookup "$match" vm = Some m ->
  has_key "$value" (remove "$match" vm) = false ->
  merge' (VList d) (VList [VMap vm]) =
    do r <- map_res (fun e => if vmatch e m then merge e (VMap vm) true else Ok e) (strip_required d);
    if existsb (fun e => vmatch e m) (strip_required d) then Ok (VList r) else Err ENoMatch.
Proof. exact merge_list_match_entry. Qed.
Print Assumptions C01_list_match.

(* {$match: m, $value: x}: the matching entries are merged with x (a scalar x replaces them) *)
Theorem C01_list_match_value : forall d vm m,
  has_map_bool vm "$replace" true = false -> lookup "$delete" vm = None -> lookup "$match" vm = Some m ->
  has_key "$value" (remove "$match" vm) = true -> remove "$value" (remove "$match" vm) = [] ->
  merge' (VList d) (VList [VMap vm]) =
    do r <- map_res (fun e => if vmatch e m then value_patch e vm else Ok e) (strip_required d);
    if existsb (fun e => vmatch e m) (strip_required d) then Ok (VList r) else Err ENoMatch.
Proof. exact merge_list_match_value. Qed.
Print Assumptions C01_list_match_value.

(* a directive entry carrying extra keys is rejected *)
Theorem C01_extra_keys : forall d pat k x, String.eqb "$delete" k = false -> String.eqb "$replace" k = false ->
  merge' (VList d) (VList [VMap [("$delete", pat); (k, x)]]) = Err EExtraKeys.
Proof. exact merge_list_delete_extra. Qed.
Print Assumptions C01_extra_keys.

(* a scalar or list over a non-empty map, a scalar or map over a list: rejected *)
Theorem C01_type_clash_map : forall d s, d <> [] -> match s with VMap _ | VNull => False | _ => True end ->
  merge' (VMap d) s = Err EInvalidType.
Proof. exact merge_type_clash_map. Qed.
Print Assumptions C01_type_clash_map.

Theorem C01_type_clash_list : forall d s, match s with VList _ | VNull => False | _ => True end ->
  merge' (VList d) s = Err EInvalidType.
Proof. exact merge_type_clash_list. Qed.
Print Assumptions C01_type_clash_list.

(* over any number of layers: a key no layer mentions is preserved unchanged *)
Theorem C01_chain_frame : forall k layers, Forall (quiet_layer k) layers -> forall b r,
  fold_left (fun acc l => bind acc (fun a => merge' a l)) layers (Ok (VMap b)) = Ok r ->
  exists m, r = VMap m /\ lookup k m = lookup k b.
Proof. exact chain_frame. Qed.
Print Assumptions C01_chain_frame.

(* non-vacuity: the documentation's map example and a list $match example, computed *)
Example C01_doc_example :
  merge' (VMap [("a", VInt 1); ("b", VMap [("c", VInt 2)])]) (VMap [("b", VMap [("d", VInt 3)]); ("e", VInt 4)])
  = Ok (VMap [("a", VInt 1); ("b", VMap [("c", VInt 2); ("d", VInt 3)]); ("e", VInt 4)]).
Proof. reflexivity. Qed.
Example C01_match_example :
  merge' (VList [VMap [("id", VInt 1); ("v", VInt 1)]; VMap [("id", VInt 2)]])
         (VList [VMap [("$match", VMap [("id", VInt 1)]); ("v", VInt 5)]])
  = Ok (VList [VMap [("id", VInt 1); ("v", VInt 5)]; VMap [("id", VInt 2)]]).
Proof. reflexivity. Qed.
