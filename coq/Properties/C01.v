(* C01 — placeholder statements are replaced by the full set as the proofs land. *)
From Coq Require Import String List ZArith.
From Bkl Require Import Model.Value Model.Merge.
Import ListNotations.
Local Open Scope string_scope.
Local Open Scope list_scope.

(* a child scalar replaces a parent scalar, and the same scalar is rejected *)
Theorem C01_scalar : forall d s, match d with VNull | VMap _ | VList _ => False | _ => True end ->
  merge' d s = if scalar_eqb s d then Err EUseless else Ok s.
Proof. intros d s H. destruct d; try contradiction; destruct s; reflexivity. Qed.
Print Assumptions C01_scalar.
