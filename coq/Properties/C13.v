(* C13 — interpolation and $env substitute exactly the referenced values.
   Statements only; proofs in Proofs/InterpProofs.v.
   [tmpl segs last] = l1{r1}l2{r2}...last; [nobrace l]: l has no '{'; [noclose r]: r has no '}' and no newline. *)
From Coq Require Import String Ascii List ZArith.
From Bkl Require Import Model.Value Model.Str Model.Eval Proofs.InterpProofs.
Import ListNotations.
Local Open Scope string_scope.
Local Open Scope list_scope.

(* the scanner (interpRE = {.*?}) splits a template into exactly its literal segments and references,
   for any number of segments; all other text is left unchanged *)
Theorem C13_scan : forall segs last,
  Forall (fun lr => nobrace (fst lr) /\ noclose (snd lr)) segs -> nobrace last ->
  scan (tmpl segs last) EmptyString None = flat_map (fun lr => [Lit (fst lr); Ref (snd lr)]) segs ++ [Lit last].
Proof. exact scan_template. Qed.
Print Assumptions C13_scan.

(* the substitution itself: every {ref} is replaced by the (shown) value it resolves to - a document path first, else a
   variable - and every other piece of text is kept as it is, in order. [settled v]: a referenced string that is itself a
   template or variable string is evaluated further (one more level) - excluded here. The two premises about [s] say
   that it is  $"body"  with  body = l1{r1}l2{r2}...last . *)
Theorem C13_substitute : forall o S di f ec s segs last vals,
  is_interp s = true -> trim_suffix """" (trim_prefix "$""" s) = tmpl segs last ->
  Forall (fun lr => nobrace (fst lr) /\ noclose (snd lr)) segs -> nobrace last ->
  Forall2 (fun lr v => get_with_var o S di ec (snd lr) = Ok v /\ settled v) segs vals ->
  p2_string o S di (Datatypes.S f) ec s = Ok (VStr (String.concat "" (subst_parts segs vals ++ [last]))).
Proof. exact interp_substitute. Qed.
Print Assumptions C13_substitute.

(* its premises are met:  $"a{x}-{$env:V}!"  over the document {x: 7} with V=w *)
Example C13_substitute_example :
  let o := {| o_env := [("V", "w")]; o_yaml := fun s => Ok (VStr s); o_enc := fun _ _ => Err EOracle; o_dec := fun _ _ => Err EOracle;
              o_fmt := fun _ => false; o_sha := fun _ => Err EOracle; o_lower := fun _ => false |} in
  p2_string o [VMap [("x", VInt 7)]] 0 3 (env_ctx o) "$""a{x}-{$env:V}!""" = Ok (VStr "a7-w!")
  /\ trim_suffix """" (trim_prefix "$""" "$""a{x}-{$env:V}!""") = tmpl [("a", "x"); ("-", "$env:V")] "!".
Proof. split; vm_compute; reflexivity. Qed.

(* a missing reference or unset variable is an error, never an empty substitution *)
Theorem C13_missing : forall o S di f ec s r,
  is_interp s = true -> In (Ref r) (scan (trim_suffix """" (trim_prefix "$""" s)) EmptyString None) ->
  (exists e, get_with_var o S di ec r = Err e) ->
  exists e, p2_string o S di (Datatypes.S f) ec s = Err e.
Proof. exact interp_missing. Qed.
Print Assumptions C13_missing.

(* $env:NAME yields the variable's value, and fails when the variable is unset *)
Theorem C13_env_value : forall o S di fuel ec n,
  p2_string o S di fuel ec ("$env:" ++ n) = match lookup ("$env:" ++ n) ec with Some v => Ok v | None => Err EVarNotFound end.
Proof. exact env_value. Qed.
Print Assumptions C13_env_value.

(* ... always as a string: the environment context binds strings only *)
Theorem C13_env_strings : forall o k v, lookup k (env_ctx o) = Some v -> exists s, v = VStr s.
Proof. intros o k v H. unfold env_ctx in H. eapply env_ctx_strings; [|exact H]. intros k' v' L. discriminate L. Qed.
Print Assumptions C13_env_strings.

Example C13_scan_example : scan "a{x.y}-{$env:V}}z" EmptyString None = [Lit "a"; Ref "x.y"; Lit "-"; Ref "$env:V"; Lit "}z"].
Proof. reflexivity. Qed.
