(* C12 — $repeat expands to exactly n indexed copies (cartesian product for named counts).
   Statements only; proofs in Proofs/RepeatProofs.v.
   [range n] = 0..n-1; [lex counts] = all index combinations in lexicographic order of the (sorted) names;
   [bind_idx idx ec] binds $repeat:<name> for every (name, index) of idx. *)
From Coq Require Import String Ascii List ZArith.
From Bkl Require Import Model.Value Model.Merge Model.Eval Proofs.RepeatProofs.
Import ListNotations.
Local Open Scope string_scope.
Local Open Scope list_scope.

(* $repeat: n yields exactly n copies in index order with $repeat bound to 0..n-1 (none for n <= 0) *)
Theorem C12_doc_int : forall d ec n,
  repeat_gen d ec (VInt n) = Ok (map (fun i => (d, insert "$repeat" (VInt i) ec)) (range n)) /\
  range n = map Z.of_nat (seq 0 (Z.to_nat n)) /\ List.length (range n) = Z.to_nat n.
Proof. intros d ec n. split; [apply repeat_gen_int|]. split; [apply range_spec|apply range_length]. Qed.
Print Assumptions C12_doc_int.

(* a map of named counts yields the full cartesian product, each combination exactly once, in lexicographic order *)
Theorem C12_doc_named : forall d ec rs ics, int_counts rs = Some ics ->
  repeat_gen d ec (VMap rs) =
    Ok (map (fun idx => (d, bind_idx idx (fold_left (fun acc kv => insert ("$repeat." ++ fst kv)%string (snd kv) acc) rs ec))) (lex ics)).
Proof. exact repeat_gen_named. Qed.
Print Assumptions C12_doc_named.

Theorem C12_product_size : forall ics, List.length (lex ics) = fold_right (fun nc acc => Z.to_nat (snd nc) * acc) 1 ics.
Proof. exact lex_length. Qed.
Print Assumptions C12_product_size.

(* a count that is not an integer is an error *)
Theorem C12_not_int : forall d ec v, match v with VInt _ | VMap _ => False | _ => True end ->
  repeat_gen d ec v = Err EInvalidRepeat.
Proof. exact repeat_gen_not_int. Qed.
Print Assumptions C12_not_int.

Theorem C12_named_not_int : forall d ec rs, int_counts rs = None -> repeat_gen d ec (VMap rs) = Err EInvalidRepeat.
Proof. exact repeat_gen_named_not_int. Qed.
Print Assumptions C12_named_not_int.

Example C12_lex_example : lex [("x", 2%Z); ("y", 2%Z)] =
  [[("x", 0%Z); ("y", 0%Z)]; [("x", 0%Z); ("y", 1%Z)]; [("x", 1%Z); ("y", 0%Z)]; [("x", 1%Z); ("y", 1%Z)]].
Proof. reflexivity. Qed.
