(* C12 — $repeat expands to exactly n indexed copies (cartesian product for named counts).
   Statements only; proofs in Proofs/RepeatProofs.v.
   [range n] = 0..n-1; [lex counts] = all index combinations in lexicographic order of the (sorted) names;
   [bind_idx idx ec] binds $repeat:<name> for every (name, index) of idx. *)
From Coq Require Import String Ascii List ZArith.
From Bkl Require Import Model.Value Model.Merge Model.Eval Proofs.RepeatProofs Proofs.YamlProofs Proofs.NestedRepeatProofs.
Import ListNotations.
Local Open Scope string_scope.
Local Open Scope list_scope.

(* $repeat: n yields exactly n copies in index order with $repeat bound to 0..n-1 (none for n <= 0) *)
Theorem C12_doc_int : forall d ec n,
  repeat_gen d ec (VInt n) = Ok (map (fun i => (d, insert "$repeat" (VInt i) ec)) (range n)) /\
  range n = map Z.of_nat (seq 0 (Z.to_nat n)) /\ List.length (range n) = Z.to_nat n.
Proof. intros d ec n. split; [apply repeat_gen_int|]. split; [apply range_spec|apply range_length]. Qed.
Print Assumptions C12_doc_int.

(* a map of named counts yields the full cartesian product, each combination exactly once, in lexicographic order *)
Theorem C12_doc_named : forall d ec rs ics, int_counts rs = Some ics ->
  repeat_gen d ec (VMap rs) =
    Ok (map (fun idx => (d, bind_idx idx (fold_left (fun acc kv => insert ("$repeat." ++ fst kv)%string (snd kv) acc) rs ec))) (lex ics)).
Proof. exact repeat_gen_named. Qed.
Print Assumptions C12_doc_named.

Theorem C12_product_size : forall ics, List.length (lex ics) = fold_right (fun nc acc => Z.to_nat (snd nc) * acc) 1 ics.
Proof. exact lex_length. Qed.
Print Assumptions C12_product_size.

(* a count that is not an integer is an error *)
Theorem C12_not_int : forall d ec v, match v with VInt _ | VMap _ => False | _ => True end ->
  repeat_gen d ec v = Err EInvalidRepeat.
Proof. exact repeat_gen_not_int. Qed.
Print Assumptions C12_not_int.

Theorem C12_named_not_int : forall d ec rs, int_counts rs = None -> repeat_gen d ec (VMap rs) = Err EInvalidRepeat.
Proof. exact repeat_gen_named_not_int. Qed.
Print Assumptions C12_named_not_int.

(* ---- $repeat inside a list (process2.go): each entry stands for what it contributes, in place ---- *)
(* a list without $encode evaluates to the concatenation, in order, of its entries' contributions; errors included *)
Theorem C12_list_entries : forall o S di f ec l l1,
  pop_list_map_value l "$encode" = Ok (VNull, l1) ->
  p2 o S di (Datatypes.S f) ec (VList l) = do parts <- map_res (entry_parts o S di f ec) l1; Ok (VList (concat parts)).
Proof. exact p2_list_spec. Qed.
Print Assumptions C12_list_entries.

(* an entry {$repeat: n, ...body} contributes the n evaluations of body with $repeat = 0..n-1, in index order,
   null results dropped; none for n <= 0 *)
Theorem C12_list_entry_repeat : forall o S di f ec vm n,
  lookup "$repeat" vm = Some (VInt n) ->
  entry_parts o S di f ec (VMap vm) =
    do ys <- map_res (fun i => p2 o S di f (insert "$repeat" (VInt i) ec) (VMap (remove "$repeat" vm))) (map Z.of_nat (seq 0 (Z.to_nat n)));
    Ok (flat_map keep ys).
Proof. exact entry_repeat. Qed.
Print Assumptions C12_list_entry_repeat.

(* every other entry contributes its own evaluation *)
Theorem C12_list_entry_plain : forall o S di f ec v,
  (forall vm, v = VMap vm -> lookup "$repeat" vm = None) ->
  entry_parts o S di f ec v = do v2 <- p2 o S di f ec v; Ok (keep v2).
Proof. exact entry_plain. Qed.
Print Assumptions C12_list_entry_plain.

Theorem C12_list_entry_bad_count : forall o S di f ec vm r,
  lookup "$repeat" vm = Some r -> (forall n, r <> VInt n) -> entry_parts o S di f ec (VMap vm) = Err EInvalidType.
Proof. exact entry_bad_count. Qed.
Print Assumptions C12_list_entry_bad_count.

(* ---- $repeat in a map value: the first pass over a map's entries (repeat_pass = fold of repeat_step) ---- *)
(* the entry  k: {$repeat: n, ...body}  stands for the copies i = 0..n-1: (key evaluated with $repeat = i, body evaluated
   with $repeat = i), a null body contributing nothing; later copies override earlier ones under the same evaluated key,
   and all of them override what the map held under those keys *)
Theorem C12_map_entry_repeat : forall o S di f ec a k vm n,
  lookup "$repeat" vm = Some (VInt n) ->
  repeat_step o S di f ec (Ok a) (k, VMap vm) =
    do ps <- map_res (map_copy o S di f ec k (VMap (remove "$repeat" vm))) (range n);
    Ok (fold_left ins (fold_left ins (concat ps) []) a).
Proof. exact repeat_step_entry. Qed.
Print Assumptions C12_map_entry_repeat.

Theorem C12_map_entry_other : forall o S di f ec a k v,
  (forall vm, v = VMap vm -> lookup "$repeat" vm = None) -> repeat_step o S di f ec (Ok a) (k, v) = Ok (insert k v a).
Proof. exact repeat_step_other. Qed.
Print Assumptions C12_map_entry_other.

(* the statements are about something: [1, {$repeat: 3, v: $repeat}, 2] with no oracle used *)
Example C12_list_example :
  let o := {| o_env := []; o_yaml := fun _ => Err EOracle; o_enc := fun _ _ => Err EOracle; o_dec := fun _ _ => Err EOracle;
              o_fmt := fun _ => false; o_sha := fun _ => Err EOracle; o_lower := fun _ => false |} in
  p2 o [] 0 10 [] (VList [VInt 1; VMap [("$repeat", VInt 3); ("v", VStr "$repeat")]; VInt 2])
  = Ok (VList [VInt 1; VMap [("v", VInt 0)]; VMap [("v", VInt 1)]; VMap [("v", VInt 2)]; VInt 2]).
Proof. vm_compute. reflexivity. Qed.

Example C12_map_example :
  let o := {| o_env := []; o_yaml := fun _ => Err EOracle; o_enc := fun _ _ => Err EOracle; o_dec := fun _ _ => Err EOracle;
              o_fmt := fun _ => false; o_sha := fun _ => Err EOracle; o_lower := fun _ => false |} in
  p2 o [] 0 10 [] (VMap [("$""p{$repeat}""", VMap [("$repeat", VInt 2); ("v", VStr "$repeat")]); ("z", VInt 9)])
  = Ok (VMap [("p0", VMap [("v", VInt 0)]); ("p1", VMap [("v", VInt 1)]); ("z", VInt 9)]).
Proof. vm_compute. reflexivity. Qed.

Example C12_lex_example : lex [("x", 2%Z); ("y", 2%Z)] =
  [[("x", 0%Z); ("y", 0%Z)]; [("x", 0%Z); ("y", 1%Z)]; [("x", 1%Z); ("y", 0%Z)]; [("x", 1%Z); ("y", 1%Z)]].
Proof. reflexivity. Qed.
