(* C10 — statements are added as the proofs land (see DESIGN.md section 6). *)
From Coq Require Import String Ascii List.
From Bkl Require Import Model.Value Model.Str Model.Eval.
Import ListNotations.
Local Open Scope string_scope.
Local Open Scope list_scope.

(* a reference that resolves to nothing is an error: a missing key on the path *)
Theorem C10_dangling_path : forall m k r, lookup k m = None -> get_path (VMap m) (k :: r) = Err ERefNotFound.
Proof. intros m k r H. cbn [get_path]. rewrite H. reflexivity. Qed.
Print Assumptions C10_dangling_path.
