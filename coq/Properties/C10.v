(* C10 — $merge and $replace behave as if the referenced subtree were written inline.
   Statements only; proofs in Proofs/RefProofs.v. The model is the live-document semantics of DESIGN.md 4.5:
   [p1 o cur fuel S loc obj] evaluates obj, [S] are all documents, [loc] is where obj sits in document [cur]
   ([None] = detached: a copy of a referenced subtree). The full "as if inline" statement for hosts that overlap
   their targets is not claimed (partial; see DESIGN.md). *)
From Coq Require Import String Ascii List ZArith Bool.
From Bkl Require Import Model.Value Model.Merge Model.Str Model.Eval Proofs.PlainProofs Proofs.RefProofs.
Import ListNotations.
Local Open Scope string_scope.
Local Open Scope list_scope.

(* $replace yields the referenced value; the host's local content is ignored *)
Theorem C10_replace_step : forall o cur f S loc m r, lookup "$merge" m = None -> lookup "$replace" m = Some r ->
  p1 o cur (Datatypes.S f) S loc (VMap m) = bind (get o S cur r) (fun x => p1 o cur f S None (fst x)).
Proof. exact p1_replace_map. Qed.
Print Assumptions C10_replace_step.

(* the $merge: / $replace: string forms evaluate the referenced value in place of the string *)
Theorem C10_string_forms : forall o cur f S loc p,
  p1 o cur (Datatypes.S f) S loc (VStr ("$merge:" ++ p)) = bind (get o S cur (VStr p)) (fun x => p1 o cur f S None (fst x)) /\
  (has_prefix "$merge:" ("$replace:" ++ p) = false ->
   p1 o cur (Datatypes.S f) S loc (VStr ("$replace:" ++ p)) = bind (get o S cur (VStr p)) (fun x => p1 o cur f S None (fst x))).
Proof. intros. split; [apply p1_merge_str|apply p1_replace_str]. Qed.
Print Assumptions C10_string_forms.

(* with a directive-free target, a $replace host evaluates exactly as the target written in its place would *)
Theorem C10_replace_inline : forall o cur f S loc loc' m r t org, lookup "$merge" m = None -> lookup "$replace" m = Some r ->
  get o S cur r = Ok (t, org) -> plain t -> height t <= f ->
  p1 o cur (Datatypes.S f) S loc (VMap m) = p1 o cur f S loc' t /\ p1 o cur f S loc' t = Ok (dn t, S).
Proof. exact p1_replace_inline. Qed.
Print Assumptions C10_replace_inline.

(* $merge in a map: when the referenced subtree merged with the host's own content is directive-free, the host
   evaluates to exactly that merge - what writing the subtree inline under the host's content gives. The reference is
   resolved in the document with the $merge key taken out of the host; a target that contains the host is excluded
   here (it is the cycle of C08_self_containing). *)
Theorem C10_merge_inline : forall o cur f S loc m r inn di kp next,
  lookup "$merge" m = Some r ->
  get o (write_doc S cur loc (VMap (remove "$merge" m))) cur r = Ok (inn, (di, kp)) ->
  (match loc with Some p => Nat.eqb di cur && keys_prefix kp p | None => false end) = false ->
  merge_map (remove "$merge" m) inn = Ok next -> plain next -> height next <= f ->
  exists S', p1 o cur (Datatypes.S f) S loc (VMap m) = Ok (dn next, S').
Proof. exact p1_merge_inline. Qed.
Print Assumptions C10_merge_inline.

Theorem C10_merge_inline_detached : forall o cur f S m r inn org next,
  lookup "$merge" m = Some r -> get o S cur r = Ok (inn, org) ->
  merge_map (remove "$merge" m) inn = Ok next -> plain next -> height next <= f ->
  p1 o cur (Datatypes.S f) S None (VMap m) = Ok (dn next, S).
Proof. exact p1_merge_inline_detached. Qed.
Print Assumptions C10_merge_inline_detached.

(* the statements are about something: {a: {x: 1}, b: {$merge: a, y: 2}} *)
Example C10_merge_example :
  let o := {| o_env := []; o_yaml := fun s => Ok (VStr s); o_enc := fun _ _ => Err EOracle; o_dec := fun _ _ => Err EOracle;
              o_fmt := fun _ => false; o_sha := fun _ => Err EOracle; o_lower := fun _ => false |} in
  eval_docs o [VMap [("a", VMap [("x", VInt 1)]); ("b", VMap [("$merge", VStr "a"); ("y", VInt 2)])]]
  = Ok [VMap [("a", VMap [("x", VInt 1)]); ("b", VMap [("x", VInt 1); ("y", VInt 2)])]].
Proof. vm_compute. reflexivity. Qed.

(* the referenced subtree itself is left unchanged: evaluating a (copy of a) referenced subtree never writes to any document *)
Theorem C10_target_intact : forall o cur fuel S obj r S', p1 o cur fuel S None obj = Ok (r, S') -> S' = S.
Proof. exact p1_detached. Qed.
Print Assumptions C10_target_intact.

(* the dotted-string form and the list-path form denote the same subtree *)
Theorem C10_forms_agree : forall o S di s, o_yaml o s = Ok (VStr s) ->
  get o S di (VStr s) = get o S di (VList (map VStr (split_on "."%char s))).
Proof. exact get_forms_agree. Qed.
Print Assumptions C10_forms_agree.

(* a reference that resolves to nothing is an error *)
Theorem C10_dangling : forall m k r v, (lookup k m = None -> get_path (VMap m) (k :: r) = Err ERefNotFound) /\
  (match v with VMap _ => False | _ => True end -> get_path v (k :: r) = Err ERefNotFound).
Proof. intros. split; [apply get_path_missing|apply get_path_through_scalar]. Qed.
Print Assumptions C10_dangling.

(* a cross-document pattern that matches no document, or more than one, is an error *)
Theorem C10_cross_unique : forall S pat,
  (filter (fun d => vmatch d pat) S = [] -> cross_doc S pat = Err ENoMatch) /\
  (forall x y t, filter (fun d => vmatch d pat) S = x :: y :: t -> cross_doc S pat = Err EMultiMatch).
Proof. intros. split; [apply cross_doc_none|intros x y t; apply cross_doc_multi]. Qed.
Print Assumptions C10_cross_unique.
