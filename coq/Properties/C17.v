(* C17 — bklr keeps exactly the $required skeleton (cmd/bklr/required.go).
   Only statements here; proofs are in Proofs/RequiredProofs.v. *)
From Coq Require Import String List ZArith.
From Bkl Require Import Model.Value Model.Eval Model.Tools Proofs.RequiredProofs Proofs.PlainProofs Proofs.ValidProofs.
Import ListNotations.
Local Open Scope string_scope.
Local Open Scope list_scope.

(* the output contains nothing but markers and the (non-empty) containers leading to them *)
Theorem C17_leaves : forall v r, required v = Some r -> skeleton r.
Proof. exact required_skeleton. Qed.
Print Assumptions C17_leaves.

(* a marker at exactly the positions where the input has one: same map-key paths, same order;
   list indices are those among the entries that are kept *)
Theorem C17_positions : forall v r, required v = Some r -> mpaths r = cpaths v.
Proof. exact required_positions. Qed.
Print Assumptions C17_positions.

Theorem C17_count : forall v, count_req v = match required v with Some r => count_req r | None => 0 end.
Proof. exact required_count. Qed.
Print Assumptions C17_count.

(* empty exactly when the input has no marker *)
Theorem C17_empty_iff : forall v, required v = None <-> count_req v = 0.
Proof. exact required_none_iff. Qed.
Print Assumptions C17_empty_iff.

(* running it on its own output changes nothing *)
Theorem C17_idempotent : forall v r, required v = Some r -> required r = Some r.
Proof. exact required_idempotent. Qed.
Print Assumptions C17_idempotent.

(* for an input with no other directives, bkl refuses to evaluate it with the required-field error exactly
   when bklr's output is non-empty; otherwise it evaluates *)
Theorem C17_agrees_bkl : forall o v, plain v -> req_only o v -> height v <= depth_limit -> v <> VNull ->
  (eval_docs o [v] = Err ERequired <-> required v <> None) /\
  (required v = None -> eval_docs o [v] = Ok [finalize (dn v)]).
Proof. exact bklr_agrees_bkl. Qed.
Print Assumptions C17_agrees_bkl.

(* non-vacuity: a concrete input with a satisfied and an unsatisfied marker *)
Example C17_example :
  required (VMap [("a", VStr "$required"); ("b", VList [VInt 1%Z; VMap [("c", VStr "$required")]]); ("d", VInt 3%Z)])
  = Some (VMap [("a", VStr "$required"); ("b", VList [VMap [("c", VStr "$required")]])]).
Proof. reflexivity. Qed.
