(* C20 — the wrapper rewrites only file arguments (wrapper/wrapper.go). *)
From Coq Require Import String Ascii List.
From Bkl Require Import Model.Value Model.Wrapper Proofs.WrapperProofs.
Import ListNotations.

(* same number of arguments, in the same order *)
Theorem C20_length : forall resolve cmd args cmd' args',
  wrap resolve cmd args = Exec cmd' args' -> cmd' = cmd /\ List.length args' = List.length args.
Proof. exact wrap_length. Qed.
Print Assumptions C20_length.

(* an argument FileMatch does not resolve is passed byte for byte, at the same position *)
Theorem C20_passthrough : forall resolve cmd args cmd' args' i a,
  wrap resolve cmd args = Exec cmd' args' -> nth_error args i = Some a -> resolve a = None -> nth_error args' i = Some a.
Proof. exact wrap_passthrough. Qed.
Print Assumptions C20_passthrough.

(* a resolvable file argument is replaced by the file holding its evaluation, at the same position *)
Theorem C20_rewritten : forall resolve cmd args cmd' args' i a t,
  wrap resolve cmd args = Exec cmd' args' -> nth_error args i = Some a -> resolve a = Some (Ok t) -> nth_error args' i = Some t.
Proof. exact wrap_rewritten. Qed.
Print Assumptions C20_rewritten.

(* if evaluation of any file argument fails the wrapped program is not run, and only then *)
Theorem C20_abort_iff : forall resolve cmd args,
  wrap resolve cmd args = Fail <-> exists a e, In a args /\ resolve a = Some (Err e).
Proof. exact wrap_abort_iff. Qed.
Print Assumptions C20_abort_iff.

Theorem C20_name : forall n, wrapped_name (n ++ "b") = Some n.
Proof. exact wrapped_name_b. Qed.
Print Assumptions C20_name.
