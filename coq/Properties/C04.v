(* C04 — results do not depend on the format a layer is written in: bkl's own normalisation. *)
From Coq Require Import String Ascii List ZArith.
From Bkl Require Import Model.Value Model.Normalize Proofs.CodecProofs.
Import ListNotations.

(* whatever format a logical value arrives from, normalize yields the same canonical value:
   integers stay integers of the same value, floats keep their exact double *)
Theorem C04_format_independent : forall f1 f2 v, normalize (arrives f1 v) = normalize (arrives f2 v).
Proof. intros. now rewrite !normalize_arrives. Qed.
Print Assumptions C04_format_independent.

Theorem C04_numbers_exact : forall f v, normalize (arrives f v) = Ok v.
Proof. exact normalize_arrives. Qed.
Print Assumptions C04_numbers_exact.
