(* C04 — results do not depend on the format a layer is written in: bkl's own normalisation. *)
From Coq Require Import String Ascii List ZArith.
From Bkl Require Import Model.Value Model.Normalize Proofs.CodecProofs.
Import ListNotations.

(* whatever format a logical value arrives from, normalize yields the same canonical value:
   integers stay integers of the same value, floats keep their exact double *)
Theorem C04_format_independent : forall f1 f2 v, normalize (arrives f1 v) = normalize (arrives f2 v).
Proof. intros. now rewrite !normalize_arrives. Qed.
Print Assumptions C04_format_independent.

Theorem C04_numbers_exact : forall f v, normalize (arrives f v) = Ok v.
Proof. exact normalize_arrives. Qed.
Print Assumptions C04_numbers_exact.

(* ---- the YAML arrival path: yaml.go's translation of yaml.v3 node trees (Model/Yaml.v) ---- *)
From Bkl Require Import Model.Yaml Proofs.MapsProofs Proofs.EscapeProofs Proofs.YamlProofs.
Local Open Scope string_scope.

(* a value written as plain YAML nodes (no merge keys) arrives as exactly that value *)
Theorem C04_yaml_plain_nodes : forall v, swf v -> nomerge v -> ytranslate (ynode_of v) = Ok v.
Proof. exact ytranslate_ynode_of. Qed.
Print Assumptions C04_yaml_plain_nodes.

(* an alias denotes what its anchor denotes *)
Theorem C04_yaml_alias : forall t, ytranslate (YAlias t) = ytranslate t.
Proof. exact ytranslate_YAlias. Qed.
Print Assumptions C04_yaml_alias.

(* a mapping with a merge key over a list of mappings is its expanded form: local keys win, then the
   sources in the order written (the earlier one wins), wherever the merge key stands among the entries *)
Theorem C04_yaml_merge_list : forall kvs lvals ms,
  locals_of ytranslate kvs lvals -> merges_of ytranslate kvs [VList (map VMap ms)] ->
  NoDup (keys lvals) -> Forall (fun m => NoDup (keys m)) ms ->
  exists r, ytranslate (YMap kvs) = Ok (VMap r) /\
            forall k, lookup k r = match lookup k lvals with Some v => Some v | None => first_lookup k ms end.
Proof. exact ymap_merge_spec. Qed.
Print Assumptions C04_yaml_merge_list.

Theorem C04_yaml_merge_single : forall kvs lvals m,
  locals_of ytranslate kvs lvals -> merges_of ytranslate kvs [VMap m] ->
  NoDup (keys lvals) -> NoDup (keys m) ->
  exists r, ytranslate (YMap kvs) = Ok (VMap r) /\
            forall k, lookup k r = match lookup k lvals with Some v => Some v | None => lookup k m end.
Proof. exact ymap_merge_single_spec. Qed.
Print Assumptions C04_yaml_merge_single.

(* the hypotheses are met:  {q: 9, <<: [*a, *b], z: "loc"}  with a = {p: 1, q: 2}, b = {p: 5, r: 6} *)
Example C04_yaml_merge_example :
  let a := YMap [(YScalar "!!str" "p", YScalar "!!int" "1"); (YScalar "!!str" "q", YScalar "!!int" "2")] in
  let b := YMap [(YScalar "!!str" "p", YScalar "!!int" "5"); (YScalar "!!str" "r", YScalar "!!int" "6")] in
  ytranslate (YMap [(YScalar "!!str" "q", YScalar "!!int" "9"); (YScalar "!!merge" "<<", YSeq [YAlias a; YAlias b]);
                    (YScalar "!!str" "z", YScalar "!!str" "loc")])
  = Ok (VMap [("p", VInt 1); ("q", VInt 9); ("r", VInt 6); ("z", VStr "loc")]).
Proof. vm_compute. reflexivity. Qed.
