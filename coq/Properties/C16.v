(* C16 — bkli. Statements are extended as the proofs land (DESIGN.md section 6). *)
From Coq Require Import String Ascii List ZArith.
From Bkl Require Import Model.Value Model.Tools.
Import ListNotations.
Local Open Scope string_scope.
Local Open Scope list_scope.

(* two different scalars present on both sides are marked $required; equal ones are kept *)
Theorem C16_scalar : forall a b, match a with VMap _ | VList _ | VNull => False | _ => True end -> b <> VNull ->
  intersect a b = if scalar_eqb a b then a else VStr "$required".
Proof. intros a b H Hb. destruct a; try contradiction; destruct b; try congruence; reflexivity. Qed.
Print Assumptions C16_scalar.
