(* C16 — bkli yields the maximal common base. Statements only; proofs in Proofs/ToolsProofs.v. *)
From Coq Require Import String Ascii List ZArith Bool.
From Bkl Require Import Model.Value Model.Merge Model.Tools Proofs.MapsProofs Proofs.ToolsProofs.
Import ListNotations.
Local Open Scope string_scope.
Local Open Scope list_scope.

(* intersecting a document with itself returns that document *)
Theorem C16_idempotent : forall a, dfree a -> intersect a a = a.
Proof. exact intersect_idempotent. Qed.
Print Assumptions C16_idempotent.

(* a field present in both inputs with differing scalar values is marked $required; equal values are kept *)
Theorem C16_scalar : forall a b, match a with VMap _ | VList _ | VNull => False | _ => True end -> b <> VNull ->
  intersect a b = if scalar_eqb a b then a else VStr "$required".
Proof. intros a b H Hb. destruct a; try contradiction; destruct b; try congruence; reflexivity. Qed.
Print Assumptions C16_scalar.

(* every list entry bkli keeps occurs in both inputs *)
Theorem C16_list_common : forall a b x, In x (list_inter a b) -> In x a /\ In x b.
Proof. exact list_inter_common. Qed.
Print Assumptions C16_list_common.

(* maximal: nothing shared is dropped — every value occurs in the result as often as in the input that has fewer of it *)
Theorem C16_list_maximal : forall x a b, cnt x (list_inter a b) = Nat.min (cnt x a) (cnt x b).
Proof. exact list_inter_count. Qed.
Print Assumptions C16_list_maximal.

(* every key bkli keeps is present in both inputs and carries the intersection of the two values *)
Theorem C16_map_common : forall am bm k x, In (k, x) (map_of_value (intersect (VMap am) (VMap bm))) ->
  exists va vb, In (k, va) am /\ lookup k bm = Some vb /\ (x = intersect va vb \/ (x = VNull /\ va = VNull /\ vb = VNull)).
Proof. exact intersect_map_keys. Qed.
Print Assumptions C16_map_common.

(* maximal on maps: a key present in both inputs is kept with the intersection of its two values; it is dropped only
   when that intersection is empty (null). Together with C16_map_common: the result's keys are exactly those. *)
Theorem C16_map_maximal : forall am bm k va vb, In (k, va) am -> lookup k bm = Some vb ->
  (is_null va && is_null vb = true -> In (k, VNull) (map_of_value (intersect (VMap am) (VMap bm)))) /\
  (is_null va && is_null vb = false -> intersect va vb <> VNull ->
     In (k, intersect va vb) (map_of_value (intersect (VMap am) (VMap bm)))).
Proof. exact intersect_map_complete. Qed.
Print Assumptions C16_map_maximal.
Example C16_map_example :
  intersect (VMap [("a", VInt 1); ("b", VInt 2); ("c", VNull); ("d", VInt 4)]) (VMap [("a", VInt 1); ("b", VInt 3); ("c", VNull)])
  = VMap [("a", VInt 1); ("b", VStr "$required"); ("c", VNull)].
Proof. reflexivity. Qed.
(* the migrate workflow is lossless: from any base (in particular bkli's), bkld's layer reproduces the input *)
Theorem C16_migrate : forall input base, dfree (VMap input) -> dfree (VMap base) ->
  (diff (VMap input) (VMap base) = VNull -> VMap input = VMap base) /\
  (diff (VMap input) (VMap base) <> VNull -> merge' (VMap base) (diff (VMap input) (VMap base)) = Ok (VMap input)).
Proof. intros i b Hi Hb. exact (diff_roundtrip (VMap i) (VMap b) Hi Hb eq_refl). Qed.
Print Assumptions C16_migrate.

Example C16_lists : intersect (VList [VInt 1; VInt 1]) (VList [VInt 1; VInt 1]) = VList [VInt 1; VInt 1]
                    /\ intersect (VList []) (VList []) = VList [].
Proof. split; reflexivity. Qed.
