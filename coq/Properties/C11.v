(* C11 — statements are added as the proofs land (see DESIGN.md section 6). *)
From Coq Require Import String Ascii List.
From Bkl Require Import Model.Value Model.Str Proofs.StrProofs.
Import ListNotations.

Theorem C11_placeholder_unescape : forall s, unescape (escape s) = s.
Proof. exact unescape_escape. Qed.
Print Assumptions C11_placeholder_unescape.
