(* C11 — $output selects exactly the marked subtrees and hides exactly the excluded ones.
   Statements only; proofs in Proofs/OutputProofs.v.
   [strip v]  : v with every "$output: true" marker removed (map key, or list marker entry);
   [marks v]  : the stripped marked subtrees in output order (a marked map before what is selected inside it, in sorted
                key order; a marked list after its entries);
   [hide v]   : v with every subtree under "$output: false" removed, None when v itself is hidden;
   [ok_true], [ok_false] : no list marker entry carries other keys (the code rejects those: C11_extra_keys). *)
From Coq Require Import String Ascii List ZArith.
From Bkl Require Import Model.Value Model.Merge Model.Eval Proofs.OutputProofs Proofs.ValidProofs.
Import ListNotations.
Local Open Scope string_scope.
Local Open Scope list_scope.

Theorem C11_selection : forall v, ok_true v -> find_outputs v = Ok (strip v, marks v).
Proof. exact find_outputs_spec. Qed.
Print Assumptions C11_selection.

Theorem C11_hiding : forall v, ok_false v -> filter_output v = Ok (hide v).
Proof. exact filter_output_spec. Qed.
Print Assumptions C11_hiding.

(* the subtrees marked $output: true — and only those, or the root when there are none — become the output documents,
   in a fixed order, each without its hidden parts *)
Theorem C11_select : forall o d, ok_true d -> Forall ok_false (selected d) ->
  outputs_of o d =
    bind (map_res (fun v => match hide v with
                            | None => Ok []
                            | Some y => bind (validate o y) (fun _ => Ok [finalize y])
                            end) (selected d)) (fun rs => Ok (concat rs)).
Proof. exact outputs_of_spec. Qed.
Print Assumptions C11_select.

(* anything under $output: false is dropped as a whole *)
Theorem C11_hidden : forall m l, (has_map_bool m "$output" false = true -> hide (VMap m) = None) /\
                                 (has_list_map_bool l "$output" false = true -> hide (VList l) = None).
Proof. intros m l. split; [apply hide_false_map|apply hide_false_list]. Qed.
Print Assumptions C11_hidden.

(* a list entry carrying $output: true next to other keys is an error, never a silent selection *)
Theorem C11_extra_keys : forall l x, In x l -> marker_kind true x = Some false -> (forall y, In y l -> ok_true y) ->
  exists e, find_outputs (VList l) = Err e.
Proof. exact find_outputs_extra_keys. Qed.
Print Assumptions C11_extra_keys.

(* non-vacuity: nested selection with a hidden list inside *)
Example C11_example :
  let inner := VMap [("$output", VBool true); ("name", VStr "inner"); ("secret", VList [VMap [("$output", VBool false)]; VStr "h"])] in
  let d := VMap [("$output", VBool true); ("svc", inner)] in
  ok_true d /\ map hide (selected d) =
    [Some (VMap [("svc", VMap [("name", VStr "inner")])]); Some (VMap [("name", VStr "inner")])].
Proof. cbn. repeat split; congruence. Qed.

(* no $output marker survives into the output: every output document is the $$-unescaping of a tree validation accepted
   (C07_outputs_valid), and an accepted tree has no key "$output" anywhere - so an "$output" key in an output can only be
   the unescaping of a literal "$$output" the user wrote *)
Theorem C11_no_marker_survives : forall o docs outs, eval_docs o docs = Ok outs ->
  Forall (fun out => exists y, out = finalize y /\ ~ has_key_anywhere "$output" y) outs.
Proof.
  intros o docs outs H. pose proof (eval_docs_valid o docs outs H) as Hv.
  eapply Forall_impl; [|exact Hv]. intros out (y & E & V). exists y. split; [exact E|].
  apply (validated_no_key o "$output" y (validate_string_output o) V).
Qed.
Print Assumptions C11_no_marker_survives.
