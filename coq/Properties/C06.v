(* C06 — plain data passes through unchanged; $$ escapes any literal dollar.
   Statements only; proofs in Proofs/PlainProofs.v, Proofs/EscapeProofs.v, Proofs/StrProofs.v.
   [plain v]      : no key or string of v is recognised by an evaluation phase ($merge:, $replace:, $"...",
                    $env:, $repeat, the directive keys), maps strictly sorted;
   [noesc v]      : no doubled dollar; [dn v]: v with null map values / list entries dropped;
   [esc v]        : v with every $ doubled in every key and string; [swf v]: every map strictly sorted by key
                    (the representation invariant of Go maps in the model; escaping is monotone, so it is kept);
   [height v]     : nesting depth; the evaluator's depth guard refuses documents deeper than [depth_limit]. *)
From Coq Require Import String Ascii List ZArith.
From Bkl Require Import Model.Value Model.Str Model.Eval Proofs.StrProofs Proofs.PlainProofs Proofs.EscapeProofs.
Import ListNotations.
Local Open Scope string_scope.
Local Open Scope list_scope.

(* strings.ReplaceAll(s, "$$", "$") undoes the doubling of every dollar, for every string *)
Theorem C06_unescape_escape : forall s, unescape (escape s) = s.
Proof. exact unescape_escape. Qed.
Print Assumptions C06_unescape_escape.

(* bkl is the identity on plain configuration: the document evaluates to itself, only nulls are dropped *)
Theorem C06_identity : forall o v, plain v -> validate_go o (dn v) = None -> noesc v -> height v <= depth_limit ->
  eval_docs o [v] = Ok (match v with VNull => [] | _ => [dn v] end).
Proof. exact eval_plain. Qed.
Print Assumptions C06_identity.

(* an escaped string is never taken for a directive, by any phase, in key or value position *)
Theorem C06_escaped_inert : forall o s,
  plain_str (escape s) /\ plain_key (escape s) /\ validate_string o (escape s) = None.
Proof. intros o s. split; [apply escape_plain_str|]. split; [apply escape_plain_key|apply escape_valid]. Qed.
Print Assumptions C06_escaped_inert.

(* doubling every $ in arbitrary data (any strings, keys and values, any depth) yields a document that
   evaluates to exactly the original data *)
Theorem C06_escape : forall o v, swf v -> height v <= depth_limit ->
  eval_docs o [esc v] = Ok (match v with VNull => [] | _ => [dn v] end).
Proof. exact eval_escaped_swf. Qed.
Print Assumptions C06_escape.

(* non-vacuity: $FOO, ${X}, $(cmd) are plain; a tree over directive names is sorted both ways *)
Example C06_plain_examples : plain_str "$FOO" /\ plain_str "${X}" /\ plain_str "$(cmd)" /\ plain_key "a.b".
Proof. repeat split; try reflexivity; cbn; intuition discriminate. Qed.
Example C06_escape_example : forall o,
  eval_docs o [esc (VMap [("$merge", VStr "$required"); ("a", VList [VStr "$env:HOME"; VNull])])]
  = Ok [VMap [("$merge", VStr "$required"); ("a", VList [VStr "$env:HOME"])]].
Proof. intro o. apply (eval_escaped_swf o). - cbn. repeat split; repeat constructor. - cbn. unfold depth_limit. repeat constructor. Qed.
