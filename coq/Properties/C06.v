(* C06 — $$ escapes any literal dollar. Statements only. *)
From Coq Require Import String Ascii List.
From Bkl Require Import Model.Value Model.Str Proofs.StrProofs.
Import ListNotations.

(* strings.ReplaceAll(s, "$$", "$") undoes the doubling of every dollar, for every string *)
Theorem C06_unescape_escape : forall s, unescape (escape s) = s.
Proof. exact unescape_escape. Qed.
Print Assumptions C06_unescape_escape.
