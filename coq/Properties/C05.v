(* C05 — stream framing round-trips; format selection. Codecs are oracles (DESIGN.md). *)
From Coq Require Import String Ascii List ZArith.
From Bkl Require Import Model.Value Model.Stream Model.Files Proofs.CodecProofs.
Import ListNotations.
Local Open Scope string_scope.
Local Open Scope list_scope.

(* joining per-document texts with "---" lines and splitting again yields the same documents, provided no
   document text contains a separator line itself (hypothesis on the encoders, tested per run) *)
Theorem C05_split_join : forall toml docs, docs <> [] -> forallb (no_sep_line toml) docs = true ->
  split_docs toml (join_docs docs) [] = docs.
Proof. exact split_join. Qed.
Print Assumptions C05_split_join.

(* the format written: -f, else the extension of -o, else the first input's (possibly virtual) extension *)
Theorem C05_selection : forall o first,
  chosen_format o first =
    match c_format o with Some f => f | None =>
      match c_output o with Some p => ext p | None => match first with Some f => f | None => "json-pretty" end end end.
Proof. reflexivity. Qed.
Print Assumptions C05_selection.

(* a whole stream round-trips, document for document, as soon as each document's text does: for ANY per-document
   encoder/decoder pair (the format libraries - third-party code, oracles of the check) that round-trips single documents
   and never emits a separator line inside one, writing a stream and reading it back gives exactly the documents
   written, in order, none dropped and none invented. The two premises are what the per-run comparison establishes for
   the generated documents (and exactly what fails in the recorded C05 findings). *)
Theorem C05_stream_roundtrip : forall toml (enc : value -> list string) (dec : list string -> res value) docs,
  docs <> [] -> Forall (fun d => dec (enc d) = Ok d /\ no_sep_line toml (enc d) = true) docs ->
  read_stream toml dec (write_stream enc docs) = Ok docs.
Proof. exact stream_roundtrip. Qed.
Print Assumptions C05_stream_roundtrip.

(* the premises are met: a toy codec (a string document as its one line; anything else as the line "null") and the
   stream ["a"; "b c"] *)
Example C05_stream_example :
  let enc := fun d => match d with VStr s => [s] | _ => ["null"%string] end in
  let dec := fun ls => match ls with [s] => Ok (VStr s) | _ => Err EOther end in
  Forall (fun d => dec (enc d) = Ok d /\ no_sep_line false (enc d) = true) [VStr "a"; VStr "b c"] /\
  read_stream false dec (write_stream enc [VStr "a"; VStr "b c"]) = Ok [VStr "a"; VStr "b c"].
Proof. split; [repeat constructor|reflexivity]. Qed.
