(* C05 — stream framing round-trips; format selection. Codecs are oracles (DESIGN.md). *)
From Coq Require Import String Ascii List ZArith.
From Bkl Require Import Model.Value Model.Stream Model.Files Proofs.CodecProofs.
Import ListNotations.
Local Open Scope string_scope.
Local Open Scope list_scope.

(* joining per-document texts with "---" lines and splitting again yields the same documents, provided no
   document text contains a separator line itself (hypothesis on the encoders, tested per run) *)
Theorem C05_split_join : forall toml docs, docs <> [] -> forallb (no_sep_line toml) docs = true ->
  split_docs toml (join_docs docs) [] = docs.
Proof. exact split_join. Qed.
Print Assumptions C05_split_join.

(* the format written: -f, else the extension of -o, else the first input's (possibly virtual) extension *)
Theorem C05_selection : forall o first,
  chosen_format o first =
    match c_format o with Some f => f | None =>
      match c_output o with Some p => ext p | None => match first with Some f => f | None => "json-pretty" end end end.
Proof. reflexivity. Qed.
Print Assumptions C05_selection.
