(* C14 — $encode produces the named encodings, transforms stack left to right; base64 is inverted by its decoder.
   sha256 and the json/yaml/toml codecs are oracles [o_sha], [o_enc] (supplied per run by independent
   implementations); base64 is real Gallina. Proofs in Proofs/Base64Proofs.v. *)
From Coq Require Import String Ascii List ZArith.
From Bkl Require Import Model.Value Model.Str Model.Eval Proofs.Base64Proofs.
Import ListNotations.
Local Open Scope string_scope.
Local Open Scope list_scope.

(* RFC 4648 base64 with padding: decoding an encoding gives the original bytes back, for every byte string *)
Theorem C14_base64_inverse : forall s, b64_decode (b64_encode s) = Some s.
Proof. exact b64_roundtrip. Qed.
Print Assumptions C14_base64_inverse.

(* each transform, as an equation *)
Theorem C14_base64 : forall o v, encode_string o v "base64" = Ok (VStr (b64_encode (show v))).
Proof. reflexivity. Qed.
Print Assumptions C14_base64.

Theorem C14_sha256 : forall o v, encode_string o v "sha256" = bind (o_sha o (show v)) (fun h => Ok (VStr h)).
Proof. reflexivity. Qed.
Print Assumptions C14_sha256.

Theorem C14_join : forall o l, encode_string o (VList l) "join:," = Ok (VStr (String.concat "," (map show l))).
Proof. reflexivity. Qed.
Print Assumptions C14_join.

Theorem C14_prefix : forall o l, encode_string o (VList l) "prefix:--" = Ok (VList (map (fun x => VStr ("--" ++ show x)) l)).
Proof. intros. cbn. now rewrite map_map. Qed.
Print Assumptions C14_prefix.

Theorem C14_values : forall o m, encode_string o (VMap m) "values" = Ok (VList (map snd m)).
Proof. reflexivity. Qed.
Print Assumptions C14_values.

Theorem C14_flatten : forall o l, encode_string o (VList l) "flatten" =
  Ok (VList (flat_map (fun x => match x with VList y => y | _ => [x] end) l)).
Proof. reflexivity. Qed.
Print Assumptions C14_flatten.

(* flags is tolist:= followed by prefix:-- *)
Theorem C14_flags : forall o obj, encode_string o obj "flags" =
  bind (encode_string o obj "tolist:=") (fun x => encode_string o x "prefix:--").
Proof. intros; reflexivity. Qed.
Print Assumptions C14_flags.

(* transforms given as a list apply left to right *)
Theorem C14_stack : forall o ts obj,
  encode_any o obj (VList ts) = fold_left (fun acc t => bind acc (fun a => encode_any o a t)) ts (Ok obj).
Proof.
  intros o ts. cbn [encode_any]. induction ts as [|t r IH]; intro obj; [reflexivity|].
  cbn [fold_left bind]. destruct (encode_any o obj t) as [a|e]; cbn [bind].
  - apply IH.
  - clear. induction r as [|x r IH]; [reflexivity|]. cbn. exact IH.
Qed.
Print Assumptions C14_stack.

(* malformed arguments are errors *)
Theorem C14_bad_args : forall o v, encode_string o v "base64:x" = Err EInvalidArgs /\ encode_string o v "prefix" = Err EInvalidArgs /\
  encode_any o v (VInt 5) = Err EInvalidType /\ (o_fmt o "bogus" = false -> encode_string o v "bogus" = Err EUnknownFormat).
Proof. intros o v. repeat split; try reflexivity. intro H. cbn. now rewrite H. Qed.
Print Assumptions C14_bad_args.
