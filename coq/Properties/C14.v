(* C14 — statements are added as the proofs land (see DESIGN.md section 6). *)
From Coq Require Import String Ascii List.
From Bkl Require Import Model.Value Model.Str Model.Eval.
Import ListNotations.
Local Open Scope string_scope.
Local Open Scope list_scope.

(* flags is tolist:= followed by prefix:-- *)
Theorem C14_flags : forall o obj, encode_string o obj "flags" =
  bind (encode_string o obj "tolist:=") (fun x => encode_string o x "prefix:--").
Proof. intros; reflexivity. Qed.
Print Assumptions C14_flags.
