(* C15 — bkld round trip. Statements are extended as the proofs land (DESIGN.md section 6). *)
From Coq Require Import String Ascii List ZArith.
From Bkl Require Import Model.Value Model.Merge Model.Tools.
Import ListNotations.
Local Open Scope string_scope.
Local Open Scope list_scope.

(* a changed scalar is emitted as the new value, an unchanged one as nothing *)
Theorem C15_scalar : forall d s, match d with VMap _ | VList _ => False | _ => True end ->
  diff d s = if scalar_eqb d s then VNull else d.
Proof. intros d s H. destruct d; try contradiction; reflexivity. Qed.
Print Assumptions C15_scalar.
