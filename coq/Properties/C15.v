(* C15 — bkld round trip: base + bkld(base, target) evaluates to target.
   Statements only; proofs in Proofs/ToolsProofs.v.
   [dfree v]: the property's domain — null-free, $-free trees with strictly sorted maps.
   [diff t b]: cmd/bkld/diff.go on (target, base), VNull = "no difference"; [merge' b d]: bkl layering d over b. *)
From Coq Require Import String Ascii List ZArith.
From Bkl Require Import Model.Value Model.Merge Model.Tools Proofs.MapsProofs Proofs.ToolsProofs.
Import ListNotations.
Local Open Scope string_scope.
Local Open Scope list_scope.

(* For any base and any target (maps): the emitted layer, layered over the base, yields exactly the target and is
   accepted; it is empty only if target = base. No restriction on the kind of edit: keys added/removed/changed
   at any depth, list entries added/removed/reordered/duplicated, kind changes in either direction. *)
Theorem C15_roundtrip : forall tm bm, dfree (VMap tm) -> dfree (VMap bm) ->
  (diff (VMap tm) (VMap bm) = VNull -> VMap tm = VMap bm) /\
  (diff (VMap tm) (VMap bm) <> VNull -> merge' (VMap bm) (diff (VMap tm) (VMap bm)) = Ok (VMap tm)).
Proof. intros tm bm Ht Hb. exact (diff_roundtrip (VMap tm) (VMap bm) Ht Hb eq_refl). Qed.
Print Assumptions C15_roundtrip.

(* the same at every nesting level, for values of any kind that can be patched in place *)
Theorem C15_roundtrip_nested : forall t b, dfree t -> dfree b -> patchable t b = true -> roundtrip_ok t b.
Proof. exact diff_roundtrip. Qed.
Print Assumptions C15_roundtrip_nested.

(* when base and target are the same data the emitted layer is empty (and merging nothing changes nothing) *)
Theorem C15_same_empty : forall t, dfree t -> diff t t = VNull.
Proof. exact diff_same_empty. Qed.
Print Assumptions C15_same_empty.

(* the document-level $match: {} that bkld adds selects the base document *)
Theorem C15_targets_base : forall bm, single_placeholder bm = false -> vmatch (VMap bm) (VMap []) = true.
Proof. exact match_empty_pattern. Qed.
Print Assumptions C15_targets_base.

(* non-vacuity: reordering (the pinned tree emitted an empty diff here) and a kind change *)
Example C15_reorder :
  let b := VMap [("l", VList [VInt 1; VInt 2])] in let t := VMap [("l", VList [VInt 2; VInt 1])] in
  dfree t /\ dfree b /\ merge' b (diff t b) = Ok t.
Proof. cbn. repeat split; repeat constructor. Qed.
Example C15_kind_change :
  let b := VMap [("m", VMap [("a", VInt 1)])] in let t := VMap [("m", VInt 5)] in
  dfree t /\ dfree b /\ merge' b (diff t b) = Ok t.
Proof. cbn. repeat split; repeat constructor. Qed.
