(* C09 — evaluation is deterministic.
   The model is a Gallina function, so "same inputs, same result" is immediate (C09_eval_function); the content is
   that the three loops which the Go code runs in randomised map order have order-independent outcomes, so that the
   implementation's outcome is determined whenever it refines the model. Everything else in bkl iterates in sorted
   order (modelled sorted). Concurrency and process-level repetition are checked by execution (DESIGN.md). *)
From Coq Require Import String Ascii List Permutation.
From Bkl Require Import Model.Value Model.Merge Model.Eval Model.Parser Proofs.MapsProofs Proofs.MergeProofs Proofs.OrderIndepProofs.
Import ListNotations.

Theorem C09_eval_function : forall o docs1 docs2, docs1 = docs2 -> eval_docs o docs1 = eval_docs o docs2.
Proof. intros; subst; reflexivity. Qed.
Print Assumptions C09_eval_function.

(* mergeMapMap: visiting the child's entries in any order gives the same success/failure and the same map *)
Theorem C09_merge_order : forall s s' acc, NoDup (keys s) -> Permutation s s' ->
  ((exists e, merge_entries false s acc = Err e) <-> (exists e, merge_entries false s' acc = Err e)) /\
  (forall r r', merge_entries false s acc = Ok r -> merge_entries false s' acc = Ok r' -> forall k, lookup k r = lookup k r').
Proof. exact merge_entries_order. Qed.
Print Assumptions C09_merge_order.

(* validateMap: whether the output is accepted does not depend on the order entries are visited in *)
Theorem C09_validate_order : forall o m m', Permutation m m' -> (validate_go o (VMap m) = None <-> validate_go o (VMap m') = None).
Proof. exact validate_order. Qed.
Print Assumptions C09_validate_order.

(* observers do not change the parser: a repeated Output on the same state is the same function application *)
Theorem C09_repeat_output : forall o st, snd (step o st OOutput) = snd (step o (fst (step o st OOutput)) OOutput).
Proof. intros o st. unfold step. destruct (failed st) eqn:F; cbn [fst snd]; rewrite F; reflexivity. Qed.
Print Assumptions C09_repeat_output.
