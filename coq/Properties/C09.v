(* C09 — evaluation is deterministic: order-independence statements land here (DESIGN.md section 6). *)
From Coq Require Import String Ascii List.
From Bkl Require Import Model.Value Model.Eval Model.Parser.
Import ListNotations.

(* evaluation is a function of the oracles (environment, codecs) and the stored documents:
   two runs from equal inputs give equal results *)
Theorem C09_eval_function : forall o docs1 docs2, docs1 = docs2 -> eval_docs o docs1 = eval_docs o docs2.
Proof. intros; subst; reflexivity. Qed.
Print Assumptions C09_eval_function.
