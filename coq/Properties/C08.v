(* C08 — reference cycles are reported as errors. Runtime facts (panics, stack, hangs) are not
   theorems; see DESIGN.md. *)
From Coq Require Import String Ascii List ZArith.
From Bkl Require Import Model.Value Model.Str Model.Eval Proofs.EvalProofs.
Import ListNotations.
Local Open Scope string_scope.
Local Open Scope list_scope.

(* a string reference that resolves to itself ends in the circular-reference error, for every depth limit *)
Theorem C08_self_cycle : forall o cur fuel S k,
  get o S cur (VStr k) = Ok (VStr ("$merge:" ++ k), (cur, [k])) ->
  exists e, p1 o cur fuel S None (VStr ("$merge:" ++ k)) = Err e.
Proof. exact p1_self_cycle. Qed.
Print Assumptions C08_self_cycle.
