(* C08 — reference cycles of every kind are reported as errors.
   What a theorem can carry here is the logic: on cyclic inputs the model returns an error (the circular-reference
   class when the depth guard fires), for EVERY depth limit, so never a value and never non-termination (Gallina
   functions are total). That the Go process does not panic, overflow its stack or hang is a fact about the
   runtime, established by executing every case in a child process under limits (DESIGN.md, C08). *)
From Coq Require Import String Ascii List ZArith.
From Bkl Require Import Model.Yaml Model.Value Model.Str Model.Eval Model.Files Proofs.EvalProofs Proofs.InterpProofs Proofs.FilesProofs.
Import ListNotations.
Local Open Scope string_scope.
Local Open Scope list_scope.

(* $merge: string that resolves to itself *)
Theorem C08_self_cycle : forall o cur fuel S k,
  get o S cur (VStr k) = Ok (VStr ("$merge:" ++ k), (cur, [k])) ->
  exists e, p1 o cur fuel S None (VStr ("$merge:" ++ k)) = Err e.
Proof. exact p1_self_cycle. Qed.
Print Assumptions C08_self_cycle.

(* a: $merge:b, b: $merge:a *)
Theorem C08_mutual_cycle : forall o cur S a b,
  get o S cur (VStr a) = Ok (VStr ("$merge:" ++ b), (cur, [a])) ->
  get o S cur (VStr b) = Ok (VStr ("$merge:" ++ a), (cur, [b])) ->
  forall fuel, (exists e, p1 o cur fuel S None (VStr ("$merge:" ++ a)) = Err e) /\ (exists e, p1 o cur fuel S None (VStr ("$merge:" ++ b)) = Err e).
Proof. exact p1_two_cycle. Qed.
Print Assumptions C08_mutual_cycle.

(* a $replace host referring to itself *)
Theorem C08_replace_self : forall o cur S m r org,
  lookup "$merge" m = None -> lookup "$replace" m = Some r -> get o S cur r = Ok (VMap m, org) ->
  forall fuel loc, exists e, p1 o cur fuel S loc (VMap m) = Err e.
Proof. exact p1_replace_self. Qed.
Print Assumptions C08_replace_self.

(* self-referential interpolation: a: $"{a}" *)
Theorem C08_interp_cycle : forall o S di ec k,
  noclose k -> get_with_var o S di ec k = Ok (VStr ("$""" ++ String "{"%char (k ++ String "}"%char """"))) ->
  is_interp ("$""" ++ String "{"%char (k ++ String "}"%char """")) = true ->
  trim_suffix """" (trim_prefix "$""" ("$""" ++ String "{"%char (k ++ String "}"%char """"))) = String "{"%char (k ++ String "}"%char "") ->
  forall fuel, exists e, p2_string o S di fuel ec ("$""" ++ String "{"%char (k ++ String "}"%char """")) = Err e.
Proof. exact interp_self_cycle. Qed.
Print Assumptions C08_interp_cycle.

(* a subtree merged into itself: the target contains the host *)
Theorem C08_self_containing : forall o cur f S p m r inn kp,
  lookup "$merge" m = Some r -> get o (write_doc S cur (Some p) (VMap (remove "$merge" m))) cur r = Ok (inn, (cur, kp)) ->
  keys_prefix kp p = true -> p1 o cur (Datatypes.S f) S (Some p) (VMap m) = Err ECircular.
Proof. intros o cur f S p m r inn kp H1 Hg Hk. cbn [p1]. rewrite H1, Hg. cbn [bind]. now rewrite Nat.eqb_refl, Hk. Qed.
Print Assumptions C08_self_containing.

(* $parent cycles between files *)
Theorem C08_parent_cycle : forall f fmts fs path cid chain, In path chain -> load_chain (S f) fmts fs path cid chain = Err ECircular.
Proof. exact load_cycle. Qed.
Print Assumptions C08_parent_cycle.

(* loading terminates by the cycle check alone: the chain holds distinct names of the directory, so the depth bound
   of the model (which the real loadFileAndParents does not have) is never what ends a load - the result is the same
   for every fuel above the number of directory entries. False of the code before fix 1453be7, where a link's
   target replaced its path in the chain and a.yaml -> a.x.yaml recursed without end. *)
Theorem C08_parent_fuel_irrelevant : forall fmts fs f1 f2 path cid chain,
  NoDup chain -> incl chain (map fst fs) ->
  List.length (map fst fs) < f1 + List.length chain -> List.length (map fst fs) < f2 + List.length chain ->
  load_chain f1 fmts fs path cid chain = load_chain f2 fmts fs path cid chain.
Proof. exact load_fuel_irrelevant. Qed.
Print Assumptions C08_parent_fuel_irrelevant.

Theorem C08_parent_fuel_enough : forall fmts fs path cid k,
  load_chain (2 + List.length fs) fmts fs path cid [] = load_chain (2 + List.length fs + k) fmts fs path cid [].
Proof. exact load_fuel_enough. Qed.
Print Assumptions C08_parent_fuel_enough.

(* the base is a link to its own child layer: reported as a cycle *)
Example C08_link_cycle :
  load_chain 4 ["yaml"] [("a.x.yaml", FReg (Ok [VMap [("ax", VInt 1)]])); ("a.yaml", FLink "a.x.yaml")] "a.x.yaml" None [] = Err ECircular.
Proof. vm_compute. reflexivity. Qed.

(* an alias to an anchor on an enclosing node (a: &a [*a]) is reported; see Model/Yaml.v for why this is the one
   way a YAML node tree gets a cycle *)
Theorem C08_yaml_self_alias : ytranslate YAliasUp = Err ECircular.
Proof. reflexivity. Qed.
Print Assumptions C08_yaml_self_alias.

(* non-vacuity: the premises of C08_interp_cycle hold for a: $"{a}" *)
Example C08_interp_premises :
  noclose "a" /\ is_interp "$""{a}""" = true /\ trim_suffix """" (trim_prefix "$""" "$""{a}""") = "{a}".
Proof. repeat split; reflexivity. Qed.
