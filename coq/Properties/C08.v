(* C08 — reference cycles of every kind are reported as errors.
   What a theorem can carry here is the logic: on cyclic inputs the model returns an error (the circular-reference
   class when the depth guard fires), for EVERY depth limit, so never a value and never non-termination (Gallina
   functions are total). That the Go process does not panic, overflow its stack or hang is a fact about the
   runtime, established by executing every case in a child process under limits (DESIGN.md, C08). *)
From Coq Require Import String Ascii List ZArith.
From Bkl Require Import Model.Value Model.Str Model.Eval Model.Files Proofs.EvalProofs Proofs.InterpProofs Proofs.FilesProofs.
Import ListNotations.
Local Open Scope string_scope.
Local Open Scope list_scope.

(* $merge: string that resolves to itself *)
Theorem C08_self_cycle : forall o cur fuel S k,
  get o S cur (VStr k) = Ok (VStr ("$merge:" ++ k), (cur, [k])) ->
  exists e, p1 o cur fuel S None (VStr ("$merge:" ++ k)) = Err e.
Proof. exact p1_self_cycle. Qed.
Print Assumptions C08_self_cycle.

(* a: $merge:b, b: $merge:a *)
Theorem C08_mutual_cycle : forall o cur S a b,
  get o S cur (VStr a) = Ok (VStr ("$merge:" ++ b), (cur, [a])) ->
  get o S cur (VStr b) = Ok (VStr ("$merge:" ++ a), (cur, [b])) ->
  forall fuel, (exists e, p1 o cur fuel S None (VStr ("$merge:" ++ a)) = Err e) /\ (exists e, p1 o cur fuel S None (VStr ("$merge:" ++ b)) = Err e).
Proof. exact p1_two_cycle. Qed.
Print Assumptions C08_mutual_cycle.

(* a $replace host referring to itself *)
Theorem C08_replace_self : forall o cur S m r org,
  lookup "$merge" m = None -> lookup "$replace" m = Some r -> get o S cur r = Ok (VMap m, org) ->
  forall fuel loc, exists e, p1 o cur fuel S loc (VMap m) = Err e.
Proof. exact p1_replace_self. Qed.
Print Assumptions C08_replace_self.

(* self-referential interpolation: a: $"{a}" *)
Theorem C08_interp_cycle : forall o S di ec k,
  noclose k -> get_with_var o S di ec k = Ok (VStr ("$""" ++ String "{"%char (k ++ String "}"%char """"))) ->
  is_interp ("$""" ++ String "{"%char (k ++ String "}"%char """")) = true ->
  trim_suffix """" (trim_prefix "$""" ("$""" ++ String "{"%char (k ++ String "}"%char """"))) = String "{"%char (k ++ String "}"%char "") ->
  forall fuel, exists e, p2_string o S di fuel ec ("$""" ++ String "{"%char (k ++ String "}"%char """")) = Err e.
Proof. exact interp_self_cycle. Qed.
Print Assumptions C08_interp_cycle.

(* a subtree merged into itself: the target contains the host *)
Theorem C08_self_containing : forall o cur f S p m r inn kp,
  lookup "$merge" m = Some r -> get o (write_doc S cur (Some p) (VMap (remove "$merge" m))) cur r = Ok (inn, (cur, kp)) ->
  keys_prefix kp p = true -> p1 o cur (Datatypes.S f) S (Some p) (VMap m) = Err ECircular.
Proof. intros o cur f S p m r inn kp H1 Hg Hk. cbn [p1]. rewrite H1, Hg. cbn [bind]. now rewrite Nat.eqb_refl, Hk. Qed.
Print Assumptions C08_self_containing.

(* $parent cycles between files *)
Theorem C08_parent_cycle : forall f fmts fs path cid chain, In path chain -> load_chain (S f) fmts fs path cid chain = Err ECircular.
Proof. exact load_cycle. Qed.
Print Assumptions C08_parent_cycle.

(* non-vacuity: the premises of C08_interp_cycle hold for a: $"{a}" *)
Example C08_interp_premises :
  noclose "a" /\ is_interp "$""{a}""" = true /\ trim_suffix """" (trim_prefix "$""" "$""{a}""") = "{a}".
Proof. repeat split; reflexivity. Qed.
