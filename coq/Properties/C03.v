(* C03 — inheritance chain from filenames and $parent. Statements are extended as proofs land. *)
From Coq Require Import String Ascii List ZArith.
From Bkl Require Import Model.Value Model.Str Model.Files.
Import ListNotations.
Local Open Scope string_scope.
Local Open Scope list_scope.

(* $parent: false / null in a file without a $parent name means: no parent at all *)
Theorem C03_no_parent : forall fmts fs path docs docs' ps,
  parent_directive docs = Ok (docs', ps, true) -> ps = [] ->
  parents_of fmts fs path docs = Ok (docs', [], path).
Proof. intros fmts fs path docs docs' ps H Hp. unfold parents_of. rewrite H. cbn. subst. reflexivity. Qed.
Print Assumptions C03_no_parent.
