(* C03 — inheritance chain is resolved from filenames and $parent, base first.
   Statements only; proofs in Proofs/FilesProofs.v. The file system is abstract (Model.Files): a single directory of
   regular files (already decoded) and symbolic links; names without '/'. *)
From Coq Require Import String Ascii List ZArith.
From Bkl Require Import Model.Value Model.Str Model.Eval Model.Parser Model.Files Proofs.FilesProofs.
Import ListNotations.
Local Open Scope string_scope.
Local Open Scope list_scope.

(* $parent (a name, a list, a wildcard) overrides the symlink and the filename rule *)
Theorem C03_directive_wins : forall fmts fs path docs docs' ps globs,
  parent_directive docs = Ok (docs', ps, false) -> ps <> [] -> forallb in_model_name ps = true ->
  map_res (fun p => match glob_files fmts fs p with [] => Err EMissingFile | l => Ok l end) ps = Ok globs ->
  parents_of fmts fs path docs = Ok (docs', concat globs, path).
Proof. exact parents_directive. Qed.
Print Assumptions C03_directive_wins.

(* $parent: false / null: no parent at all; together with a name it is a conflict *)
Theorem C03_no_parent : forall fmts fs path docs docs',
  parent_directive docs = Ok (docs', [], true) -> parents_of fmts fs path docs = Ok (docs', [], path).
Proof. exact parents_none. Qed.
Print Assumptions C03_no_parent.

(* without a directive a symlink inherits from its target's name, an ordinary file from its own *)
Theorem C03_symlink_then_filename : forall fmts fs path docs docs' real d,
  parent_directive docs = Ok (docs', [], false) -> resolve (link_fuel fs) fs path = Some (real, d) ->
  parents_of fmts fs path docs = bind (parents_from_filename fmts fs real) (fun ps => Ok (docs', ps, real)).
Proof. exact parents_filename. Qed.
Print Assumptions C03_symlink_then_filename.

(* a.b.c.<ext> inherits from a.b under any supported extension; a missing layer is an error, never skipped *)
Theorem C03_missing : forall fmts fs name e2 e1 r,
  rev (split_on "."%char name) = e1 :: e2 :: r -> r <> [] -> find_file fmts fs (join "." (rev r)) = None ->
  parents_from_filename fmts fs name = Err EMissingFile.
Proof. exact filename_missing. Qed.
Print Assumptions C03_missing.

(* a * wildcard does not cross dots, and only files with a supported extension are layers *)
Theorem C03_wildcard : forall fmts fs p n, In n (glob_files fmts fs p) ->
  count_dots n = count_dots (p ++ ".*") /\ supported fmts (ext n) = true /\ wmatch (p ++ ".*") n = true.
Proof. exact glob_no_dot_cross. Qed.
Print Assumptions C03_wildcard.

(* base first: the loaded chain ends with the file itself, everything it inherits from comes before it *)
Theorem C03_base_first : forall f fmts fs path cid chain files, load_chain f fmts fs path cid chain = Ok files ->
  exists pre self, files = pre ++ [self] /\ lf_id self = match cid with Some c => (c ++ "|" ++ path)%string | None => path end.
Proof. exact load_self_last. Qed.
Print Assumptions C03_base_first.

(* a $parent cycle is an error *)
Theorem C03_cycle : forall f fmts fs path cid chain, In path chain -> load_chain (S f) fmts fs path cid chain = Err ECircular.
Proof. exact load_cycle. Qed.
Print Assumptions C03_cycle.

(* several command-line inputs are applied left to right; with -P each contributes only itself, $parent ignored *)
Theorem C03_cli_order : forall fmts fs skip i r next fmt, in_model_name i = true ->
  cli_inputs fmts fs skip (i :: r) next fmt =
    bind (file_match fmts fs i) (fun rf =>
      let fmt' := match fmt with Some x => Some x | None => Some (snd rf) end in
      bind (if skip
            then match resolve (link_fuel fs) fs (fst rf) with
                 | Some (_, Ok docs) =>
                     if supported fmts (ext (fst rf))
                     then Ok [{| lf_id := fst rf; lf_docs := map (fun d => match d with VMap m => VMap (remove "$parent" m) | _ => d end) docs; lf_parent_files := [] |}]
                     else Err EUnknownFormat
                 | Some (_, Err _) => Err EUnmarshal
                 | None => Err EMissingFile
                 end
            else load_chain (2 + List.length fs) fmts fs (fst rf) None [])
        (fun files => let ops_nx := merge_files_ops files next in
           bind (cli_inputs fmts fs skip r (snd ops_nx) fmt') (fun rest => Ok (fst ops_nx ++ fst rest, snd rest)))).
Proof. exact cli_inputs_cons. Qed.
Print Assumptions C03_cli_order.

(* a filename chain of ANY length: if each layer is a supported readable file (possibly through links) without a
   $parent directive whose filename parent is the next one, loading the top returns exactly the layers bottom-up -
   base first - each naming the layer below it as its parent file; nothing else is loaded, and no bound on the depth
   other than the fuel covering it *)
Theorem C03_chain_any_depth : forall fmts fs layers fuel cid chain top docs' rest,
  layers = (top, docs') :: rest -> linked fmts fs layers -> NoDup (map fst layers) ->
  (forall p, In p (map fst layers) -> ~ In p chain) -> List.length layers <= fuel ->
  load_chain fuel fmts fs top cid chain = Ok (expected cid layers).
Proof. exact chain_loads. Qed.
Print Assumptions C03_chain_any_depth.

(* its premises are met by the three-level mixed-extension chain below *)
Example C03_chain_linked :
  let fs := [("a.yaml", FReg (Ok [VMap [("x", VInt 1)]])); ("a.b.json", FReg (Ok [VMap [("y", VInt 2)]])); ("a.b.c.toml", FReg (Ok [VMap [("z", VInt 3)]]))] in
  linked ["json"; "toml"; "yaml"] fs
    [("a.b.c.toml", [VMap [("z", VInt 3)]]); ("a.b.json", [VMap [("y", VInt 2)]]); ("a.yaml", [VMap [("x", VInt 1)]])].
Proof.
  cbn [linked next_of]. repeat split; try reflexivity;
    (eexists; eexists; split; [reflexivity|split; reflexivity]).
Qed.

(* non-vacuity: a three-level filename chain under mixed extensions loads base first *)
Example C03_chain_example :
  let fs := [("a.yaml", FReg (Ok [VMap [("x", VInt 1)]])); ("a.b.json", FReg (Ok [VMap [("y", VInt 2)]])); ("a.b.c.toml", FReg (Ok [VMap [("z", VInt 3)]]))] in
  option_map (map lf_id) (match load_chain 5 ["json"; "toml"; "yaml"] fs "a.b.c.toml" None [] with Ok l => Some l | Err _ => None end)
  = Some ["a.b.c.toml|a.b.json|a.yaml"; "a.b.c.toml|a.b.json"; "a.b.c.toml"].
Proof. reflexivity. Qed.
