(* C02 — stream layering targets the right documents and treats each independently.
   Proofs in Proofs/ParserProofs.v. Documents live in a heap; [pdocs] is Parser.docs. *)
From Coq Require Import String Ascii List ZArith.
From Bkl Require Import Model.Value Model.Merge Model.Eval Model.Parser Proofs.ParserProofs.
Import ListNotations.
Local Open Scope string_scope.
Local Open Scope list_scope.

(* which documents a layer document is merged into *)
Theorem C02_targets : forall st pi,
  fst (select st pi) =
    let patch := get_doc (heap st) pi in
    match match d_data patch with VMap m => lookup "$match" m | _ => None end with
    | Some mv =>
        if is_null mv then SelAppendNew                                   (* $match: null appends a new document *)
        else let matching := filter (fun i => vmatch (d_data (get_doc (heap st) i)) mv) in
             match matching (parents_in st pi) with                         (* matching parent documents, else ... *)
             | [] => match matching (pdocs st) with [] => SelNoMatch | l => SelTargets l end   (* ... matching documents anywhere, else an error *)
             | l => SelTargets l
             end
    | None => match parents_in st pi with [] => SelAppendSelf | l => SelTargets l end   (* all documents of the parent layer *)
    end.
Proof.
  intros st pi. unfold select. cbv zeta. destruct (d_data (get_doc (heap st) pi)) as [| | | | | |m]; try (destruct (parents_in st pi); reflexivity).
  destruct (lookup "$match" m) as [mv|]; [|destruct (parents_in st pi); reflexivity].
  destruct (is_null mv); [reflexivity|].
  destruct (filter _ (parents_in st pi)); [destruct (filter _ (pdocs st)); reflexivity|reflexivity].
Qed.
Print Assumptions C02_targets.

(* every selected document receives the result it would receive if it were the only one: the merge of its own
   data with the layer's data; every other document is left untouched; the layer's own data is not consumed *)
Theorem C02_independent : forall targets h pi h',
  NoDup targets -> ~ In pi targets -> (forall t, In t targets -> t < List.length h) -> pi < List.length h ->
  merge_into h targets pi = (h', Ok tt) ->
  List.length h' = List.length h /\
  (forall q, In q targets -> merge' (d_data (get_doc h q)) (d_data (get_doc h pi)) = Ok (d_data (get_doc h' q))) /\
  (forall q, ~ In q targets -> d_data (get_doc h' q) = d_data (get_doc h q)).
Proof. exact merge_into_spec. Qed.
Print Assumptions C02_independent.

(* MergeDocument as a whole, for a layer document with selected targets: exactly the selected documents change,
   each to the merge of ITS OWN data with the layer's body; no other document is influenced *)
Theorem C02_merge_document : forall st pi l body st',
  select st pi = (SelTargets l, body) -> NoDup l -> ~ In pi l -> ~ In pi (pdocs st) ->
  (forall t, In t l -> t < List.length (heap st)) -> pi < List.length (heap st) ->
  merge_document st pi = (st', Ok tt) ->
  pdocs st' = pdocs st /\
  (forall q, In q l -> merge' (d_data (get_doc (heap st) q)) body = Ok (d_data (get_doc (heap st') q))) /\
  (forall q, ~ In q l -> q <> pi -> d_data (get_doc (heap st') q) = d_data (get_doc (heap st) q)).
Proof. exact merge_document_targets. Qed.
Print Assumptions C02_merge_document.

(* document order is preserved: MergeDocument only ever appends *)
Theorem C02_order_preserved : forall st pi st' r, merge_document st pi = (st', r) ->
  exists tail, pdocs st' = pdocs st ++ tail.
Proof.
  intros st pi st' r H. unfold merge_document in H.
  destruct (select st pi) as [sel body]. destruct sel.
  - destruct (merge_into _ _ _) as [h2 r2]. inversion H; subst; cbn. eexists; reflexivity.
  - destruct (merge_into _ _ _) as [h2 r2]. inversion H; subst; cbn. exists []. now rewrite app_nil_r.
  - inversion H; subst; cbn. eexists; reflexivity.
  - inversion H; subst; cbn. exists []. now rewrite app_nil_r.
Qed.
Print Assumptions C02_order_preserved.

(* non-vacuity: the two inputs quoted in the property, on the model *)
Example C02_two_targets :
  let ops := [ONew "b0" [] (VMap [("a", VInt 1)]); OMerge 0; ONew "b1" [] (VMap [("a", VInt 2)]); OMerge 1;
              ONew "l1" [0; 1] (VMap [("a", VMap [("x", VInt 1)])]); OMerge 2;
              ONew "l2" [2] (VMap [("a", VMap [("y", VInt 2)])]); OMerge 3] in
  forall o, documents (fst (run o init ops)) =
    [VMap [("a", VMap [("x", VInt 1); ("y", VInt 2)])]; VMap [("a", VMap [("x", VInt 1); ("y", VInt 2)])]].
Proof. intro o. reflexivity. Qed.

(* Document.AllParents recurses over Parents with no bound in the real code; the model's walk has fuel. On the heaps the
   property's histories build - every parent link points to an older document ([ordered]; creating a document whose
   parents exist keeps it) - the fuel is never what ends the walk: the parents a patch is applied to are the same for
   every larger fuel. (Linking documents in a cycle is library misuse outside the quantifier: the real code would then
   recurse without end.) *)
Theorem C02_parents_fuel_irrelevant : forall h, ordered h -> forall b f f' ps,
  (forall p, In p ps -> p < b) -> b <= f -> b <= f' -> all_parent_ids f h ps = all_parent_ids f' h ps.
Proof. exact all_parent_ids_fuel_irrelevant. Qed.
Print Assumptions C02_parents_fuel_irrelevant.

Theorem C02_ordered_new : forall h id ps data, ordered h -> (forall p, In p ps -> p < List.length h) ->
  ordered (h ++ [{| d_id := id; d_parents := ps; d_data := data |}]).
Proof. exact ordered_new. Qed.
Print Assumptions C02_ordered_new.
