(* C02 — stream layering. Statements only; proofs in Proofs/ParserProofs.v (to be extended). *)
From Coq Require Import String List ZArith.
From Bkl Require Import Model.Value Model.Merge Model.Eval Model.Parser.
Import ListNotations.
Local Open Scope string_scope.
Local Open Scope list_scope.

(* MergeDocument never reorders or drops the documents already stored *)
Theorem C02_order_preserved : forall st pi st' r, merge_document st pi = (st', r) ->
  exists tail, pdocs st' = pdocs st ++ tail.
Proof.
  intros st pi st' r H. unfold merge_document in H.
  destruct (select st pi) as [sel body]. destruct sel.
  - destruct (merge_into _ _ _) as [h2 r2]. inversion H; subst; cbn. eexists; reflexivity.
  - destruct (merge_into _ _ _) as [h2 r2]. inversion H; subst; cbn. exists []. now rewrite app_nil_r.
  - inversion H; subst; cbn. eexists; reflexivity.
  - inversion H; subst; cbn. exists []. now rewrite app_nil_r.
Qed.
Print Assumptions C02_order_preserved.
