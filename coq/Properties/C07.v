(* C07 — no unresolved $required or stray directive ever reaches the output.
   Statements only; proofs in Proofs/ValidProofs.v and Proofs/MergeProofs.v. *)
From Coq Require Import String Ascii List ZArith.
From Bkl Require Import Model.Value Model.Merge Model.Str Model.Eval Model.Tools
  Proofs.MapsProofs Proofs.MergeProofs Proofs.PlainProofs Proofs.ValidProofs Proofs.RequiredProofs Proofs.NestedRepeatProofs.
Import ListNotations.
Local Open Scope string_scope.
Local Open Scope list_scope.

(* every document of every successful evaluation — whatever directives the input used — is the $$-unescaping
   of a tree in which validation found no "$required" and no string or key that is '$' followed by a lower-case
   letter. So a '$'+lower-case string in the output can only come from a "$$" escape. *)
Theorem C07_outputs_valid : forall o docs outs, eval_docs o docs = Ok outs ->
  Forall (fun out => exists y, out = finalize y /\ validate_go o y = None) outs.
Proof. exact eval_docs_valid. Qed.
Print Assumptions C07_outputs_valid.

(* markers cannot hide inside encoded text either: whatever an $encode map evaluates to was produced from a subject
   that validation accepted (evaluate, VALIDATE, then encode). [validate o x = Ok tt] is validate_go o x = None. *)
Theorem C07_encode_validated : forall o S di f ec m v r,
  ssorted m -> Forall (fun kv => match snd kv with VMap vm => lookup "$repeat" vm = None | _ => True end) m ->
  lookup "$encode" m = Some v -> p2 o S di (Datatypes.S f) ec (VMap m) = Ok r ->
  exists obj2, p2 o S di f ec (VMap (remove "$encode" m)) = Ok obj2 /\ validate o obj2 = Ok tt /\ encode_any o obj2 v = Ok r.
Proof. exact p2_encode_validated_plain. Qed.
Print Assumptions C07_encode_validated.

(* the same with $repeat-valued entries: they are expanded first (repeat_pass), then as above *)
Theorem C07_encode_validated_general : forall o S di f ec m m1 v r,
  repeat_pass o S di f ec m = Ok m1 -> lookup "$encode" m1 = Some v -> p2 o S di (Datatypes.S f) ec (VMap m) = Ok r ->
  exists obj2, p2 o S di f ec (VMap (remove "$encode" m1)) = Ok obj2 /\ validate o obj2 = Ok tt /\ encode_any o obj2 v = Ok r.
Proof. exact p2_encode_validated. Qed.
Print Assumptions C07_encode_validated_general.

Theorem C07_list_encode_validated : forall o S di f ec l l1 enc r,
  pop_list_map_value l "$encode" = Ok (enc, l1) -> is_null enc = false -> p2 o S di (Datatypes.S f) ec (VList l) = Ok r ->
  exists obj2, p2 o S di f ec (VList l1) = Ok obj2 /\ validate o obj2 = Ok tt /\ encode_any o obj2 enc = Ok r.
Proof. exact p2_list_encode_validated. Qed.
Print Assumptions C07_list_encode_validated.

(* a directive-free document that still contains a marker is refused, with the class of the marker *)
Theorem C07_marker_refused : forall o v e, plain v -> height v <= depth_limit -> v <> VNull ->
  validate_go o (dn v) = Some e -> eval_docs o [v] = Err e.
Proof. intros o v e Hp Hh Hn Hv. rewrite (eval_inert o v Hp Hh), Hv. destruct v; congruence. Qed.
Print Assumptions C07_marker_refused.

(* a $required in a lower layer survives every upper layer that does not mention its key *)
Theorem C07_required_sticks : forall k layers, Forall (quiet_layer k) layers -> forall b r,
  lookup k b = Some (VStr "$required") ->
  fold_left (fun acc l => bind acc (fun a => merge' a l)) layers (Ok (VMap b)) = Ok r ->
  exists m, r = VMap m /\ lookup k m = Some (VStr "$required").
Proof.
  intros k layers Hq b r Hb Hf. destruct (chain_frame k layers Hq b r Hf) as (m & -> & Hm).
  exists m. split; [reflexivity|congruence].
Qed.
Print Assumptions C07_required_sticks.

(* in a list, only an upper layer that supplies a list there removes the placeholder *)
Theorem C07_required_list : forall d, merge' (VList d) VNull = Ok (VList d).
Proof. reflexivity. Qed.
Print Assumptions C07_required_list.

(* C07_encode_validated is about something: {$encode: base64, $value: "hi"} evaluates (its content is evaluated,
   validated, then encoded), while the same map over an unresolved marker is refused before anything is encoded *)
Example C07_encode_example :
  let o := {| o_env := []; o_yaml := fun _ => Err EOracle; o_enc := fun _ _ => Err EOracle; o_dec := fun _ _ => Err EOracle;
              o_fmt := fun _ => false; o_sha := fun _ => Err EOracle; o_lower := fun _ => false |} in
  p2 o [] 0 5 [] (VMap [("$encode", VStr "base64"); ("$value", VStr "hi")]) = Ok (VStr "aGk=") /\
  p2 o [] 0 5 [] (VMap [("$encode", VStr "base64"); ("$value", VStr "$required")]) = Err ERequired.
Proof. split; vm_compute; reflexivity. Qed.
(* ... for chains of encodings too, including those whose first stage merely reshapes the subject (the leaves would
   otherwise be folded into one string by the later stage and no output check could find the marker any more) *)
Example C07_encode_chain_example :
  let o := {| o_env := []; o_yaml := fun _ => Err EOracle; o_enc := fun _ _ => Err EOracle; o_dec := fun _ _ => Err EOracle;
              o_fmt := fun _ => false; o_sha := fun _ => Err EOracle; o_lower := fun _ => false |} in
  p2 o [] 0 5 [] (VMap [("$encode", VList [VStr "values"; VStr "join:,"]); ("a", VStr "x"); ("b", VStr "y")]) = Ok (VStr "x,y") /\
  p2 o [] 0 5 [] (VMap [("$encode", VList [VStr "values"; VStr "join:,"]); ("a", VStr "x"); ("b", VStr "$required")]) = Err ERequired /\
  p2 o [] 0 5 [] (VMap [("$encode", VStr "values"); ("$mtach", VInt 1); ("b", VInt 2)]) = Err EInvalidDirective.
Proof. repeat split; vm_compute; reflexivity. Qed.
