(* YamlProofs.v — what yaml.go's node translation computes: plain nodes denote their value, an alias denotes
   its anchor, and a mapping with merge keys is: local keys first, then the merge sources in order. *)
From Coq Require Import String Ascii List ZArith Bool DecimalString DecimalZ DecimalPos.
From Bkl Require Import Model.Value Model.Yaml Proofs.MapsProofs Proofs.EscapeProofs.
Import ListNotations.
Local Open Scope string_scope.
Local Open Scope list_scope.

Definition ins (acc : emap) (kv : string * value) : emap := insert (fst kv) (snd kv) acc.

(* the two passes over a mapping node, as top-level functions *)
Section Passes.
Variable tr : ynode -> res value.
Fixpoint ypass1 (kvs : list (ynode * ynode)) (acc : emap) : res emap :=
  match kvs with
  | [] => Ok acc
  | (k, v) :: r =>
      if String.eqb (key_text k) "<<"
      then do v2 <- tr v; do acc' <- yaml_merge acc v2; ypass1 r acc'
      else ypass1 r acc
  end.

Fixpoint ypass2 (kvs : list (ynode * ynode)) (acc : emap) : res emap :=
  match kvs with
  | [] => Ok acc
  | (k, v) :: r =>
      if String.eqb (key_text k) "<<" then ypass2 r acc
      else do v2 <- tr v; ypass2 r (insert (key_text k) v2 acc)
  end.

Fixpoint yseq (l : list ynode) : res (list value) :=
  match l with [] => Ok [] | x :: r => do y <- tr x; do r' <- yseq r; Ok (y :: r') end.
End Passes.

Lemma ytranslate_YMap kvs :
  ytranslate (YMap kvs) = do m <- ypass1 ytranslate kvs []; do a <- ypass2 ytranslate kvs m; Ok (VMap a).
Proof. reflexivity. Qed.

Lemma ytranslate_YSeq l : ytranslate (YSeq l) = do l' <- yseq ytranslate l; Ok (VList l').
Proof. reflexivity. Qed.

Lemma ytranslate_YAlias t : ytranslate (YAlias t) = ytranslate t.
Proof. reflexivity. Qed.

(* ---- folding inserts ---- *)
Lemma lookup_fold_ins k m : forall a, NoDup (keys m) ->
  lookup k (fold_left ins m a) = match lookup k m with Some v => Some v | None => lookup k a end.
Proof.
  induction m as [|[k' v'] r IH]; intros a ND; [reflexivity|].
  inversion ND as [|? ? Hn ND']; subst. cbn [fold_left]. rewrite (IH _ ND'). unfold ins. cbn [fst snd lookup].
  destruct (String.eqb k k') eqn:E.
  - apply String.eqb_eq in E. subst k'.
    destruct (lookup k r) eqn:L.
    + exfalso. apply Hn. apply lookup_In in L. change k with (fst (k, v)). now apply in_map.
    + apply lookup_insert_eq.
  - destruct (lookup k r); [reflexivity|]. apply lookup_insert_neq. intro; subst. now rewrite String.eqb_refl in E.
Qed.

(* the first of the sources that has the key *)
Fixpoint first_lookup (k : string) (ms : list emap) : option value :=
  match ms with [] => None | m :: r => match lookup k m with Some v => Some v | None => first_lookup k r end end.

Definition merge_step (acc : res emap) (x : value) : res emap :=
  do a <- acc; match x with VMap m => Ok (fold_left ins m a) | _ => Err EInvalidType end.

Lemma yaml_merge_VList dst l : yaml_merge dst (VList l) = fold_left merge_step (rev l) (Ok dst).
Proof. reflexivity. Qed.

Lemma yaml_merge_VMap dst m : yaml_merge dst (VMap m) = Ok (fold_left ins m dst).
Proof. reflexivity. Qed.

Lemma merge_sources_spec ms : forall dst, Forall (fun m => NoDup (keys m)) ms ->
  exists r, fold_right (fun x acc => merge_step acc x) (Ok dst) (map VMap ms) = Ok r /\
            forall k, lookup k r = match first_lookup k ms with Some v => Some v | None => lookup k dst end.
Proof.
  induction ms as [|m ms IH]; intros dst HND.
  - exists dst. split; [reflexivity|]. intro k. reflexivity.
  - inversion HND as [|? ? Hm Hms]; subst. destruct (IH dst Hms) as (r & Er & Lr).
    cbn [map fold_right]. rewrite Er. cbn [merge_step bind].
    eexists. split; [reflexivity|]. intro k. rewrite (lookup_fold_ins k m r Hm). cbn [first_lookup].
    destruct (lookup k m); [reflexivity|]. apply Lr.
Qed.

(* a merge key whose value is a list of mappings: the EARLIER mapping wins, and all of them win over dst *)
Lemma yaml_merge_list_spec dst ms : Forall (fun m => NoDup (keys m)) ms ->
  exists r, yaml_merge dst (VList (map VMap ms)) = Ok r /\
            forall k, lookup k r = match first_lookup k ms with Some v => Some v | None => lookup k dst end.
Proof.
  intro H. rewrite yaml_merge_VList, <- fold_left_rev_right, rev_involutive. now apply merge_sources_spec.
Qed.

(* anything else under a merge key is rejected *)
Lemma yaml_merge_rejects dst v :
  (forall m, v <> VMap m) -> (forall l, v <> VList l) -> yaml_merge dst v = Err EInvalidType.
Proof. intros Hm Hl. destruct v; try reflexivity; [now elim (Hl l)|now elim (Hm m)]. Qed.

(* ---- the local entries and the merge sources of a mapping node ---- *)
Inductive locals_of (tr : ynode -> res value) : list (ynode * ynode) -> emap -> Prop :=
| lo_nil : locals_of tr [] []
| lo_skip k v r l : key_text k = "<<" -> locals_of tr r l -> locals_of tr ((k, v) :: r) l
| lo_keep k v v' r l : key_text k <> "<<" -> tr v = Ok v' -> locals_of tr r l ->
                       locals_of tr ((k, v) :: r) ((key_text k, v') :: l).

Inductive merges_of (tr : ynode -> res value) : list (ynode * ynode) -> list value -> Prop :=
| mo_nil : merges_of tr [] []
| mo_skip k v r l : key_text k <> "<<" -> merges_of tr r l -> merges_of tr ((k, v) :: r) l
| mo_keep k v v' r l : key_text k = "<<" -> tr v = Ok v' -> merges_of tr r l -> merges_of tr ((k, v) :: r) (v' :: l).

Lemma ypass2_spec tr kvs lvals : locals_of tr kvs lvals -> forall acc, ypass2 tr kvs acc = Ok (fold_left ins lvals acc).
Proof.
  induction 1 as [|k v r l Hk _ IH|k v v' r l Hk Hv _ IH]; intro acc; [reflexivity| |].
  - cbn [ypass2]. rewrite Hk. cbn. apply IH.
  - cbn [ypass2]. apply String.eqb_neq in Hk. rewrite Hk, Hv. cbn [bind]. rewrite IH. reflexivity.
Qed.

Lemma ypass1_spec tr kvs svs : merges_of tr kvs svs -> forall acc,
  ypass1 tr kvs acc = fold_left (fun a sv => do a' <- a; yaml_merge a' sv) svs (Ok acc).
Proof.
  induction 1 as [|k v r l Hk _ IH|k v v' r l Hk Hv _ IH]; intro acc; [reflexivity| |].
  - cbn [ypass1]. apply String.eqb_neq in Hk. rewrite Hk. apply IH.
  - cbn [ypass1]. rewrite Hk. cbn [String.eqb Ascii.eqb Bool.eqb]. rewrite Hv. cbn [bind fold_left].
    destruct (yaml_merge acc v') as [a|e]; cbn [bind]; [apply IH|].
    clear. induction l as [|x l IHl]; [reflexivity|]. cbn [fold_left bind]. exact IHl.
Qed.

(* a mapping whose merge key (wherever it stands) lists mappings: local entries, then the sources in order *)
Lemma ymap_merge_spec kvs lvals ms :
  locals_of ytranslate kvs lvals -> merges_of ytranslate kvs [VList (map VMap ms)] ->
  NoDup (keys lvals) -> Forall (fun m => NoDup (keys m)) ms ->
  exists r, ytranslate (YMap kvs) = Ok (VMap r) /\
            forall k, lookup k r = match lookup k lvals with Some v => Some v | None => first_lookup k ms end.
Proof.
  intros Hl Hm NDl NDm. rewrite ytranslate_YMap, (ypass1_spec _ _ _ Hm). cbn [fold_left bind].
  destruct (yaml_merge_list_spec [] ms NDm) as (b & Eb & Lb). rewrite Eb. cbn [bind].
  rewrite (ypass2_spec _ _ _ Hl). cbn [bind]. eexists. split; [reflexivity|].
  intro k. rewrite (lookup_fold_ins k lvals b NDl). destruct (lookup k lvals); [reflexivity|].
  rewrite Lb. destruct (first_lookup k ms); reflexivity.
Qed.

(* the single-mapping form  <<: *a  *)
Lemma ymap_merge_single_spec kvs lvals m :
  locals_of ytranslate kvs lvals -> merges_of ytranslate kvs [VMap m] ->
  NoDup (keys lvals) -> NoDup (keys m) ->
  exists r, ytranslate (YMap kvs) = Ok (VMap r) /\
            forall k, lookup k r = match lookup k lvals with Some v => Some v | None => lookup k m end.
Proof.
  intros Hl Hm NDl NDm. rewrite ytranslate_YMap, (ypass1_spec _ _ _ Hm). cbn [fold_left bind].
  rewrite yaml_merge_VMap. cbn [bind]. rewrite (ypass2_spec _ _ _ Hl). cbn [bind]. eexists. split; [reflexivity|].
  intro k. rewrite (lookup_fold_ins k lvals _ NDl). destruct (lookup k lvals); [reflexivity|].
  rewrite (lookup_fold_ins k m [] NDm). destruct (lookup k m); reflexivity.
Qed.

(* a merge key over something that is neither a mapping nor a list is rejected, wherever it stands *)

(* ---- a value written as plain YAML nodes denotes that value ---- *)
Fixpoint ynode_of (v : value) : ynode :=
  match v with
  | VNull => YScalar "!!null" "null"
  | VBool b => YScalar "!!bool" (if b then "true" else "false")
  | VInt z => YScalar "!!int" (NilZero.string_of_int (Z.to_int z))
  | VFloat g => YScalar "!!float" g
  | VStr s => YScalar "!!str" s
  | VList l => YSeq (map ynode_of l)
  | VMap m => YMap (map (fun kv => (YScalar "!!str" (fst kv), ynode_of (snd kv))) m)
  end.

(* no mapping key is the merge key *)
Fixpoint nomerge (v : value) : Prop :=
  match v with
  | VList l => (fix go (l : list value) := match l with [] => True | x :: r => nomerge x /\ go r end) l
  | VMap m => (fix go (m : emap) := match m with [] => True | (k, x) :: r => k <> "<<" /\ nomerge x /\ go r end) m
  | _ => True
  end.

Lemma Z_of_dec_print z : Z_of_dec (NilZero.string_of_int (Z.to_int z)) = Some z.
Proof.
  assert (Hp : forall p, Pos.to_uint p <> Decimal.Nil).
  { intros p E. pose proof (DecimalPos.Unsigned.of_to p) as H. rewrite E in H. discriminate H. }
  unfold Z_of_dec. rewrite NilZero.isi.
  - now rewrite DecimalZ.of_to.
  - destruct z; cbn; intro E; inversion E as [E']; now apply (Hp p).
  - destruct z; cbn; intro E; inversion E as [E']; now apply (Hp p).
Qed.

Lemma fold_ins_sorted r : forall acc,
  ssorted (acc ++ r) -> fold_left ins r acc = acc ++ r.
Proof.
  induction r as [|[k v] r IH]; intros acc Hs; [now rewrite app_nil_r|].
  cbn [fold_left]. unfold ins at 2. cbn [fst snd].
  assert (Hlast : insert k v acc = acc ++ [(k, v)]).
  { apply insert_last. clear IH. induction acc as [|[k0 v0] acc IHa]; [constructor|].
    cbn [app ssorted] in Hs. destruct Hs as [Hall Hs]. constructor.
    - cbn [fst]. rewrite Forall_forall in Hall. apply (Hall (k, v)). apply in_or_app. right. now left.
    - now apply IHa. }
  rewrite Hlast. rewrite IH; rewrite <- app_assoc; [reflexivity|exact Hs].
Qed.

Lemma ytranslate_ynode_of v : swf v -> nomerge v -> ytranslate (ynode_of v) = Ok v.
Proof.
  induction v as [|b|z|g|s|l IH|m IH] using value_ind'; intros Hw Hn; try reflexivity.
  - destruct b; reflexivity.
  - cbn [ynode_of ytranslate]. cbn. now rewrite Z_of_dec_print.
  - cbn [ynode_of]. rewrite ytranslate_YSeq.
    assert (E : yseq ytranslate (map ynode_of l) = Ok l).
    { cbn [swf] in Hw. cbn [nomerge] in Hn. induction IH as [|x r Hx _ IHr]; [reflexivity|].
      destruct Hw as [Hwx Hwr]. destruct Hn as [Hnx Hnr]. cbn [map yseq]. rewrite (Hx Hwx Hnx). cbn [bind].
      rewrite (IHr Hwr Hnr). reflexivity. }
    now rewrite E.
  - cbn [ynode_of]. rewrite ytranslate_YMap. cbn [swf] in Hw. destruct Hw as [Hs Hw]. cbn [nomerge] in Hn.
    set (f := fun kv : string * value => (YScalar "!!str" (fst kv), ynode_of (snd kv))).
    assert (E1 : forall acc, ypass1 ytranslate (map f m) acc = Ok acc).
    { clear IH Hs Hw. induction m as [|[k x] r IHm]; intro acc; [reflexivity|]. destruct Hn as (Hk & _ & Hr).
      cbn [map ypass1 f fst snd key_text]. apply String.eqb_neq in Hk. rewrite Hk. now apply IHm. }
    rewrite E1. cbn [bind].
    assert (E2 : forall acc, ypass2 ytranslate (map f m) acc = Ok (fold_left ins m acc)).
    { clear E1 Hs. induction IH as [|[k x] r Hx _ IHr]; intro acc; [reflexivity|].
      destruct Hn as (Hk & Hnx & Hnr). destruct Hw as [Hwx Hwr].
      cbn [map ypass2 f fst snd key_text]. apply String.eqb_neq in Hk. rewrite Hk. cbn [snd] in Hx. rewrite (Hx Hwx Hnx). cbn [bind].
      rewrite (IHr Hwr Hnr). reflexivity. }
    rewrite E2. cbn [bind]. now rewrite (fold_ins_sorted m []).
Qed.
