(* InterpProofs.v — the template scanner of $"..." and substitution. *)
From Coq Require Import String Ascii List ZArith Bool Lia.
From Bkl Require Import Model.Value Model.Merge Model.Str Model.Eval Proofs.StrProofs Proofs.MapsProofs.
Import ListNotations.
Local Open Scope string_scope.
Local Open Scope list_scope.

Fixpoint no_char (c : ascii) (s : string) : Prop :=
  match s with EmptyString => True | String a r => Ascii.eqb a c = false /\ no_char c r end.

Definition nobrace (s : string) : Prop := no_char "{"%char s.
Definition noclose (s : string) : Prop := no_char "}"%char s /\ no_char "010"%char s.

Lemma rev_string_cons c s : rev_string (String c s) = (rev_string s ++ String c EmptyString)%string.
Proof. change (String c s) with (String c EmptyString ++ s)%string. now rewrite rev_string_app. Qed.

Lemma sapp_cons_mid a c b : ((a ++ String c EmptyString) ++ b = a ++ String c b)%string.
Proof. now rewrite sapp_assoc. Qed.

Lemma find_close_spec r : forall acc rest, noclose r ->
  find_close (r ++ String "}"%char rest) acc = Some ((rev_string acc ++ r)%string, rest).
Proof.
  induction r as [|c r IH]; intros acc rest [H1 H2].
  - cbn. now rewrite sapp_nil_r.
  - cbn [no_char] in H1, H2. destruct H1 as [C1 R1]. destruct H2 as [C2 R2].
    cbn [String.append find_close]. rewrite C1, C2. rewrite (IH (String c acc) rest (conj R1 R2)).
    now rewrite rev_string_cons, sapp_cons_mid.
Qed.

Lemma scan_inref r : forall acc lit rest, noclose r ->
  scan (r ++ String "}"%char rest) lit (Some acc) = Ref (rev_string acc ++ r)%string :: scan rest EmptyString None.
Proof.
  induction r as [|c r IH]; intros acc lit rest [H1 H2].
  - cbn. now rewrite sapp_nil_r.
  - cbn [no_char] in H1, H2. destruct H1 as [C1 R1]. destruct H2 as [C2 R2].
    cbn [String.append scan]. rewrite C1. rewrite (IH (String c acc) lit rest (conj R1 R2)).
    now rewrite rev_string_cons, sapp_cons_mid.
Qed.

Lemma scan_ref l0 : forall lit r rest, nobrace l0 -> noclose r ->
  scan (l0 ++ String "{"%char (r ++ String "}"%char rest)) lit None =
    Lit (rev_string lit ++ l0)%string :: Ref r :: scan rest EmptyString None.
Proof.
  induction l0 as [|c l0 IH]; intros lit r rest H0 Hr.
  - cbn [String.append scan]. replace (Ascii.eqb "{" "{")%char with true by reflexivity.
    rewrite (find_close_spec r EmptyString rest Hr). rewrite (scan_inref r EmptyString EmptyString rest Hr).
    now rewrite sapp_nil_r.
  - cbn [nobrace no_char] in H0. destruct H0 as [C0 R0]. cbn [String.append scan]. rewrite C0.
    rewrite (IH (String c lit) r rest R0 Hr). now rewrite rev_string_cons, sapp_cons_mid.
Qed.

Lemma scan_lit l0 : forall lit, nobrace l0 -> scan l0 lit None = [Lit (rev_string lit ++ l0)%string].
Proof.
  induction l0 as [|c l0 IH]; intros lit H0.
  - cbn. now rewrite sapp_nil_r.
  - cbn [nobrace no_char] in H0. destruct H0 as [C0 R0]. cbn [scan]. rewrite C0.
    rewrite (IH (String c lit) R0). now rewrite rev_string_cons, sapp_cons_mid.
Qed.

(* a template: literal, {ref}, literal, {ref}, ..., last literal *)
Fixpoint tmpl (segs : list (string * string)) (last : string) : string :=
  match segs with
  | [] => last
  | (l, r) :: t => (l ++ String "{"%char (r ++ String "}"%char (tmpl t last)))%string
  end.

Theorem scan_template segs last :
  Forall (fun lr => nobrace (fst lr) /\ noclose (snd lr)) segs -> nobrace last ->
  scan (tmpl segs last) EmptyString None = flat_map (fun lr => [Lit (fst lr); Ref (snd lr)]) segs ++ [Lit last].
Proof.
  intros H Hl. induction H as [|[l r] t [H1 H2] _ IH]; cbn [tmpl flat_map app fst snd].
  - now rewrite (scan_lit last EmptyString Hl).
  - cbn [fst snd] in H1, H2. rewrite (scan_ref l EmptyString r (tmpl t last) H1 H2). cbn [rev_string rev_string_acc String.append].
    now rewrite IH.
Qed.

Lemma map_res_err_in {A B} (f : A -> res B) l x e : In x l -> f x = Err e -> exists e', map_res f l = Err e'.
Proof.
  induction l as [|y r IH]; intros Hin He; [contradiction|]. cbn. destruct Hin as [->|Hin].
  - rewrite He. eexists; reflexivity.
  - destruct (f y); [|eexists; reflexivity]. cbn. destruct (IH Hin He) as [e' E]. rewrite E. eexists; reflexivity.
Qed.

Section Interp.
  Variable o : oracles.
  Variable S : list value.
  Variable di : nat.

  (* a reference that resolves neither as a path nor as a variable is an error, never an empty substitution *)
  Theorem interp_missing f ec s r :
    is_interp s = true -> In (Ref r) (scan (trim_suffix """" (trim_prefix "$""" s)) EmptyString None) ->
    (exists e, get_with_var o S di ec r = Err e) ->
    exists e, p2_string o S di (Datatypes.S f) ec s = Err e.
  Proof.
    intros Hi Hin [e He]. cbn [p2_string]. rewrite Hi.
    match goal with |- context [map_res ?g ?l] => destruct (map_res_err_in g l (Ref r) e Hin) as [e2 E] end.
    - cbn beta iota. rewrite He. reflexivity.
    - rewrite E. eexists; reflexivity.
  Qed.

  (* the substitution itself: every reference is replaced by the shown value it resolves to, every literal segment
     is kept as it is, in order. [settled v]: a referenced string is itself neither a template nor a variable string
     (those are evaluated further, one level of fuel each). *)
  Definition settled (v : value) : Prop :=
    match v with VStr x => is_interp x = false /\ is_var_string x = false | _ => True end.

  Lemma p2_string_settled f ec x : is_interp x = false -> is_var_string x = false -> p2_string o S di f ec x = Ok (VStr x).
  Proof. intros H1 H2. destruct f; cbn [p2_string]; rewrite H1, H2; reflexivity. Qed.

  Fixpoint subst_parts (segs : list (string * string)) (vals : list value) : list string :=
    match segs, vals with
    | lr :: segs', v :: vals' => fst lr :: show v :: subst_parts segs' vals'
    | _, _ => []
    end.

  Theorem interp_substitute f ec s segs last vals :
    is_interp s = true -> trim_suffix """" (trim_prefix "$""" s) = tmpl segs last ->
    Forall (fun lr => nobrace (fst lr) /\ noclose (snd lr)) segs -> nobrace last ->
    Forall2 (fun lr v => get_with_var o S di ec (snd lr) = Ok v /\ settled v) segs vals ->
    p2_string o S di (Datatypes.S f) ec s = Ok (VStr (String.concat "" (subst_parts segs vals ++ [last]))).
  Proof.
    intros Hi Hb Hs Hl Hv. cbn [p2_string]. rewrite Hi, Hb, (scan_template segs last Hs Hl).
    match goal with |- context [map_res ?g _] => set (G := g) end.
    assert (E : map_res G (flat_map (fun lr => [Lit (fst lr); Ref (snd lr)]) segs ++ [Lit last]) = Ok (subst_parts segs vals ++ [last])).
    { clear Hs Hb Hi. induction Hv as [|lr v segs' vals' [Hg Hst] _ IH]; [reflexivity|].
      cbn [flat_map app map_res subst_parts]. unfold G at 1 2. cbn beta iota. cbn [bind]. rewrite Hg. cbn [bind].
      assert (Es : (match v with VStr v2 => do x <- p2_string o S di f ec v2; Ok (show x) | _ => Ok (show v) end) = Ok (show v)).
      { destruct v; try reflexivity. destruct Hst as [H1 H2]. now rewrite (p2_string_settled f ec s0 H1 H2). }
      rewrite Es. cbn [bind]. fold G. rewrite IH. reflexivity. }
    rewrite E. reflexivity.
  Qed.

  (* $env:NAME as a whole string yields the variable's value (whatever it is bound to), and fails when unset *)
  Theorem env_value fuel ec n :
    p2_string o S di fuel ec ("$env:" ++ n) = match lookup ("$env:" ++ n) ec with Some v => Ok v | None => Err EVarNotFound end.
  Proof.
    assert (I : is_interp ("$env:" ++ n) = false) by reflexivity.
    assert (V : is_var_string ("$env:" ++ n) = true).
    { unfold is_var_string. replace (has_prefix "$env:" ("$env:" ++ n)) with true; [reflexivity|].
      symmetry. unfold has_prefix. cbn. repeat (destruct (ascii_dec _ _) as [_|F]; [|congruence]). destruct n; reflexivity. }
    destruct fuel; cbn [p2_string]; rewrite I, V; reflexivity.
  Qed.

  (* the environment context binds every variable to a string *)
  Lemma env_ctx_strings env : forall acc, (forall k v, lookup k acc = Some v -> exists s, v = VStr s) ->
    forall k v, lookup k (fold_left (fun acc kv => insert ("$env:" ++ fst kv)%string (VStr (snd kv)) acc) env acc) = Some v -> exists s, v = VStr s.
  Proof.
    induction env as [|[n x] r IH]; intros acc Ha k v H; [now apply (Ha k)|].
    cbn [fold_left fst snd] in H. apply (IH _) in H; [exact H|].
    intros k' v' L. destruct (String.eqb k' ("$env:" ++ n)) eqn:E.
    - apply String.eqb_eq in E. subst. rewrite lookup_insert_eq in L. inversion L. eexists; reflexivity.
    - rewrite lookup_insert_neq in L; [now apply (Ha k')|]. intro; subst; now rewrite String.eqb_refl in E.
  Qed.
End Interp.

(* self-referential interpolation is reported as a circular reference, for every depth limit *)
Lemma interp_self_cycle o S di ec k :
  noclose k -> get_with_var o S di ec k = Ok (VStr ("$""" ++ String "{"%char (k ++ String "}"%char """"))) ->
  is_interp ("$""" ++ String "{"%char (k ++ String "}"%char """")) = true ->
  trim_suffix """" (trim_prefix "$""" ("$""" ++ String "{"%char (k ++ String "}"%char """"))) = String "{"%char (k ++ String "}"%char "") ->
  forall fuel, exists e, p2_string o S di fuel ec ("$""" ++ String "{"%char (k ++ String "}"%char """")) = Err e.
Proof.
  intros Hk Hg Hi Ht. induction fuel as [|f [e IH]]; cbn [p2_string]; rewrite Hi; [eexists; reflexivity|].
  rewrite Ht. change (String "{"%char (k ++ String "}"%char "")) with ("" ++ String "{"%char (k ++ String "}"%char ""))%string.
  rewrite (scan_ref "" EmptyString k "" Logic.I Hk). cbn [map_res bind]. rewrite Hg. cbn [bind]. rewrite IH. cbn [bind]. eexists; reflexivity.
Qed.
