From Coq Require Import String Ascii List Bool Lia.
From Bkl Require Import Model.Value Model.Str Model.Wrapper Proofs.StrProofs.
Import ListNotations.

Lemma wrap_args_length resolve args out : wrap_args resolve args = Some out -> List.length out = List.length args.
Proof.
  revert out. induction args as [|a r IH]; intros out H; cbn in H.
  - inversion H; reflexivity.
  - destruct (resolve a) as [[t|e]|]; try discriminate;
      destruct (wrap_args resolve r) as [r'|]; try discriminate; inversion H; subst; cbn; f_equal; now apply IH.
Qed.

Lemma wrap_length resolve cmd args cmd' args' :
  wrap resolve cmd args = Exec cmd' args' -> cmd' = cmd /\ List.length args' = List.length args.
Proof.
  unfold wrap. destruct (wrap_args resolve args) as [a|] eqn:E; [|discriminate].
  intro H; inversion H; subst. split; [reflexivity|]. now apply wrap_args_length in E.
Qed.

Lemma wrap_args_nth resolve args out i a :
  wrap_args resolve args = Some out -> nth_error args i = Some a ->
  nth_error out i = Some (match resolve a with Some (Ok t) => t | _ => a end).
Proof.
  revert out i. induction args as [|x r IH]; intros out i H Hn; [destruct i; discriminate|].
  cbn in H. destruct (resolve x) as [[t|e]|] eqn:Ex; try discriminate;
    destruct (wrap_args resolve r) as [r'|] eqn:Er; try discriminate; inversion H; subst;
    (destruct i as [|j]; cbn in *; [inversion Hn; subst; rewrite Ex; reflexivity | now apply IH]).
Qed.

Lemma wrap_passthrough resolve cmd args cmd' args' i a :
  wrap resolve cmd args = Exec cmd' args' -> nth_error args i = Some a -> resolve a = None -> nth_error args' i = Some a.
Proof.
  unfold wrap. destruct (wrap_args resolve args) as [o|] eqn:E; [|discriminate].
  intros H Hn Hr; inversion H; subst. rewrite (wrap_args_nth _ _ _ _ _ E Hn), Hr. reflexivity.
Qed.

Lemma wrap_rewritten resolve cmd args cmd' args' i a t :
  wrap resolve cmd args = Exec cmd' args' -> nth_error args i = Some a -> resolve a = Some (Ok t) -> nth_error args' i = Some t.
Proof.
  unfold wrap. destruct (wrap_args resolve args) as [o|] eqn:E; [|discriminate].
  intros H Hn Hr; inversion H; subst. rewrite (wrap_args_nth _ _ _ _ _ E Hn), Hr. reflexivity.
Qed.

Lemma wrap_args_none_iff resolve args :
  wrap_args resolve args = None <-> exists a e, In a args /\ resolve a = Some (Err e).
Proof.
  induction args as [|x r IH]; cbn [wrap_args].
  - split; [discriminate|intros (a & e & [] & _)].
  - destruct (resolve x) as [[t|e]|] eqn:Ex.
    + destruct (wrap_args resolve r) as [r'|] eqn:Er.
      * split; [discriminate|]. intros (a & e & [Ha|Ha] & He).
        -- subst. rewrite Ex in He. discriminate.
        -- exfalso. assert (H : Some r' = None) by (apply IH; eauto). discriminate H.
      * split; [|reflexivity]. intros _. destruct (proj1 IH eq_refl) as (a & e & Ha & He).
        exists a, e. split; [right; exact Ha|exact He].
    + split; [|reflexivity]. intros _. exists x, e. split; [left; reflexivity|exact Ex].
    + destruct (wrap_args resolve r) as [r'|] eqn:Er.
      * split; [discriminate|]. intros (a & e & [Ha|Ha] & He).
        -- subst. rewrite Ex in He. discriminate.
        -- exfalso. assert (H : Some r' = None) by (apply IH; eauto). discriminate H.
      * split; [|reflexivity]. intros _. destruct (proj1 IH eq_refl) as (a & e & Ha & He).
        exists a, e. split; [right; exact Ha|exact He].
Qed.

Lemma wrap_abort_iff resolve cmd args :
  wrap resolve cmd args = Fail <-> exists a e, In a args /\ resolve a = Some (Err e).
Proof.
  unfold wrap. rewrite <- wrap_args_none_iff. destruct (wrap_args resolve args); split; intro H; congruence.
Qed.

Lemma wrapped_name_b n : wrapped_name (n ++ "b") = Some n.
Proof.
  assert (P : has_suffix "b" (n ++ "b") = true).
  { unfold has_suffix. rewrite rev_string_app. change (rev_string "b") with "b"%string.
    cbn [String.append String.prefix]. destruct (ascii_dec "b" "b") as [_|F]; [|congruence].
    destruct (rev_string n); reflexivity. }
  unfold wrapped_name, trim_suffix. rewrite P. f_equal.
  rewrite rev_string_app. change (rev_string "b") with "b"%string.
  cbn [String.append String.length drop]. apply rev_string_involutive.
Qed.
