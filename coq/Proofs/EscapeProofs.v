(* EscapeProofs.v — a string with every dollar doubled is never recognised as a directive. *)
From Coq Require Import String Ascii List ZArith NArith Bool Lia.
From Bkl Require Import Model.Value Model.Merge Model.Str Model.Eval Proofs.MapsProofs Proofs.StrProofs Proofs.PlainProofs.
Import ListNotations.
Local Open Scope string_scope.
Local Open Scope list_scope.

Lemma eqb_dollar_false c : Ascii.eqb c "$"%char = false -> forall x, (if ascii_dec "$"%char c then x else false) = false.
Proof. intros H x. destruct (ascii_dec "$"%char c) as [E|_]; [subst; discriminate H|reflexivity]. Qed.

Lemma escape_shape s :
  escape s = EmptyString \/
  (exists r, escape s = String "$"%char (String "$"%char r)) \/
  (exists c r, escape s = String c r /\ Ascii.eqb c "$"%char = false).
Proof.
  destruct s as [|c r]; [now left|]. right. cbn [escape]. destruct (Ascii.eqb c "$"%char) eqn:E.
  - left. apply Ascii.eqb_eq in E. subst. eexists; reflexivity.
  - right. exists c, (escape r). split; [reflexivity|exact E].
Qed.

Lemma prefix_nondollar p c r : Ascii.eqb c "$"%char = false -> String.prefix (String "$"%char p) (String c r) = false.
Proof. intro H. cbn [String.prefix]. now apply eqb_dollar_false. Qed.

Section Esc.
  Variable o : oracles.

  Lemma escape_plain_str s : plain_str (escape s).
  Proof.
    unfold plain_str, is_interp, is_var_string, has_prefix.
    destruct (escape_shape s) as [E|[[r E]|(c & r & E & Hc)]]; rewrite E.
    - repeat split; reflexivity.
    - repeat split; reflexivity.
    - rewrite !(prefix_nondollar _ c r Hc). cbn [andb orb].
      repeat split; try reflexivity.
      cbn [String.eqb]. rewrite Hc. reflexivity.
  Qed.

  Lemma escape_valid s : validate_string o (escape s) = None.
  Proof.
    unfold validate_string.
    destruct (escape_shape s) as [E|[[r E]|(c & r & E & Hc)]]; rewrite E.
    - reflexivity.
    - reflexivity.
    - cbn [String.eqb]. rewrite Hc. reflexivity.
  Qed.

  Lemma escape_not_directive_key s : ~ In (escape s) directive_keys.
  Proof.
    unfold directive_keys.
    destruct (escape_shape s) as [E|[[r E]|(c & r & E & Hc)]]; rewrite E; cbn [In]; intro H;
      repeat (destruct H as [H|H]; [try discriminate H|]); try contradiction.
    all: inversion H; subst; discriminate Hc.
  Qed.

  Lemma escape_plain_key s : plain_key (escape s).
  Proof. split; [apply escape_plain_str|apply escape_not_directive_key]. Qed.
End Esc.
