(* EscapeProofs.v — a string with every dollar doubled is never recognised as a directive. *)
From Coq Require Import String Ascii List ZArith NArith Bool Lia.
From Bkl Require Import Model.Value Model.Merge Model.Str Model.Eval Proofs.MapsProofs Proofs.StrProofs Proofs.PlainProofs.
Import ListNotations.
Local Open Scope string_scope.
Local Open Scope list_scope.

Lemma eqb_dollar_false c : Ascii.eqb c "$"%char = false -> forall x, (if ascii_dec "$"%char c then x else false) = false.
Proof. intros H x. destruct (ascii_dec "$"%char c) as [E|_]; [subst; discriminate H|reflexivity]. Qed.

Lemma escape_shape s :
  escape s = EmptyString \/
  (exists r, escape s = String "$"%char (String "$"%char r)) \/
  (exists c r, escape s = String c r /\ Ascii.eqb c "$"%char = false).
Proof.
  destruct s as [|c r]; [now left|]. right. cbn [escape]. destruct (Ascii.eqb c "$"%char) eqn:E.
  - left. apply Ascii.eqb_eq in E. subst. eexists; reflexivity.
  - right. exists c, (escape r). split; [reflexivity|exact E].
Qed.

Lemma prefix_nondollar p c r : Ascii.eqb c "$"%char = false -> String.prefix (String "$"%char p) (String c r) = false.
Proof. intro H. cbn [String.prefix]. now apply eqb_dollar_false. Qed.

Section Esc.
  Variable o : oracles.

  Lemma escape_plain_str s : plain_str (escape s).
  Proof.
    unfold plain_str, is_interp, is_var_string, has_prefix.
    destruct (escape_shape s) as [E|[[r E]|(c & r & E & Hc)]]; rewrite E.
    - repeat split; reflexivity.
    - repeat split; reflexivity.
    - rewrite !(prefix_nondollar _ c r Hc). cbn [andb orb].
      repeat split; try reflexivity.
      cbn [String.eqb]. rewrite Hc. reflexivity.
  Qed.

  Lemma escape_valid s : validate_string o (escape s) = None.
  Proof.
    unfold validate_string.
    destruct (escape_shape s) as [E|[[r E]|(c & r & E & Hc)]]; rewrite E.
    - reflexivity.
    - reflexivity.
    - cbn [String.eqb]. rewrite Hc. reflexivity.
  Qed.

  Lemma escape_not_directive_key s : ~ In (escape s) directive_keys.
  Proof.
    unfold directive_keys.
    destruct (escape_shape s) as [E|[[r E]|(c & r & E & Hc)]]; rewrite E; cbn [In]; intro H;
      repeat (destruct H as [H|H]; [try discriminate H|]); try contradiction.
    all: inversion H; subst; discriminate Hc.
  Qed.

  Lemma escape_plain_key s : plain_key (escape s).
  Proof. split; [apply escape_plain_str|apply escape_not_directive_key]. Qed.
End Esc.

(* ---- doubling every dollar in a whole tree ---- *)
Fixpoint esc (v : value) : value :=
  match v with
  | VStr s => VStr (escape s)
  | VList l => VList ((fix go (l : list value) := match l with [] => [] | x :: r => esc x :: go r end) l)
  | VMap m => VMap ((fix go (m : emap) := match m with [] => [] | (k, x) :: r => (escape k, esc x) :: go r end) m)
  | _ => v
  end.
Fixpoint esc_list (l : list value) : list value := match l with [] => [] | x :: r => esc x :: esc_list r end.
Fixpoint esc_map (m : emap) : emap := match m with [] => [] | (k, x) :: r => (escape k, esc x) :: esc_map r end.
Lemma esc_VList l : esc (VList l) = VList (esc_list l). Proof. reflexivity. Qed.
Lemma esc_VMap m : esc (VMap m) = VMap (esc_map m). Proof. reflexivity. Qed.

(* every map of the tree is strictly sorted, before and after escaping (escaping is monotone on byte
   strings; this is stated per input rather than proved, and is checked by the driver's wf test) *)
Fixpoint sorted_both (v : value) : Prop :=
  match v with
  | VList l => (fix go (l : list value) := match l with [] => True | x :: r => sorted_both x /\ go r end) l
  | VMap m => ssorted m /\ ssorted (esc_map m) /\
              (fix go (m : emap) := match m with [] => True | (_, x) :: r => sorted_both x /\ go r end) m
  | _ => True
  end.
Fixpoint sb_list (l : list value) : Prop := match l with [] => True | x :: r => sorted_both x /\ sb_list r end.
Fixpoint sb_map (m : emap) : Prop := match m with [] => True | (_, x) :: r => sorted_both x /\ sb_map r end.
Lemma sorted_both_VList l : sorted_both (VList l) = sb_list l. Proof. reflexivity. Qed.
Lemma sorted_both_VMap m : sorted_both (VMap m) = (ssorted m /\ ssorted (esc_map m) /\ sb_map m). Proof. reflexivity. Qed.

Section EscTree.
  Variable o : oracles.

  Lemma esc_plain v : sorted_both v -> plain (esc v).
  Proof.
    induction v as [| | |g|s|l IH|m IH] using value_ind'; intro H; try exact Logic.I.
    - apply escape_plain_str.
    - rewrite esc_VList. apply plain_VList. rewrite sorted_both_VList in H.
      induction IH as [|x r Hx _ IHr]; [exact Logic.I|]. cbn [sb_list] in H. destruct H as [H1 H2].
      cbn [esc_list plain_list]. split; [now apply Hx|now apply IHr].
    - rewrite esc_VMap. apply plain_VMap. rewrite sorted_both_VMap in H. destruct H as (_ & Hs & H). split; [exact Hs|]. clear Hs.
      induction IH as [|[k x] r Hx _ IHr]; [exact Logic.I|]. cbn [snd] in Hx. cbn [sb_map] in H. destruct H as [H1 H2].
      cbn [esc_map plain_map]. split; [apply escape_plain_key|]. split; [now apply Hx|now apply IHr].
  Qed.

  Lemma esc_valid v : validate_go o (esc v) = None.
  Proof.
    induction v as [| | |g|s|l IH|m IH] using value_ind'; try reflexivity.
    - apply escape_valid.
    - rewrite esc_VList. cbn [validate_go]. induction IH as [|x r Hx _ IHr]; [reflexivity|].
      cbn [esc_list]. rewrite Hx. cbn [join_err]. exact IHr.
    - rewrite esc_VMap. cbn [validate_go]. induction IH as [|[k x] r Hx _ IHr]; [reflexivity|]. cbn [snd] in Hx.
      cbn [esc_map]. rewrite escape_valid, Hx. cbn [join_err]. exact IHr.
  Qed.

  Lemma esc_null_iff v : esc v = VNull <-> v = VNull.
  Proof. destruct v; cbn; split; intro H; try discriminate; reflexivity. Qed.

  Lemma dn_esc v : dn (esc v) = esc (dn v).
  Proof.
    induction v as [| | |g|s|l IH|m IH] using value_ind'; try reflexivity.
    - rewrite esc_VList, !dn_VList, esc_VList. f_equal.
      induction IH as [|x r Hx _ IHr]; [reflexivity|]. cbn [esc_list].
      destruct (value_eq_null x) as [->|Hn]; [exact IHr|].
      assert (E1 : dn_list (esc x :: esc_list r) = dn (esc x) :: dn_list (esc_list r)).
      { destruct x; try reflexivity; congruence. }
      assert (E2 : dn_list (x :: r) = dn x :: dn_list r) by (destruct x; try reflexivity; congruence).
      rewrite E1, E2. cbn [esc_list]. now rewrite Hx, IHr.
    - rewrite esc_VMap, !dn_VMap, esc_VMap. f_equal.
      induction IH as [|[k x] r Hx _ IHr]; [reflexivity|]. cbn [snd] in Hx. cbn [esc_map].
      destruct (value_eq_null x) as [->|Hn]; [exact IHr|].
      assert (E1 : dn_map ((escape k, esc x) :: esc_map r) = (escape k, dn (esc x)) :: dn_map (esc_map r)).
      { destruct x; try reflexivity; congruence. }
      assert (E2 : dn_map ((k, x) :: r) = (k, dn x) :: dn_map r) by (destruct x; try reflexivity; congruence).
      rewrite E1, E2. cbn [esc_map]. now rewrite Hx, IHr.
  Qed.

  Lemma finalize_esc v : sorted_both v -> finalize (esc v) = v.
  Proof.
    induction v as [| | |g|s|l IH|m IH] using value_ind'; intro H; try reflexivity.
    - cbn [esc finalize]. now rewrite unescape_escape.
    - rewrite esc_VList. cbn [finalize]. f_equal. rewrite sorted_both_VList in H.
      induction IH as [|x r Hx _ IHr]; [reflexivity|]. cbn [sb_list] in H. destruct H as [H1 H2].
      cbn [esc_list]. rewrite (Hx H1). f_equal. exact (IHr H2).
    - rewrite esc_VMap. cbn [finalize]. f_equal. rewrite sorted_both_VMap in H. destruct H as (Hs & _ & H).
      match goal with |- ?f (esc_map m) [] = _ =>
        assert (E : forall m' acc, Forall (fun kv => sorted_both (snd kv) -> finalize (esc (snd kv)) = snd kv) m' -> sb_map m' ->
                      f (esc_map m') acc = fold_left (fun a kv => insert (fst kv) (snd kv) a) m' acc) end.
      { induction m' as [|[k x] r IHr]; intros acc Hall Hsb; [reflexivity|]. inversion Hall as [|? ? Hx Hr]; subst. cbn [snd] in Hx.
        cbn [sb_map] in Hsb. destruct Hsb as [H1 H2]. cbn [esc_map].
        match goal with |- ?L = _ => let L' := eval cbv beta iota zeta fix in L in change L with L' end.
        rewrite unescape_escape, (Hx H1). cbn [fold_left fst snd]. now apply IHr. }
      rewrite (E m [] IH H). now rewrite (fold_insert_sorted m [] Hs) by constructor.
  Qed.

  Lemma dn_sorted_both v : sorted_both v -> sorted_both (dn v).
  Proof.
    induction v as [| | |g|s|l IH|m IH] using value_ind'; try exact id.
    - rewrite dn_VList, !sorted_both_VList. induction IH as [|x r Hx _ IHr]; [exact id|]. cbn [sb_list]. intros [H1 H2].
      destruct (value_eq_null x) as [->|Hn]; [now apply IHr|].
      assert (E : dn_list (x :: r) = dn x :: dn_list r) by (destruct x; try reflexivity; congruence).
      rewrite E. cbn [sb_list]. auto.
    - rewrite dn_VMap, !sorted_both_VMap. intros (Hs & Hes & H). split; [now apply dn_map_ssorted|]. split.
      + (* escaping then dropping nulls = dropping nulls then escaping *)
        assert (C : esc_map (dn_map m) = dn_map (esc_map m)).
        { clear. induction m as [|[k x] r IHr]; [reflexivity|].
          destruct (value_eq_null x) as [->|Hn]; [exact IHr|].
          assert (E1 : dn_map ((k, x) :: r) = (k, dn x) :: dn_map r) by (destruct x; try reflexivity; congruence).
          assert (E2 : dn_map (esc_map ((k, x) :: r)) = (escape k, dn (esc x)) :: dn_map (esc_map r)).
          { cbn [esc_map]. destruct x; try reflexivity; congruence. }
          rewrite E1, E2. cbn [esc_map]. now rewrite IHr, dn_esc. }
        rewrite C. now apply dn_map_ssorted.
      + clear Hs Hes. induction IH as [|[k x] r Hx _ IHr]; [exact Logic.I|]. cbn [snd] in Hx. cbn [sb_map] in H. destruct H as [H1 H2].
        destruct (value_eq_null x) as [->|Hn]; [now apply IHr|].
        assert (E : dn_map ((k, x) :: r) = (k, dn x) :: dn_map r) by (destruct x; try reflexivity; congruence).
        rewrite E. cbn [sb_map]. auto.
  Qed.

  Lemma height_esc v : height (esc v) = height v.
  Proof.
    induction v as [| | |g|s|l IH|m IH] using value_ind'; try reflexivity.
    - rewrite esc_VList, !height_VList. do 2 f_equal. induction IH as [|x r Hx _ IHr]; [reflexivity|]. cbn [esc_list height_list]. now rewrite Hx, IHr.
    - rewrite esc_VMap, !height_VMap. do 2 f_equal. induction IH as [|[k x] r Hx _ IHr]; [reflexivity|]. cbn [snd] in Hx. cbn [esc_map height_map]. now rewrite Hx, IHr.
  Qed.

  (* doubling every $ in arbitrary data yields a document that evaluates to exactly the original data *)
  Theorem eval_escaped v : sorted_both v -> height v <= depth_limit ->
    eval_docs o [esc v] = Ok (match v with VNull => [] | _ => [dn v] end).
  Proof.
    intros Hs Hh. rewrite (eval_inert o (esc v) (esc_plain v Hs)) by (now rewrite height_esc).
    destruct (value_eq_null v) as [->|Hn]; [reflexivity|].
    rewrite dn_esc, esc_valid, (finalize_esc (dn v) (dn_sorted_both v Hs)).
    destruct v; try reflexivity; congruence.
  Qed.
End EscTree.

(* ---- escaping is monotone for the byte order, so a sorted map stays sorted ---- *)
Lemma ascii_compare_refl c : Ascii.compare c c = Eq.
Proof. unfold Ascii.compare. apply N.compare_refl. Qed.

Lemma escape_compare : forall a b, String.compare (escape a) (escape b) = String.compare a b.
Proof.
  induction a as [|x a IH]; intro b.
  - destruct b as [|y b]; [reflexivity|]. cbn [escape]. destruct (Ascii.eqb y "$"%char); reflexivity.
  - destruct b as [|y b].
    + cbn [escape]. destruct (Ascii.eqb x "$"%char); reflexivity.
    + cbn [escape]. destruct (Ascii.eqb x "$"%char) eqn:Ex; destruct (Ascii.eqb y "$"%char) eqn:Ey.
      * apply Ascii.eqb_eq in Ex, Ey. subst. cbn [String.compare]. rewrite !ascii_compare_refl. apply IH.
      * apply Ascii.eqb_eq in Ex. subst x. cbn [String.compare].
        destruct (Ascii.compare "$" y) eqn:C; try reflexivity.
        apply Ascii.compare_eq_iff in C. subst y. discriminate Ey.
      * apply Ascii.eqb_eq in Ey. subst y. cbn [String.compare].
        destruct (Ascii.compare x "$") eqn:C; try reflexivity.
        apply Ascii.compare_eq_iff in C. subst x. discriminate Ex.
      * cbn [String.compare]. destruct (Ascii.compare x y); try reflexivity. apply IH.
Qed.

Lemma escape_ltb a b : String.ltb (escape a) (escape b) = String.ltb a b.
Proof. unfold String.ltb. now rewrite escape_compare. Qed.

Lemma esc_map_ssorted m : ssorted m -> ssorted (esc_map m).
Proof.
  induction m as [|[k x] r IH]; [exact id|]. cbn [ssorted esc_map]. intros [Hlt Hs]. split; [|now apply IH].
  clear -Hlt. induction r as [|[k' x'] r' IHr]; [constructor|]. inversion Hlt; subst. cbn [esc_map].
  constructor; [cbn [fst] in *; now rewrite escape_ltb|now apply IHr].
Qed.

(* maps strictly sorted, hereditarily *)
Fixpoint swf (v : value) : Prop :=
  match v with
  | VList l => (fix go (l : list value) := match l with [] => True | x :: r => swf x /\ go r end) l
  | VMap m => ssorted m /\ (fix go (m : emap) := match m with [] => True | (_, x) :: r => swf x /\ go r end) m
  | _ => True
  end.

Lemma swf_sorted_both v : swf v -> sorted_both v.
Proof.
  induction v as [| | |g|s|l IH|m IH] using value_ind'; intro H; try exact Logic.I.
  - rewrite sorted_both_VList. cbn [swf] in H. induction IH as [|x r Hx _ IHr]; [exact Logic.I|].
    destruct H as [H1 H2]. cbn [sb_list]. split; [now apply Hx|now apply IHr].
  - rewrite sorted_both_VMap. cbn [swf] in H. destruct H as [Hs H]. split; [exact Hs|]. split; [now apply esc_map_ssorted|].
    clear Hs. induction IH as [|[k x] r Hx _ IHr]; [exact Logic.I|]. cbn [snd] in Hx. destruct H as [H1 H2].
    cbn [sb_map]. split; [now apply Hx|now apply IHr].
Qed.

(* the escape theorem with the only hypothesis that the data is a well-formed tree of bounded depth *)
Theorem eval_escaped_swf o v : swf v -> height v <= depth_limit ->
  eval_docs o [esc v] = Ok (match v with VNull => [] | _ => [dn v] end).
Proof. intros H Hh. apply eval_escaped; [now apply swf_sorted_both|exact Hh]. Qed.
