From Coq Require Import String Ascii List ZArith Bool Lia.
From Bkl Require Import Model.Value Model.Normalize Model.Stream.
Import ListNotations.
Local Open Scope string_scope.
Local Open Scope list_scope.

Theorem normalize_arrives f v : normalize (arrives f v) = Ok v.
Proof.
  induction v as [| | |g|s|l IH|m IH] using value_ind'; try (destruct f; reflexivity).
  - destruct f; cbn [arrives normalize]; try reflexivity.
    destruct (Z.leb (-2147483648) z && Z.leb z 2147483647)%bool; reflexivity.
  - cbn [arrives normalize].
    match goal with |- bind ?t _ = _ => assert (E : t = Ok l) end.
    { induction IH as [|x xs Hx _ IHxs]; [reflexivity|]. rewrite Hx. cbn [bind]. rewrite IHxs. reflexivity. }
    rewrite E. reflexivity.
  - cbn [arrives normalize].
    match goal with |- bind ?t _ = _ => assert (E : t = Ok m) end.
    { induction IH as [|[k x] xs Hx _ IHxs]; [reflexivity|]. cbn [snd] in Hx. rewrite Hx. cbn [bind]. rewrite IHxs. reflexivity. }
    rewrite E. reflexivity.
Qed.

Lemma split_docs_app_nosep toml d rest cur :
  no_sep_line toml d = true -> split_docs toml (d ++ rest) cur = split_docs toml rest (rev d ++ cur).
Proof.
  revert cur. induction d as [|l r IH]; intros cur H; [reflexivity|].
  cbn [no_sep_line forallb] in H. apply andb_prop in H as [Hl Hr]. cbn [app split_docs].
  destruct (is_sep toml l); [discriminate|]. rewrite IH by exact Hr. cbn [rev]. rewrite <- app_assoc. reflexivity.
Qed.

Theorem split_join toml docs :
  docs <> [] -> forallb (no_sep_line toml) docs = true -> split_docs toml (join_docs docs) [] = docs.
Proof.
  induction docs as [|d r IH]; intros Hne H; [congruence|].
  cbn [forallb] in H. apply andb_prop in H as [Hd Hr].
  destruct r as [|d2 r2].
  - cbn [join_docs]. rewrite <- (app_nil_r d) at 1. rewrite split_docs_app_nosep by exact Hd.
    cbn [split_docs]. rewrite app_nil_r, rev_involutive. reflexivity.
  - change (join_docs (d :: d2 :: r2)) with (d ++ "---" :: join_docs (d2 :: r2)).
    rewrite split_docs_app_nosep by exact Hd.
    assert (S : is_sep toml "---" = true) by reflexivity.
    change (split_docs toml ("---" :: join_docs (d2 :: r2)) (rev d ++ []))
      with (if is_sep toml "---" then rev (rev d ++ []) :: split_docs toml (join_docs (d2 :: r2)) []
            else split_docs toml (join_docs (d2 :: r2)) ("---" :: rev d ++ [])).
    rewrite S, app_nil_r, rev_involutive. f_equal. apply IH; [discriminate|exact Hr].
Qed.

(* ---- a whole stream: what is written reads back, given that each document's text does ----
   [enc]/[dec] stand for the per-document encoder and decoder of one format (third-party code: the oracles of the
   check); the two hypotheses are exactly what the per-run comparison establishes for the documents it generates. *)
Section StreamRoundTrip.
  Variable toml : bool.
  Variable enc : value -> list string.
  Variable dec : list string -> res value.

  Definition write_stream (docs : list value) : list string := join_docs (map enc docs).
  Definition read_stream (lines : list string) : res (list value) := map_res dec (split_docs toml lines []).

  (* the premises are asked of the documents of THIS stream only: each one's text decodes back to it and holds no
     separator line *)
  Theorem stream_roundtrip docs : docs <> [] ->
    Forall (fun d => dec (enc d) = Ok d /\ no_sep_line toml (enc d) = true) docs ->
    read_stream (write_stream docs) = Ok docs.
  Proof.
    intros Hne Hall. unfold read_stream, write_stream. rewrite split_join.
    - clear Hne. induction Hall as [|d r [Hd _] _ IH]; [reflexivity|]. cbn [map map_res]. rewrite Hd. cbn [bind].
      rewrite IH. reflexivity.
    - destruct docs; [congruence|discriminate].
    - clear Hne. induction Hall as [|d r [_ Hs] _ IH]; [reflexivity|]. cbn [map forallb]. now rewrite Hs, IH.
  Qed.

  (* and the number of documents is preserved exactly: none dropped, none invented *)
  Corollary stream_count docs l : docs <> [] ->
    Forall (fun d => dec (enc d) = Ok d /\ no_sep_line toml (enc d) = true) docs ->
    read_stream (write_stream docs) = Ok l -> List.length l = List.length docs.
  Proof. intros Hne Hall H. rewrite (stream_roundtrip docs Hne Hall) in H. inversion H. reflexivity. Qed.
End StreamRoundTrip.
