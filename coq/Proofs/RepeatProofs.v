(* RepeatProofs.v — $repeat expansion enumerates exactly the index combinations, in lexicographic order. *)
From Coq Require Import String Ascii List ZArith Bool Lia.
From Bkl Require Import Model.Value Model.Merge Model.Str Model.Eval Proofs.MapsProofs.
Import ListNotations.
Local Open Scope string_scope.
Local Open Scope list_scope.

Lemma count_up_spec k : forall i, count_up k i = map (fun j => (i + Z.of_nat j)%Z) (seq 0 k).
Proof.
  induction k as [|k IH]; intro i; [reflexivity|]. cbn [count_up seq map]. rewrite Z.add_0_r. f_equal.
  rewrite IH, <- seq_shift, map_map. apply map_ext. intro j. lia.
Qed.

(* range n = 0, 1, ..., n-1 (empty for n <= 0) *)
Lemma range_spec n : range n = map Z.of_nat (seq 0 (Z.to_nat n)).
Proof. unfold range. rewrite count_up_spec. apply map_ext. intro j. lia. Qed.

Lemma range_length n : List.length (range n) = Z.to_nat n.
Proof. rewrite range_spec, map_length, seq_length. reflexivity. Qed.

Lemma range_nonpos n : (n <= 0)%Z -> range n = [].
Proof. intro H. unfold range. replace (Z.to_nat n) with 0 by lia. reflexivity. Qed.

(* named counts *)
Fixpoint lex (rs : list (string * Z)) : list (list (string * Z)) :=
  match rs with
  | [] => [[]]
  | (n, c) :: r => flat_map (fun i => map (cons (n, i)) (lex r)) (range c)
  end.

Definition bind_idx (idx : list (string * Z)) (ec : ectx) : ectx :=
  fold_left (fun e ni => insert ("$repeat:" ++ fst ni)%string (VInt (snd ni)) e) idx ec.

Definition int_counts (rs : emap) : option (list (string * Z)) :=
  fold_right (fun kv acc => match snd kv, acc with VInt c, Some l => Some ((fst kv, c) :: l) | _, _ => None end) (Some []) rs.

Lemma map_flat_map {A B C} (f : B -> C) (g : A -> list B) l : map f (flat_map g l) = flat_map (fun x => map f (g x)) l.
Proof. induction l as [|x r IH]; [reflexivity|]. cbn. now rewrite map_app, IH. Qed.

Lemma flat_map_flat_map {A B C} (f : B -> list C) (g : A -> list B) l : flat_map f (flat_map g l) = flat_map (fun x => flat_map f (g x)) l.
Proof. induction l as [|x r IH]; [reflexivity|]. cbn. now rewrite flat_map_app, IH. Qed.

Lemma flat_map_map {A B C} (f : B -> list C) (g : A -> B) l : flat_map f (map g l) = flat_map (fun x => f (g x)) l.
Proof. induction l as [|x r IH]; [reflexivity|]. cbn. now rewrite IH. Qed.

Lemma flat_map_ext' {A B} (f g : A -> list B) l : (forall x, f x = g x) -> flat_map f l = flat_map g l.
Proof. intro H. induction l as [|x r IH]; [reflexivity|]. cbn. now rewrite H, IH. Qed.

Definition expand (rs : list (string * Z)) (ds : list (value * ectx)) : list (value * ectx) :=
  flat_map (fun de => map (fun idx => (fst de, bind_idx idx (snd de))) (lex rs)) ds.

Lemma repeat_fold_spec rs : forall ics ds, int_counts rs = Some ics ->
  fold_left (fun acc kv =>
      do ds <- acc;
      match snd kv with
      | VInt c => Ok (flat_map (fun de => repeat_from_int (fst de) (snd de) ("$repeat:" ++ fst kv)%string c) ds)
      | _ => Err EInvalidRepeat
      end) rs (Ok ds) = Ok (expand ics ds).
Proof.
  induction rs as [|[n v] r IH]; intros ics ds H.
  - cbn in H. inversion H; subst. cbn [fold_left]. unfold expand. cbn [lex map]. f_equal.
    induction ds as [|[d e] t IHt]; [reflexivity|]. cbn [flat_map map app fst snd]. unfold bind_idx at 1. cbn [fold_left]. now f_equal.
  - cbn [int_counts fold_right snd fst] in H. fold (int_counts r) in H.
    destruct v as [| |c| | | |]; try discriminate H. destruct (int_counts r) as [l|] eqn:E; [|discriminate H].
    inversion H; subst ics. cbn [fold_left bind snd fst]. rewrite (IH l _ eq_refl). f_equal.
    unfold expand. cbn [lex]. rewrite flat_map_flat_map. apply flat_map_ext'. intros [d e]. cbn [fst snd].
    unfold repeat_from_int. rewrite flat_map_map. rewrite map_flat_map. apply flat_map_ext'. intro i. cbn [fst snd].
    rewrite map_map. reflexivity.
Qed.

(* a map of named counts yields the full product, in lexicographic order of the (sorted) names, each combination
   bound as $repeat:<name> *)
Theorem repeat_gen_named d ec rs ics : int_counts rs = Some ics ->
  repeat_gen d ec (VMap rs) =
    Ok (map (fun idx => (d, bind_idx idx (fold_left (fun acc kv => insert ("$repeat." ++ fst kv)%string (snd kv) acc) rs ec))) (lex ics)).
Proof.
  intro H. cbn [repeat_gen]. rewrite (repeat_fold_spec rs ics _ H). unfold expand. cbn [flat_map fst snd]. now rewrite app_nil_r.
Qed.

Theorem repeat_gen_int d ec n :
  repeat_gen d ec (VInt n) = Ok (map (fun i => (d, insert "$repeat" (VInt i) ec)) (range n)).
Proof. reflexivity. Qed.

Lemma fold_err_stays {A B} (f : res A -> B -> res A) (Hf : forall b e, f (Err e) b = Err e) l e : fold_left f l (Err e) = Err e.
Proof. induction l as [|x r IH]; [reflexivity|]. cbn. now rewrite Hf. Qed.

Theorem repeat_gen_not_int d ec v :
  match v with VInt _ | VMap _ => False | _ => True end -> repeat_gen d ec v = Err EInvalidRepeat.
Proof. destruct v; try contradiction; reflexivity. Qed.

Theorem repeat_gen_named_not_int d ec rs : int_counts rs = None -> repeat_gen d ec (VMap rs) = Err EInvalidRepeat.
Proof.
  intro H. cbn [repeat_gen]. generalize (fold_left (fun acc kv => insert ("$repeat." ++ fst kv)%string (snd kv) acc) rs ec). intro ec1.
  generalize [(d, ec1)]. induction rs as [|[n v] r IH]; intro ds; [discriminate H|].
  cbn [int_counts fold_right snd fst] in H. fold (int_counts r) in H. cbn [fold_left bind snd fst].
  destruct v as [| |c| | | |]; try (apply fold_err_stays; intros; reflexivity).
  destruct (int_counts r) eqn:E; [discriminate H|]. now apply IH.
Qed.

Lemma lex_length ics : List.length (lex ics) = fold_right (fun nc acc => Z.to_nat (snd nc) * acc) 1 ics.
Proof.
  induction ics as [|[n c] r IH]; [reflexivity|]. cbn [lex fold_right snd].
  rewrite <- IH, <- (range_length c). generalize (range c). intro l.
  induction l as [|i t IHt]; [reflexivity|]. cbn [flat_map]. rewrite app_length, map_length, IHt. cbn. lia.
Qed.
