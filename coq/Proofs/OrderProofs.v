(* OrderProofs.v — the byte order on strings is a strict total order; sorted maps are canonical. *)
From Coq Require Import String Ascii List ZArith NArith Bool Lia.
From Bkl Require Import Model.Value Proofs.MapsProofs.
Import ListNotations.

Lemma ascii_compare_lt_trans a b c : Ascii.compare a b = Lt -> Ascii.compare b c = Lt -> Ascii.compare a c = Lt.
Proof. unfold Ascii.compare. rewrite !N.compare_lt_iff. lia. Qed.

Lemma ascii_compare_eq a b : Ascii.compare a b = Eq -> a = b.
Proof. apply Ascii.compare_eq_iff. Qed.

Lemma compare_lt_trans : forall a b c, String.compare a b = Lt -> String.compare b c = Lt -> String.compare a c = Lt.
Proof.
  induction a as [|x a IH]; intros b c H1 H2.
  - destruct b as [|y b]; [discriminate|]. destruct c as [|z c]; [discriminate|reflexivity].
  - destruct b as [|y b]; [discriminate|]. destruct c as [|z c].
    + discriminate.
    + cbn in *. destruct (Ascii.compare x y) eqn:Exy; try discriminate.
      * apply ascii_compare_eq in Exy. subst y. destruct (Ascii.compare x z) eqn:Exz; try discriminate; [|reflexivity].
        now apply (IH b c).
      * destruct (Ascii.compare y z) eqn:Eyz; try discriminate.
        -- apply ascii_compare_eq in Eyz. subst z. now rewrite Exy.
        -- now rewrite (ascii_compare_lt_trans x y z Exy Eyz).
Qed.

Lemma ltb_trans a b c : String.ltb a b = true -> String.ltb b c = true -> String.ltb a c = true.
Proof.
  unfold String.ltb. destruct (String.compare a b) eqn:E1; try discriminate.
  destruct (String.compare b c) eqn:E2; try discriminate. intros _ _. now rewrite (compare_lt_trans a b c E1 E2).
Qed.

Lemma ltb_irrefl a : String.ltb a a = false.
Proof. unfold String.ltb. now rewrite compare_eq_refl. Qed.

Lemma ltb_asym a b : String.ltb a b = true -> String.ltb b a = false.
Proof. unfold String.ltb. rewrite (String.compare_antisym b a). destruct (String.compare a b); cbn; congruence. Qed.

Lemma compare_Lt_ltb a b : String.compare a b = Lt -> String.ltb a b = true.
Proof. unfold String.ltb. now intros ->. Qed.

Lemma compare_Gt_ltb a b : String.compare a b = Gt -> String.ltb b a = true.
Proof. unfold String.ltb. rewrite (String.compare_antisym b a). now intros ->. Qed.

(* insert keeps a strictly sorted map strictly sorted *)
Lemma insert_keys_bound k v m k0 :
  String.ltb k0 k = true -> Forall (fun kv => String.ltb k0 (fst kv) = true) m ->
  Forall (fun kv => String.ltb k0 (fst kv) = true) (insert k v m).
Proof.
  intros Hk. induction m as [|[k' v'] r IH]; intro H; cbn [insert].
  - constructor; [exact Hk|constructor].
  - inversion H as [|? ? Hk' Hr]; subst. destruct (String.compare k k').
    + constructor; [exact Hk|exact Hr].
    + constructor; [exact Hk|exact H].
    + constructor; [exact Hk'|now apply IH].
Qed.

Lemma ssorted_insert k v m : ssorted m -> ssorted (insert k v m).
Proof.
  induction m as [|[k' v'] r IH]; intro H; cbn [insert].
  - cbn. split; constructor.
  - cbn [ssorted] in H. destruct H as [Hlt Hs]. destruct (String.compare k k') eqn:C.
    + apply String.compare_eq_iff in C. subst k'. cbn [ssorted]. split; assumption.
    + cbn [ssorted]. split; [|split; assumption].
      constructor; [now apply compare_Lt_ltb|].
      eapply Forall_impl; [|exact Hlt]. intros kv Hkv. eapply ltb_trans; [apply compare_Lt_ltb; exact C|exact Hkv].
    + cbn [ssorted]. split; [|now apply IH].
      apply insert_keys_bound; [now apply compare_Gt_ltb|exact Hlt].
Qed.

Lemma ssorted_remove k m : ssorted m -> ssorted (remove k m).
Proof.
  induction m as [|[k' v'] r IH]; intro H; cbn [remove]; [exact H|].
  cbn [ssorted] in H. destruct H as [Hlt Hs]. destruct (String.eqb k k'); [now apply IH|].
  cbn [ssorted]. split; [|now apply IH].
  clear -Hlt. induction r as [|[k2 v2] r2 IHr]; cbn [remove]; [constructor|].
  inversion Hlt; subst. destruct (String.eqb k k2); [now apply IHr|]. constructor; [assumption|now apply IHr].
Qed.

Lemma lookup_lt_none k (m : emap) : Forall (fun kv => String.ltb k (fst kv) = true) m -> lookup k m = None.
Proof.
  induction m as [|[k' v'] r IH]; intro H; [reflexivity|]. inversion H; subst. cbn [lookup fst] in *.
  destruct (String.eqb k k') eqn:E; [|now apply IH].
  apply String.eqb_eq in E. subst. now rewrite ltb_irrefl in H2.
Qed.

(* two strictly sorted maps with the same lookup function are the same list *)
Lemma ssorted_ext m1 : forall m2, ssorted m1 -> ssorted m2 -> (forall k, lookup k m1 = lookup k m2) -> m1 = m2.
Proof.
  induction m1 as [|[k1 v1] r1 IH]; intros m2 H1 H2 Hl.
  - destruct m2 as [|[k2 v2] r2]; [reflexivity|]. specialize (Hl k2). cbn in Hl. now rewrite String.eqb_refl in Hl.
  - destruct m2 as [|[k2 v2] r2]; [specialize (Hl k1); cbn in Hl; now rewrite String.eqb_refl in Hl|].
    cbn [ssorted] in H1, H2. destruct H1 as [L1 S1]. destruct H2 as [L2 S2].
    assert (Ek : k1 = k2).
    { pose proof (Hl k1) as A. pose proof (Hl k2) as B. cbn [lookup] in A, B. rewrite String.eqb_refl in A, B.
      destruct (String.eqb k1 k2) eqn:E; [now apply String.eqb_eq|]. exfalso.
      rewrite String.eqb_sym, E in B.
      symmetry in A. apply lookup_In in A. apply lookup_In in B.
      rewrite Forall_forall in L1, L2. pose proof (L2 _ A) as P. pose proof (L1 _ B) as Q. cbn in P, Q.
      rewrite (ltb_asym _ _ P) in Q. discriminate. }
    subst k2. pose proof (Hl k1) as A. cbn [lookup] in A. rewrite String.eqb_refl in A. inversion A; subst v2.
    f_equal. apply IH; try assumption. intro k. pose proof (Hl k) as B. cbn [lookup] in B.
    destruct (String.eqb k k1) eqn:E; [|exact B].
    apply String.eqb_eq in E. subst. now rewrite (lookup_lt_none k1 r1 L1), (lookup_lt_none k1 r2 L2).
Qed.
