(* ToolsProofs.v — bkli (intersect) and bkld (diff) over map-rooted, null-free, $-free trees. *)
From Coq Require Import String Ascii List ZArith Bool Lia.
From Bkl Require Import Model.Value Model.Merge Model.Str Model.Tools
  Proofs.MapsProofs Proofs.OrderProofs Proofs.MergeProofs.

Lemma value_eq_null (x : value) : {x = VNull} + {x <> VNull}.
Proof. destruct x; (left; reflexivity) || (right; discriminate). Qed.
Import ListNotations.
Local Open Scope string_scope.
Local Open Scope list_scope.

(* ---- deep equality ---- *)
Lemma scalar_eqb_refl v : match v with VList _ | VMap _ => True | _ => scalar_eqb v v = true end.
Proof. destruct v; cbn; auto using Z.eqb_refl, String.eqb_refl. destruct b; reflexivity. Qed.

Lemma deep_eqb_refl v : deep_eqb v v = true.
Proof.
  induction v as [| |z|g|s|l IH|m IH] using value_ind'; try reflexivity.
  - destruct b; reflexivity.
  - cbn. apply Z.eqb_refl.
  - cbn. apply String.eqb_refl.
  - cbn. apply String.eqb_refl.
  - cbn [deep_eqb]. induction IH as [|x r Hx _ IHr]; [reflexivity|]. now rewrite Hx, IHr.
  - cbn [deep_eqb]. induction IH as [|[k x] r Hx _ IHr]; [reflexivity|]. cbn [snd] in Hx. now rewrite String.eqb_refl, Hx, IHr.
Qed.

Lemma scalar_eqb_eq a b : scalar_eqb a b = true -> a = b.
Proof.
  destruct a, b; cbn; try discriminate; intro H; try reflexivity.
  - f_equal. now apply Bool.eqb_prop.
  - f_equal. now apply Z.eqb_eq.
  - f_equal. now apply String.eqb_eq.
  - f_equal. now apply String.eqb_eq.
Qed.

Lemma deep_eqb_eq a : forall b, deep_eqb a b = true -> a = b.
Proof.
  induction a as [|bb|z|g|s|l IH|m IH] using value_ind'; intros b H;
    try (destruct b; try discriminate H; now apply scalar_eqb_eq).
  - destruct b as [| | | | |l2|]; try discriminate H. f_equal. cbn [deep_eqb] in H.
    revert l2 H. induction IH as [|x r Hx _ IHr]; intros l2 H; destruct l2 as [|y r2]; try discriminate H; [reflexivity|].
    apply andb_prop in H as [H1 H2]. f_equal; [now apply Hx|now apply IHr].
  - destruct b as [| | | | | |m2]; try discriminate H. f_equal. cbn [deep_eqb] in H.
    revert m2 H. induction IH as [|[k x] r Hx _ IHr]; intros m2 H; destruct m2 as [|[k2 y] r2]; try discriminate H; [reflexivity|].
    cbn [snd] in Hx. apply andb_prop in H as [H12 H3]. apply andb_prop in H12 as [H1 H2].
    apply String.eqb_eq in H1. subst. f_equal; [f_equal; now apply Hx|now apply IHr].
Qed.

(* ---- the domain: null-free, $-free, strictly sorted maps ---- *)
Definition nodollar (s : string) : Prop := has_prefix "$" s = false.

Fixpoint dfree (v : value) : Prop :=
  match v with
  | VNull => False
  | VStr s => nodollar s
  | VList l => (fix go (l : list value) := match l with [] => True | x :: r => dfree x /\ go r end) l
  | VMap m => ssorted m /\ (fix go (m : emap) := match m with [] => True | (k, x) :: r => nodollar k /\ dfree x /\ go r end) m
  | _ => True
  end.
Fixpoint dfree_list (l : list value) : Prop := match l with [] => True | x :: r => dfree x /\ dfree_list r end.
Fixpoint dfree_map (m : emap) : Prop := match m with [] => True | (k, x) :: r => nodollar k /\ dfree x /\ dfree_map r end.
Lemma dfree_VList l : dfree (VList l) = dfree_list l. Proof. reflexivity. Qed.
Lemma dfree_VMap m : dfree (VMap m) = (ssorted m /\ dfree_map m). Proof. reflexivity. Qed.

Lemma dfree_not_null v : dfree v -> v <> VNull.
Proof. destruct v; cbn; congruence || tauto. Qed.

Lemma dfree_map_In m k x : dfree_map m -> In (k, x) m -> nodollar k /\ dfree x.
Proof. induction m as [|[k' x'] r IH]; cbn; [tauto|]. intros (H1 & H2 & H3) [E|Hin]; [inversion E; subst; tauto|now apply IH]. Qed.

Definition map_of_value (v : value) : emap := match v with VMap m => m | _ => [] end.

(* ---- bkli ---- *)
Lemma remove_first_head x r : remove_first x (x :: r) = Some r.
Proof. cbn. now rewrite deep_eqb_refl. Qed.

Lemma list_inter_self l : list_inter l l = l.
Proof. induction l as [|x r IH]; [reflexivity|]. cbn [list_inter]. rewrite remove_first_head. now rewrite IH. Qed.

(* intersecting a document with itself returns that document *)
Theorem intersect_idempotent a : dfree a -> intersect a a = a.
Proof.
  induction a as [| |z|g|s|l IH|m IH] using value_ind'; intro H; try contradiction; try reflexivity.
  - destruct b; reflexivity.
  - cbn. now rewrite Z.eqb_refl.
  - cbn. now rewrite String.eqb_refl.
  - cbn. now rewrite String.eqb_refl.
  - cbn [intersect is_null]. rewrite list_inter_self. destruct l; reflexivity.
  - cbn [intersect is_null]. f_equal. rewrite dfree_VMap in H. destruct H as [Hs Hd].
    pose proof (ssorted_NoDup m Hs) as ND.
    assert (G : forall m', (forall k x, In (k, x) m' -> lookup k m = Some x) ->
                  Forall (fun kv => dfree (snd kv) -> intersect (snd kv) (snd kv) = snd kv) m' -> dfree_map m' ->
                  (fix go (am : emap) : emap :=
                     match am with
                     | [] => []
                     | (k, v) :: r =>
                         match lookup k m with
                         | None => go r
                         | Some v2 => if is_null v && is_null v2 then (k, VNull) :: go r
                                      else match intersect v v2 with VNull => go r | x => (k, x) :: go r end
                         end
                     end) m' = m').
    { induction m' as [|[k x] r IHr]; intros Hin Hall Hdm; [reflexivity|].
      inversion Hall as [|? ? Hx Hr]; subst. cbn [snd] in Hx. cbn [dfree_map] in Hdm. destruct Hdm as (_ & Hdx & Hdr).
      rewrite (Hin k x (or_introl eq_refl)). pose proof (dfree_not_null x Hdx) as Hnn.
      assert (N : is_null x = false) by (destruct x; try reflexivity; congruence). rewrite N. cbn [andb].
      rewrite (Hx Hdx). rewrite IHr; [|intros; apply Hin; now right|exact Hr|exact Hdr].
      destruct x; try reflexivity; congruence. }
    apply G; [|exact IH|exact Hd]. intros k x Hin. now apply NoDup_keys_lookup.
Qed.

(* what bkli keeps of a list occurs in both inputs *)
Lemma remove_first_In x l l' : remove_first x l = Some l' -> exists y, In y l /\ deep_eqb x y = true.
Proof.
  revert l'. induction l as [|y r IH]; intros l' H; [discriminate|]. cbn in H.
  destruct (deep_eqb x y) eqn:E; [exists y; split; [now left|exact E]|].
  destruct (remove_first x r) as [r'|] eqn:Er; [|discriminate]. destruct (IH r' eq_refl) as (z & Hz & Ez). exists z. split; [now right|exact Ez].
Qed.

Theorem list_inter_common a : forall b x, In x (list_inter a b) -> In x a /\ In x b.
Proof.
  induction a as [|y r IH]; intros b x H; [contradiction|]. cbn [list_inter] in H.
  destruct (remove_first y b) as [b'|] eqn:E.
  - destruct H as [->|H].
    + split; [now left|]. destruct (remove_first_In _ _ _ E) as (z & Hz & Ez). apply deep_eqb_eq in Ez. now subst.
    + destruct (IH b' x H) as [H1 H2]. split; [now right|].
      clear -E H2. revert b' E H2. induction b as [|z bz IHb]; intros b' E H2; [discriminate|]. cbn in E.
      destruct (deep_eqb y z); [inversion E; subst; now right|].
      destruct (remove_first y bz) as [b2|] eqn:E2; [|discriminate]. inversion E; subst.
      destruct H2 as [->|H2]; [now left|right; now apply (IHb b2)].
  - destruct (IH b x H) as [H1 H2]. split; [now right|exact H2].
Qed.

(* a key kept by bkli is present in both inputs, and its value is their intersection *)
Theorem intersect_map_keys am bm k x : In (k, x) (map_of_value (intersect (VMap am) (VMap bm))) ->
  exists va vb, In (k, va) am /\ lookup k bm = Some vb /\ (x = intersect va vb \/ (x = VNull /\ va = VNull /\ vb = VNull)).
Proof.
  cbn [intersect is_null map_of_value].
  induction am as [|[k0 v0] r IH]; intro H; [contradiction|].
  destruct (lookup k0 bm) as [v2|] eqn:L.
  - destruct (is_null v0 && is_null v2) eqn:N.
    + destruct H as [E|H].
      * inversion E; subst. apply andb_prop in N as [N1 N2]. destruct v0, v2; try discriminate.
        exists VNull, VNull. split; [now left|]. split; [exact L|]. right. auto.
      * destruct (IH H) as (va & vb & Ha & Hb & Hx). exists va, vb. split; [now right|]. auto.
    + destruct (intersect v0 v2) eqn:I;
        try (destruct H as [E|H]; [inversion E; subst; exists v0, v2; split; [now left|]; split; [exact L|]; left; now rewrite I
                                  |destruct (IH H) as (va & vb & Ha & Hb & Hx); exists va, vb; split; [now right|]; auto]).
      destruct (IH H) as (va & vb & Ha & Hb & Hx). exists va, vb. split; [now right|]. auto.
  - destruct (IH H) as (va & vb & Ha & Hb & Hx). exists va, vb. split; [now right|]. auto.
Qed.

(* the converse - maximality on maps: a key present in both inputs is dropped only when the intersection of its two
   values is empty (null); otherwise it is kept with exactly that intersection (null on both sides stays a null entry) *)
Theorem intersect_map_complete am bm k va vb : In (k, va) am -> lookup k bm = Some vb ->
  (is_null va && is_null vb = true -> In (k, VNull) (map_of_value (intersect (VMap am) (VMap bm)))) /\
  (is_null va && is_null vb = false -> intersect va vb <> VNull ->
     In (k, intersect va vb) (map_of_value (intersect (VMap am) (VMap bm)))).
Proof.
  cbn [intersect is_null map_of_value].
  induction am as [|[k0 v0] r IH]; intros Hin Hb; [contradiction|].
  destruct Hin as [E|Hin].
  - inversion E; subst k0 v0. rewrite Hb. split; intro N.
    + rewrite N. now left.
    + intro NZ. rewrite N. destruct (intersect va vb) eqn:I; try (now left). congruence.
  - destruct (IH Hin Hb) as [I1 I2].
    assert (W : forall e rest, (In e rest) -> In e (match lookup k0 bm with
              | None => rest
              | Some v2 => if is_null v0 && is_null v2 then (k0, VNull) :: rest
                           else match intersect v0 v2 with VNull => rest | x => (k0, x) :: rest end end)).
    { intros e rest He. destruct (lookup k0 bm) as [v2|]; [|exact He].
      destruct (is_null v0 && is_null v2); [now right|]. destruct (intersect v0 v2); try (now right); exact He. }
    split; intros; apply W; auto.
Qed.

(* ---- bkld ---- *)
Lemma nodollar_not_delete v : dfree v -> is_str v "$delete" = false.
Proof.
  destruct v; try reflexivity. cbn. intro H. destruct (String.eqb s "$delete") eqn:E; [|reflexivity].
  apply String.eqb_eq in E. subst. discriminate H.
Qed.

Lemma dfree_map_no_dollar_key m k : dfree_map m -> has_prefix "$" k = true -> lookup k m = None.
Proof.
  intros Hd Hk. induction m as [|[k' x] r IH]; [reflexivity|]. cbn [dfree_map] in Hd. destruct Hd as (Hn & _ & Hr).
  cbn [lookup]. destruct (String.eqb k k') eqn:E; [|now apply IH].
  apply String.eqb_eq in E. subst. unfold nodollar in Hn. congruence.
Qed.

Lemma remove_insert_absent k v m : ssorted m -> lookup k m = None -> remove k (insert k v m) = m.
Proof.
  intros Hs Hl. apply ssorted_ext; [apply ssorted_remove, ssorted_insert, Hs|exact Hs|].
  intro k0. destruct (String.eqb k0 k) eqn:E.
  - apply String.eqb_eq in E. subst. now rewrite lookup_remove_eq.
  - assert (N : k0 <> k) by (intro; subst; now rewrite String.eqb_refl in E).
    now rewrite (lookup_remove_neq k k0 _ N), (lookup_insert_neq k k0 v m N).
Qed.

Lemma merge_entries_ssorted s : forall acc r, ssorted acc -> merge_entries false s acc = Ok r -> ssorted r.
Proof.
  induction s as [|[k v] rest IH]; intros acc r Hs H; cbn [merge_entries andb] in H.
  - now inversion H; subst.
  - destruct (lookup k acc) as [e|].
    + destruct (is_str v "$delete"); [apply (IH _ _ (ssorted_remove k acc Hs) H)|].
      destruct (merge e v false) as [v2|]; [|discriminate]. cbn [bind] in H. apply (IH _ _ (ssorted_insert k v2 acc Hs) H).
    + destruct (is_str v "$delete"); [discriminate|]. apply (IH _ _ (ssorted_insert k v acc Hs) H).
Qed.

Definition nn_some (d : value) : option value := match d with VNull => None | x => Some x end.
Lemma nn_some_nonnull d : d <> VNull -> nn_some d = Some d.
Proof. destruct d; cbn; congruence. Qed.

(* the entries bkld emits for a map whose values can all be patched in place *)
Fixpoint changed_entries (dm sm : emap) : emap :=
  match dm with
  | [] => []
  | (k, v) :: r =>
      match lookup k sm with
      | None => (k, v) :: changed_entries r sm
      | Some v2 => match diff v v2 with VNull => changed_entries r sm | v3 => (k, v3) :: changed_entries r sm end
      end
  end.

Definition deleted_entries (dm sm : emap) : emap :=
  fold_left (fun acc kv => if has_key (fst kv) dm then acc else insert (fst kv) (VStr "$delete") acc) sm (changed_entries dm sm).

Lemma diff_map_map dm sm :
  diff (VMap dm) (VMap sm) =
    if existsb (fun kv => match lookup (fst kv) sm with Some v2 => negb (patchable (snd kv) v2) | None => false end) dm
    then VMap (insert "$replace" (VBool true) dm)
    else match deleted_entries dm sm with [] => VNull | r => VMap r end.
Proof.
  cbn [diff]. destruct (existsb _ dm); [reflexivity|]. unfold deleted_entries.
  match goal with |- context [fold_left _ sm (?f dm)] => assert (E : forall dm', f dm' = changed_entries dm' sm) end.
  { induction dm' as [|[k v] r IH]; [reflexivity|].
    match goal with |- ?L = _ => let L' := eval cbv beta iota zeta fix in L in change L with L' end.
    cbn [changed_entries]. destruct (lookup k sm) as [v2|]; [|now rewrite IH].
    destruct (diff v v2); now rewrite IH. }
  rewrite E. destruct (fold_left _ sm (changed_entries dm sm)); reflexivity.
Qed.

Lemma changed_keys_sub dm sm k x : In (k, x) (changed_entries dm sm) -> exists v, In (k, v) dm.
Proof.
  induction dm as [|[k0 v0] r IH]; intro H; [contradiction|]. cbn [changed_entries] in H.
  destruct (lookup k0 sm) as [v2|].
  - destruct (diff v0 v2) eqn:D; try (destruct H as [E|H]; [inversion E; subst; eexists; left; reflexivity|destruct (IH H) as [v Hv]; exists v; now right]).
    destruct (IH H) as [v Hv]. exists v. now right.
  - destruct H as [E|H]; [inversion E; subst; eexists; left; reflexivity|destruct (IH H) as [v Hv]; exists v; now right].
Qed.

Lemma changed_ssorted dm sm : ssorted dm -> ssorted (changed_entries dm sm).
Proof.
  induction dm as [|[k v] r IH]; [exact id|]. cbn [ssorted]. intros [Hlt Hs]. cbn [changed_entries].
  assert (B : Forall (fun kv => String.ltb k (fst kv) = true) (changed_entries r sm)).
  { apply Forall_forall. intros [k' x'] Hin. destruct (changed_keys_sub r sm k' x' Hin) as [y Hy].
    rewrite Forall_forall in Hlt. exact (Hlt (k', y) Hy). }
  destruct (lookup k sm) as [v2|]; [destruct (diff v v2)|]; cbn [ssorted]; auto.
Qed.

Lemma changed_lookup dm sm k : ssorted dm ->
  lookup k (changed_entries dm sm) =
    match lookup k dm with
    | None => None
    | Some v => match lookup k sm with
                | None => Some v
                | Some v2 => nn_some (diff v v2)
                end
    end.
Proof.
  unfold nn_some. induction dm as [|[k0 v0] r IH]; intro Hs; [reflexivity|]. cbn [ssorted] in Hs. destruct Hs as [Hlt Hs].
  cbn [changed_entries lookup]. destruct (String.eqb k k0) eqn:E.
  - apply String.eqb_eq in E. subst k0.
    assert (N : lookup k (changed_entries r sm) = None).
    { rewrite (IH Hs). now rewrite (lookup_lt_none k r Hlt). }
    destruct (lookup k sm) as [v2|]; [|cbn [lookup]; now rewrite String.eqb_refl].
    destruct (diff v0 v2); cbn [lookup]; rewrite ?String.eqb_refl; try reflexivity. exact N.
  - destruct (lookup k0 sm) as [v2|]; [destruct (diff v0 v2)|]; cbn [lookup]; rewrite ?E; apply (IH Hs).
Qed.

Lemma has_key_cons k k0 v0 (r : emap) : has_key k ((k0, v0) :: r) = String.eqb k k0 || has_key k r.
Proof. unfold has_key. cbn [lookup]. destruct (String.eqb k k0); reflexivity. Qed.

Lemma deleted_fold_lookup dm : forall sm acc k, NoDup (keys sm) ->
  lookup k (fold_left (fun acc kv => if has_key (fst kv) dm then acc else insert (fst kv) (VStr "$delete") acc) sm acc) =
    if has_key k sm && negb (has_key k dm) then Some (VStr "$delete") else lookup k acc.
Proof.
  induction sm as [|[k0 v0] r IH]; intros acc k ND; [reflexivity|]. cbn [keys map fst] in ND. inversion ND as [|? ? Hn ND']; subst.
  cbn [fold_left fst]. rewrite (IH _ k ND'). rewrite has_key_cons.
  destruct (String.eqb k k0) eqn:E.
  - apply String.eqb_eq in E. subst k0.
    assert (Hr : has_key k r = false) by (unfold has_key; now rewrite (lookup_not_in_keys k r Hn)).
    rewrite Hr. cbn [andb orb]. destruct (has_key k dm); cbn [negb]; [reflexivity|apply lookup_insert_eq].
  - cbn [orb]. destruct (has_key k r && negb (has_key k dm)); [reflexivity|].
    destruct (has_key k0 dm); [reflexivity|].
    apply lookup_insert_neq. intro; subst; now rewrite String.eqb_refl in E.
Qed.

Lemma deleted_ssorted dm sm : ssorted dm -> ssorted (deleted_entries dm sm).
Proof.
  intro Hs. unfold deleted_entries. generalize (changed_ssorted dm sm Hs). generalize (changed_entries dm sm).
  induction sm as [|[k0 v0] r IH]; intros acc Ha; [exact Ha|]. cbn [fold_left fst].
  destruct (has_key k0 dm); [now apply IH|]. apply IH. now apply ssorted_insert.
Qed.

Lemma deleted_lookup dm sm k : ssorted dm -> ssorted sm ->
  lookup k (deleted_entries dm sm) =
    match lookup k dm with
    | Some v => match lookup k sm with
                | None => Some v
                | Some v2 => nn_some (diff v v2)
                end
    | None => if has_key k sm then Some (VStr "$delete") else None
    end.
Proof.
  intros Hd Hs. unfold deleted_entries. rewrite (deleted_fold_lookup dm sm _ k (ssorted_NoDup sm Hs)).
  rewrite (changed_lookup dm sm k Hd). unfold has_key.
  destruct (lookup k dm) as [v|]; cbn [negb andb]; [now rewrite andb_false_r|].
  destruct (lookup k sm); reflexivity.
Qed.

Definition roundtrip_ok (t b : value) : Prop :=
  (diff t b = VNull -> t = b) /\ (diff t b <> VNull -> merge' b (diff t b) = Ok t).

Lemma dfree_list_no_str l s : has_prefix "$" s = true -> dfree_list l -> existsb (fun v => is_str v s) l = false.
Proof.
  intros Hs. induction l as [|x r IH]; intro H; [reflexivity|]. cbn [dfree_list] in H. destruct H as [Hx Hr].
  cbn [existsb]. rewrite (IH Hr), orb_false_r. destruct x; try reflexivity. cbn in *.
  destruct (String.eqb s0 s) eqn:E; [|reflexivity]. apply String.eqb_eq in E. subst. unfold nodollar in Hx. congruence.
Qed.

Lemma filter_all {A} (f : A -> bool) l : (forall x, In x l -> f x = true) -> filter f l = l.
Proof. induction l as [|x r IH]; intro H; [reflexivity|]. cbn. rewrite (H x (or_introl eq_refl)). f_equal. apply IH. intros; apply H; now right. Qed.

Lemma strip_required_dfree l : dfree_list l -> strip_required l = l.
Proof.
  intro H. unfold strip_required. apply filter_all. intros x Hx.
  assert (E : existsb (fun v => is_str v "$required") l = false) by (apply dfree_list_no_str; [reflexivity|exact H]).
  destruct (is_str x "$required") eqn:I; [|reflexivity]. exfalso.
  assert (existsb (fun v => is_str v "$required") l = true) by (apply existsb_exists; exists x; auto). congruence.
Qed.

Lemma has_map_bool_dfree m k b : has_prefix "$" k = true -> dfree_map m -> has_map_bool m k b = false.
Proof. intros Hk Hd. unfold has_map_bool. now rewrite (dfree_map_no_dollar_key m k Hd Hk). Qed.

Lemma pop_replace_whole tl : dfree_list tl ->
  pop_list_map_bool_go (tl ++ [replace_marker]) "$replace" true = Ok tl.
Proof.
  induction tl as [|x r IH]; intro H; [reflexivity|]. cbn [dfree_list] in H. destruct H as [Hx Hr].
  cbn [app pop_list_map_bool_go]. rewrite (IH Hr). destruct x; try reflexivity.
  destruct Hx as [_ Hx]. now rewrite (has_map_bool_dfree m "$replace" true eq_refl Hx).
Qed.

Lemma has_list_map_bool_whole tl : has_list_map_bool (tl ++ [replace_marker]) "$replace" true = true.
Proof. unfold has_list_map_bool. rewrite existsb_app. cbn. apply orb_true_r. Qed.

Lemma merge_whole_list sl tl : dfree_list tl -> merge' (VList sl) (VList (tl ++ [replace_marker])) = Ok (VList tl).
Proof.
  intro H. unfold merge'. rewrite merge_list_list.
  assert (E : existsb (fun v => is_str v "$replace") (tl ++ [replace_marker]) = false).
  { rewrite existsb_app, (dfree_list_no_str tl "$replace" eq_refl H). reflexivity. }
  rewrite E, has_list_map_bool_whole, (pop_replace_whole tl H). reflexivity.
Qed.

Lemma scalar_roundtrip t b :
  match t with VNull | VList _ | VMap _ => False | _ => True end ->
  dfree b -> patchable t b = true -> roundtrip_ok t b.
Proof.
  intros Ht Hb Hp.
  assert (D : diff t b = if scalar_eqb t b then VNull else t) by (destruct t; try contradiction; reflexivity).
  unfold roundtrip_ok. rewrite D. destruct (scalar_eqb t b) eqn:E.
  - split; [intros _; now apply scalar_eqb_eq|congruence].
  - split; [intro H; destruct t; try contradiction; discriminate H|intros _].
    destruct b as [| | | | |bl|bm]; try contradiction;
      try (unfold merge'; destruct t; try contradiction; cbn in E |- *; rewrite ?E; reflexivity).
    + destruct t; try contradiction; cbn in Hp; discriminate Hp.
    + destruct bm; [destruct t; try contradiction; reflexivity|destruct t; try contradiction; cbn in Hp; discriminate Hp].
Qed.

Lemma list_roundtrip tl b : dfree (VList tl) -> dfree b -> patchable (VList tl) b = true -> roundtrip_ok (VList tl) b.
Proof.
  intros Ht Hb Hp. rewrite dfree_VList in Ht. unfold roundtrip_ok.
  destruct b as [| | | | |sl|bm]; try contradiction; try (split; [discriminate|intros _; reflexivity]).
  - (* base is a list *)
    cbn [diff].
    set (added := filter (fun v1 => negb (existsb (fun v2 => deep_eqb v1 v2) sl)) tl).
    set (gone := filter (fun v1 => negb (existsb (fun v2 => deep_eqb v1 v2) tl)) sl).
    set (ret := added ++ map (fun v => VMap [("$delete", v)]) gone).
    assert (W : (VList (tl ++ [replace_marker]) = VNull -> VList tl = VList sl) /\
                (VList (tl ++ [replace_marker]) <> VNull -> merge' (VList sl) (VList (tl ++ [replace_marker])) = Ok (VList tl)))
      by (split; [discriminate|intros _; now apply merge_whole_list]).
    destruct (forallb (fun v => match v with VMap _ => true | _ => false end) gone); [|exact W].
    destruct (applies sl ret tl) eqn:A; [|exact W].
    unfold applies in A. destruct (merge' (VList sl) (VList ret)) as [r|] eqn:M; [|discriminate].
    apply deep_eqb_eq in A. subst r.
    destruct ret as [|x xs] eqn:R.
    + split; [intros _|congruence].
      unfold merge' in M. rewrite merge_list_list in M. cbn in M. fold (strip_required sl) in M.
      rewrite dfree_VList in Hb. rewrite (strip_required_dfree sl Hb) in M. now inversion M.
    + split; [discriminate|intros _; exact M].
  - (* base is a map: only the empty map can be overridden by a list *)
    destruct bm; [split; [discriminate|intros _; reflexivity]|cbn in Hp; discriminate Hp].
Qed.

Lemma insert_replace_roundtrip bm tm : dfree (VMap tm) ->
  merge' (VMap bm) (VMap (insert "$replace" (VBool true) tm)) = Ok (VMap tm).
Proof.
  rewrite dfree_VMap. intros [Hs Hd]. rewrite merge_map_replace.
  - rewrite remove_insert_absent; [reflexivity|exact Hs|apply dfree_map_no_dollar_key; [exact Hd|reflexivity]].
  - unfold has_map_bool. now rewrite lookup_insert_eq.
Qed.

Lemma diff_not_delete v v2 : dfree v -> is_str (diff v v2) "$delete" = false.
Proof.
  intro Hv. destruct v as [|bb|z|g|s|l|m]; try contradiction;
    try (cbn [diff]; destruct (scalar_eqb _ v2); reflexivity).
  - cbn [diff]. destruct (scalar_eqb (VStr s) v2); [reflexivity|]. now apply (nodollar_not_delete (VStr s)).
  - cbn [diff]. destruct v2; try reflexivity.
    destruct (forallb _ _); [|reflexivity]. destruct (applies _ _ _); [|reflexivity].
    destruct (_ ++ _); reflexivity.
  - destruct v2; try reflexivity. rewrite diff_map_map. destruct (existsb _ m); [reflexivity|].
    destruct (deleted_entries m m0); reflexivity.
Qed.

(* the main case: both sides are maps *)
Lemma map_roundtrip tm bm :
  Forall (fun kv => forall b, dfree (snd kv) -> dfree b -> patchable (snd kv) b = true -> roundtrip_ok (snd kv) b) tm ->
  dfree (VMap tm) -> dfree (VMap bm) -> roundtrip_ok (VMap tm) (VMap bm).
Proof.
  intros IH Ht Hb. unfold roundtrip_ok. rewrite diff_map_map.
  destruct (existsb _ tm) eqn:Un; [split; [discriminate|intros _; now apply insert_replace_roundtrip]|].
  pose proof Ht as Ht0. pose proof Hb as Hb0.
  rewrite dfree_VMap in Ht, Hb. destruct Ht as [Hst Hdt]. destruct Hb as [Hsb Hdb].
  assert (Pat : forall k v v2, lookup k tm = Some v -> lookup k bm = Some v2 -> patchable v v2 = true).
  { intros k v v2 Lt Lb. apply lookup_In in Lt.
    destruct (patchable v v2) eqn:P; [reflexivity|]. exfalso.
    assert (existsb (fun kv => match lookup (fst kv) bm with Some v2 => negb (patchable (snd kv) v2) | None => false end) tm = true).
    { apply existsb_exists. exists (k, v). split; [exact Lt|]. cbn [fst snd]. now rewrite Lb, P. }
    congruence. }
  assert (IHk : forall k v v2, lookup k tm = Some v -> lookup k bm = Some v2 -> roundtrip_ok v v2).
  { intros k v v2 Lt Lb. pose proof (Pat k v v2 Lt Lb) as P. pose proof (lookup_In _ _ _ Lt) as Hin.
    rewrite Forall_forall in IH. apply (IH (k, v) Hin); cbn [snd]; try exact P.
    - exact (proj2 (dfree_map_In tm k v Hdt Hin)).
    - exact (proj2 (dfree_map_In bm k v2 Hdb (lookup_In _ _ _ Lb))). }
  set (del := deleted_entries tm bm).
  assert (Hsd : ssorted del) by (apply deleted_ssorted; exact Hst).
  assert (Lk : forall k, lookup k del = match lookup k tm with
                                        | Some v => match lookup k bm with None => Some v | Some v2 => nn_some (diff v v2) end
                                        | None => if has_key k bm then Some (VStr "$delete") else None end)
    by (intro k; apply deleted_lookup; assumption).
  assert (Spec : forall k, key_spec bm del k = lookup k tm).
  { intro k. unfold key_spec. rewrite (Lk k).
    destruct (lookup k tm) as [v|] eqn:Lt.
    - pose proof (lookup_In _ _ _ Lt) as Hin. pose proof (proj2 (dfree_map_In tm k v Hdt Hin)) as Hdv.
      destruct (lookup k bm) as [v2|] eqn:Lb.
      + destruct (IHk k v v2 Lt Lb) as [R0 R1].
        destruct (value_eq_null (diff v v2)) as [E|N].
        * rewrite E. cbn [nn_some]. now rewrite (R0 E).
        * rewrite (nn_some_nonnull _ N), (diff_not_delete v v2 Hdv). unfold merge' in R1. now rewrite (R1 N).
      + now rewrite (nodollar_not_delete v Hdv).
    - unfold has_key. destruct (lookup k bm); reflexivity. }
  assert (NoRej : ~ exists kv, In kv del /\ entry_rejected bm kv).
  { intros ([k e] & Hin & Hr). pose proof (NoDup_keys_lookup k e del (ssorted_NoDup del Hsd) Hin) as Le.
    rewrite (Lk k) in Le. unfold entry_rejected in Hr.
    destruct (lookup k tm) as [v|] eqn:Lt.
    - pose proof (lookup_In _ _ _ Lt) as Hint. pose proof (proj2 (dfree_map_In tm k v Hdt Hint)) as Hdv.
      destruct (lookup k bm) as [v2|] eqn:Lb.
      + destruct (IHk k v v2 Lt Lb) as [R0 R1].
        destruct Hr as [[_ Hn]|[_ (e' & er & He & Hm)]]; [discriminate|]. inversion He; subst e'.
        destruct (value_eq_null (diff v v2)) as [E|N]; [rewrite E in Le; discriminate Le|].
        rewrite (nn_some_nonnull _ N) in Le. inversion Le; subst e. unfold merge' in R1. rewrite (R1 N) in Hm. discriminate.
      + inversion Le; subst e. destruct Hr as [[Hd _]|[_ (e' & er & He & _)]]; [|discriminate].
        rewrite (nodollar_not_delete v Hdv) in Hd. discriminate.
    - unfold has_key in Le. destruct (lookup k bm) eqn:Lb; [|discriminate]. inversion Le; subst e.
      destruct Hr as [[_ Hn]|[Hd _]]; [discriminate|]. cbn in Hd. discriminate. }
  assert (Hrep : has_map_bool del "$replace" true = false).
  { unfold has_map_bool. rewrite (Lk "$replace"). rewrite (dfree_map_no_dollar_key tm "$replace" Hdt eq_refl).
    unfold has_key. now rewrite (dfree_map_no_dollar_key bm "$replace" Hdb eq_refl). }
  pose proof (ssorted_NoDup del Hsd) as NDd.
  destruct (merge' (VMap bm) (VMap del)) as [r|er] eqn:M.
  2:{ exfalso. apply NoRej. apply (merge_map_reject_iff bm del NDd Hrep). eexists; exact M. }
  assert (exists rm, r = VMap rm) as [rm ->].
  { unfold merge' in M. rewrite merge_map_map in M. cbv zeta in M. rewrite Hrep in M.
    destruct (merge_entries false del bm); cbn in M; inversion M. eexists; reflexivity. }
  assert (Hrm : forall k, lookup k rm = lookup k tm).
  { intro k. rewrite (merge_map_keywise bm del rm NDd Hrep M k). apply Spec. }
  assert (Hsr : ssorted rm).
  { unfold merge' in M. rewrite merge_map_map in M. cbv zeta in M. rewrite Hrep in M.
    destruct (merge_entries false del bm) as [r'|] eqn:ME; cbn in M; inversion M; subst. eapply merge_entries_ssorted; [exact Hsb|exact ME]. }
  assert (Erm : rm = tm) by (apply ssorted_ext; assumption).
  subst rm. fold del. destruct del as [|d0 dr] eqn:Edel.
  - split; [intros _|congruence].
    (* empty layer: nothing differs *)
    f_equal. apply ssorted_ext; try assumption. intro k. pose proof (Lk k) as L. cbn [lookup] in L.
    destruct (lookup k tm) as [v|] eqn:Lt.
    + destruct (lookup k bm) as [v2|] eqn:Lb; [|discriminate L].
      destruct (IHk k v v2 Lt Lb) as [R0 _].
      destruct (value_eq_null (diff v v2)) as [E|N]; [now rewrite (R0 E)|]. rewrite (nn_some_nonnull _ N) in L. discriminate L.
    + unfold has_key in L. destruct (lookup k bm); [discriminate L|reflexivity].
  - split; [discriminate|intros _; exact M].
Qed.

(* base + bkld(base, target) evaluates to target: the layer bkld emits, merged over the base, is the target;
   when nothing differs the layer is empty *)
Theorem diff_roundtrip t : forall b, dfree t -> dfree b -> patchable t b = true -> roundtrip_ok t b.
Proof.
  induction t as [|bb|z|g|s|l IH|m IH] using value_ind'; intros b Ht Hb Hp;
    try (apply scalar_roundtrip; [exact Logic.I|exact Hb|exact Hp]).
  - contradiction.
  - now apply list_roundtrip.
  - destruct b as [| | | | |bl|bm]; try contradiction; try (unfold roundtrip_ok; split; [discriminate|intros _; reflexivity]).
    + cbn in Hp. discriminate Hp.
    + now apply map_roundtrip.
Qed.

Lemma patchable_self v : patchable v v = true.
Proof. destruct v; reflexivity. Qed.

Lemma existsb_deep_self l x : In x l -> existsb (fun v2 => deep_eqb x v2) l = true.
Proof. intro H. apply existsb_exists. exists x. split; [exact H|apply deep_eqb_refl]. Qed.

Lemma filter_none {A} (f : A -> bool) l : (forall x, In x l -> f x = false) -> filter f l = [].
Proof. induction l as [|x r IH]; intro H; [reflexivity|]. cbn. rewrite (H x (or_introl eq_refl)). apply IH. intros; apply H; now right. Qed.

(* when base and target are the same data the emitted layer is empty *)
Theorem diff_same_empty t : dfree t -> diff t t = VNull.
Proof.
  induction t as [|bb|z|g|s|l IH|m IH] using value_ind'; intro Ht; try contradiction.
  - cbn. destruct bb; reflexivity.
  - cbn. now rewrite Z.eqb_refl.
  - cbn. now rewrite String.eqb_refl.
  - cbn. now rewrite String.eqb_refl.
  - cbn [diff].
    rewrite (filter_none _ l) by (intros x Hx; now rewrite (existsb_deep_self l x Hx)).
    cbn [forallb app map]. unfold applies.
    rewrite (merge_list_concat l []); [|split; reflexivity|constructor].
    rewrite dfree_VList in Ht. rewrite app_nil_r, (strip_required_dfree l Ht), deep_eqb_refl. reflexivity.
  - rewrite diff_map_map. rewrite dfree_VMap in Ht. destruct Ht as [Hs Hd].
    pose proof (ssorted_NoDup m Hs) as ND.
    assert (U : existsb (fun kv => match lookup (fst kv) m with Some v2 => negb (patchable (snd kv) v2) | None => false end) m = false).
    { destruct (existsb _ m) eqn:E; [|reflexivity]. apply existsb_exists in E as ([k v] & Hin & Hp). cbn [fst snd] in Hp.
      rewrite (NoDup_keys_lookup k v m ND Hin), patchable_self in Hp. discriminate. }
    rewrite U.
    assert (L : forall k, lookup k (deleted_entries m m) = None).
    { intro k. rewrite (deleted_lookup m m k Hs Hs). destruct (lookup k m) as [v|] eqn:Lm.
      - pose proof (lookup_In _ _ _ Lm) as Hin. rewrite Forall_forall in IH.
        pose proof (IH (k, v) Hin (proj2 (dfree_map_In m k v Hd Hin))) as E. cbn [snd] in E. rewrite E. reflexivity.
      - unfold has_key. now rewrite Lm. }
    destruct (deleted_entries m m) as [|[k0 v0] r]; [reflexivity|]. specialize (L k0). cbn in L. now rewrite String.eqb_refl in L.
Qed.

(* the document-level $match: {} that bkld adds selects the base document *)
Lemma match_empty_pattern bm : single_placeholder bm = false -> vmatch (VMap bm) (VMap []) = true.
Proof. intro H. cbn. now rewrite H. Qed.

(* ---- maximality of the list intersection: multiset minimum ---- *)
Require Import Coq.Sorting.Permutation.

Definition cnt (x : value) (l : list value) : nat := List.length (filter (deep_eqb x) l).

Lemma deep_eqb_iff a b : deep_eqb a b = true <-> a = b.
Proof. split; [apply deep_eqb_eq|intros ->; apply deep_eqb_refl]. Qed.

Lemma deep_eqb_sym a b : deep_eqb a b = deep_eqb b a.
Proof.
  destruct (deep_eqb a b) eqn:E; destruct (deep_eqb b a) eqn:F; try reflexivity.
  - apply deep_eqb_eq in E. subst. now rewrite deep_eqb_refl in F.
  - apply deep_eqb_eq in F. subst. now rewrite deep_eqb_refl in E.
Qed.

Lemma cnt_perm x l l' : Permutation l l' -> cnt x l = cnt x l'.
Proof.
  unfold cnt. induction 1 as [|y l l' _ IH|y z l|l1 l2 l3 _ IH1 _ IH2]; cbn [filter].
  - reflexivity.
  - destruct (deep_eqb x y); cbn; congruence.
  - destruct (deep_eqb x y), (deep_eqb x z); reflexivity.
  - congruence.
Qed.

Lemma remove_first_perm y b b' : remove_first y b = Some b' -> Permutation b (y :: b').
Proof.
  revert b'. induction b as [|z r IH]; intros b' H; [discriminate|]. cbn in H.
  destruct (deep_eqb y z) eqn:E.
  - apply deep_eqb_eq in E. subst. inversion H; subst. apply Permutation_refl.
  - destruct (remove_first y r) as [r'|]; [|discriminate]. inversion H; subst.
    eapply Permutation_trans; [apply perm_skip; apply IH; reflexivity|apply perm_swap].
Qed.

Lemma remove_first_none y b : remove_first y b = None -> cnt y b = 0.
Proof.
  unfold cnt. induction b as [|z r IH]; intro H; [reflexivity|]. cbn in H. cbn [filter].
  destruct (deep_eqb y z); [discriminate|]. destruct (remove_first y r); [discriminate|]. now apply IH.
Qed.

(* nothing shared is dropped: every value occurs in the result as often as in the input that has fewer *)
Theorem list_inter_count x a : forall b, cnt x (list_inter a b) = Nat.min (cnt x a) (cnt x b).
Proof.
  induction a as [|y r IH]; intro b; [reflexivity|]. cbn [list_inter].
  destruct (remove_first y b) as [b'|] eqn:E.
  - pose proof (cnt_perm x _ _ (remove_first_perm y b b' E)) as P. rewrite P.
    unfold cnt in *. cbn [filter]. destruct (deep_eqb x y); cbn [List.length]; rewrite IH; lia.
  - pose proof (remove_first_none y b E) as Z. unfold cnt in *. cbn [filter].
    destruct (deep_eqb x y) eqn:Exy.
    + apply deep_eqb_eq in Exy. subst y. rewrite IH, Z. cbn [List.length]. lia.
    + rewrite IH. reflexivity.
Qed.
