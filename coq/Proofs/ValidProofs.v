(* ValidProofs.v — every output document is the finalisation of a validated tree; bklr vs bkl. *)
From Coq Require Import String Ascii List ZArith Bool Lia.
From Bkl Require Import Model.Value Model.Merge Model.Str Model.Eval Model.Tools
  Proofs.MapsProofs Proofs.StrProofs Proofs.PlainProofs Proofs.RequiredProofs.
Import ListNotations.
Local Open Scope string_scope.
Local Open Scope list_scope.

Section Valid.
  Variable o : oracles.

  Definition valid_out (out : value) : Prop := exists y, out = finalize y /\ validate_go o y = None.

  Lemma map_res_forall {A B} (f : A -> res (list B)) (P : B -> Prop) l rs :
    (forall x ys, f x = Ok ys -> Forall P ys) -> map_res f l = Ok rs -> Forall P (concat rs).
  Proof.
    intro Hf. revert rs. induction l as [|x r IH]; intros rs H; cbn in H.
    - inversion H; subst. constructor.
    - destruct (f x) as [ys|] eqn:E; [|discriminate]. cbn in H.
      destruct (map_res f r) as [rs'|] eqn:Er; [|discriminate]. cbn in H. inversion H; subst.
      cbn [concat]. apply Forall_app. split; [now apply (Hf x)|now apply IH].
  Qed.

  Lemma outputs_of_valid d outs : outputs_of o d = Ok outs -> Forall valid_out outs.
  Proof.
    unfold outputs_of. destruct (find_outputs d) as [[obj os]|]; [|discriminate]. cbn [bind].
    match goal with |- bind (map_res ?f ?sel) _ = _ -> _ => destruct (map_res f sel) as [rs|] eqn:E; [|discriminate] end.
    cbn [bind]. intro H. inversion H; subst. eapply map_res_forall; [|exact E].
    intros x ys Hx. cbn beta in Hx. destruct (filter_output x) as [[y|]|]; cbn [bind] in Hx; try discriminate.
    - unfold validate in Hx. destruct (validate_go o y) eqn:Ev; cbn [bind] in Hx; [discriminate|].
      inversion Hx; subst. constructor; [|constructor]. exists y. split; [reflexivity|exact Ev].
    - inversion Hx; subst. constructor.
  Qed.

  Lemma eval_docs_from_S n i S :
    eval_docs_from o (Datatypes.S n) i S =
      bind (process_doc o S i) (fun r => bind (map_res (outputs_of o) (fst r)) (fun outs =>
        bind (eval_docs_from o n (1 + i) (snd r)) (fun rest => Ok (concat outs ++ rest)))).
  Proof. cbn [eval_docs_from]. destruct (process_doc o S i) as [[ds S']|]; reflexivity. Qed.

  Lemma eval_docs_from_valid n : forall i S outs, eval_docs_from o n i S = Ok outs -> Forall valid_out outs.
  Proof.
    induction n as [|n IH]; intros i S outs H.
    - cbn [eval_docs_from] in H. inversion H; subst. constructor.
    - rewrite eval_docs_from_S in H.
      generalize dependent (process_doc o S i). intros pd H.
      destruct pd as [[ds S']|]; [|discriminate H]. cbn [bind fst snd] in H.
      destruct (map_res (outputs_of o) ds) as [os|] eqn:E; [|discriminate H]. cbn [bind] in H.
      remember (eval_docs_from o n (1 + i) S') as ed eqn:Er.
      destruct ed as [rest|]; [|discriminate H]. cbn [bind] in H.
      inversion H; subst. apply Forall_app. split; [|now apply (IH (1 + i) S' rest)].
      eapply map_res_forall; [|exact E]. intros x ys Hx. now apply outputs_of_valid in Hx.
  Qed.

  Theorem eval_docs_valid docs outs : eval_docs o docs = Ok outs -> Forall valid_out outs.
  Proof. unfold eval_docs. apply eval_docs_from_valid. Qed.

  (* ---- documents whose only markers are $required values ---- *)
  Fixpoint req_only (v : value) : Prop :=
    match v with
    | VStr s => s = "$required" \/ validate_string o s = None
    | VList l => (fix go (l : list value) := match l with [] => True | x :: r => req_only x /\ go r end) l
    | VMap m => (fix go (m : emap) := match m with [] => True | (k, x) :: r => validate_string o k = None /\ req_only x /\ go r end) m
    | _ => True
    end.
  Fixpoint ro_list (l : list value) : Prop := match l with [] => True | x :: r => req_only x /\ ro_list r end.
  Fixpoint ro_map (m : emap) : Prop := match m with [] => True | (k, x) :: r => validate_string o k = None /\ req_only x /\ ro_map r end.
  Lemma req_only_VList l : req_only (VList l) = ro_list l. Proof. reflexivity. Qed.
  Lemma req_only_VMap m : req_only (VMap m) = ro_map m. Proof. reflexivity. Qed.

  Definition req_verdict (n : nat) : option err := match n with 0 => None | _ => Some ERequired end.

  Lemma join_req a b : join_err (req_verdict a) (req_verdict b) = req_verdict (a + b).
  Proof. destruct a, b; reflexivity. Qed.

  Lemma validate_req_only v : req_only v -> validate_go o v = req_verdict (count_req v).
  Proof.
    induction v as [| | |g|s|l IH|m IH] using value_ind'; intro H; try reflexivity.
    - cbn [validate_go count_req]. destruct H as [->|H]; [reflexivity|].
      destruct (String.eqb s "$required") eqn:E; [|exact H].
      apply String.eqb_eq in E. subst. cbn in H. discriminate.
    - rewrite req_only_VList in H. rewrite count_req_list. cbn [validate_go].
      induction IH as [|x r Hx _ IHr]; [reflexivity|]. cbn [ro_list] in H. destruct H as [H1 H2].
      rewrite (Hx H1), (IHr H2). cbn [count_list]. apply join_req.
    - rewrite req_only_VMap in H. rewrite count_req_map. cbn [validate_go].
      induction IH as [|[k x] r Hx _ IHr]; [reflexivity|]. cbn [snd] in Hx. cbn [ro_map] in H. destruct H as (Hk & H1 & H2).
      rewrite Hk, (Hx H1), (IHr H2). cbn [count_map join_err]. apply join_req.
  Qed.

  Lemma dn_req_only v : req_only v -> req_only (dn v).
  Proof.
    induction v as [| | |g|s|l IH|m IH] using value_ind'; try exact id.
    - rewrite dn_VList, !req_only_VList. induction IH as [|x r Hx _ IHr]; [exact id|]. cbn [ro_list]. intros [H1 H2].
      destruct (value_eq_null x) as [->|Hn]; [now apply IHr|].
      assert (E : dn_list (x :: r) = dn x :: dn_list r) by (destruct x; try reflexivity; congruence).
      rewrite E. cbn [ro_list]. auto.
    - rewrite dn_VMap, !req_only_VMap. induction IH as [|[k x] r Hx _ IHr]; [exact id|]. cbn [snd] in Hx. cbn [ro_map]. intros (Hk & H1 & H2).
      destruct (value_eq_null x) as [->|Hn]; [now apply IHr|].
      assert (E : dn_map ((k, x) :: r) = (k, dn x) :: dn_map r) by (destruct x; try reflexivity; congruence).
      rewrite E. cbn [ro_map]. auto.
  Qed.

  Lemma count_req_dn v : count_req (dn v) = count_req v.
  Proof.
    induction v as [| | |g|s|l IH|m IH] using value_ind'; try reflexivity.
    - rewrite dn_VList, !count_req_list. induction IH as [|x r Hx _ IHr]; [reflexivity|].
      destruct (value_eq_null x) as [->|Hn]; [exact IHr|].
      assert (E : dn_list (x :: r) = dn x :: dn_list r) by (destruct x; try reflexivity; congruence).
      rewrite E. cbn [count_list]. now rewrite Hx, IHr.
    - rewrite dn_VMap, !count_req_map. induction IH as [|[k x] r Hx _ IHr]; [reflexivity|]. cbn [snd] in Hx.
      destruct (value_eq_null x) as [->|Hn]; [exact IHr|].
      assert (E : dn_map ((k, x) :: r) = (k, dn x) :: dn_map r) by (destruct x; try reflexivity; congruence).
      rewrite E. cbn [count_map]. now rewrite Hx, IHr.
  Qed.

  (* bkl refuses such a document with the required-field error exactly when bklr's output is non-empty *)
  Theorem bklr_agrees_bkl v : plain v -> req_only v -> height v <= depth_limit -> v <> VNull ->
    (eval_docs o [v] = Err ERequired <-> required v <> None) /\
    (required v = None -> eval_docs o [v] = Ok [finalize (dn v)]).
  Proof.
    intros Hp Hr Hh Hn. rewrite (eval_inert o v Hp Hh).
    rewrite (validate_req_only (dn v) (dn_req_only v Hr)), count_req_dn.
    assert (E : required v = None <-> count_req v = 0) by apply required_none_iff.
    destruct v; try congruence; (destruct (count_req _) eqn:C; cbn [req_verdict];
      [split; [split; [discriminate|intro H; exfalso; apply H; apply E; reflexivity]|reflexivity]
      |split; [split; [intros _ H; apply E in H; discriminate|reflexivity]|intro H; apply E in H; discriminate]]).
  Qed.
End Valid.

(* ---- what an accepted tree cannot contain: in particular no $output key ---- *)
Fixpoint has_key_anywhere (k : string) (v : value) : Prop :=
  match v with
  | VList l => (fix go (l : list value) := match l with [] => False | x :: xs => has_key_anywhere k x \/ go xs end) l
  | VMap m => (fix go (m : emap) := match m with [] => False | (k', x) :: xs => k' = k \/ has_key_anywhere k x \/ go xs end) m
  | _ => False
  end.

Lemma join_err_none a b : join_err a b = None -> a = None /\ b = None.
Proof.
  destruct a as [ea|], b as [eb|]; cbn.
  - destruct ea, eb; discriminate.
  - destruct ea; discriminate.
  - destruct eb; discriminate.
  - intros _. split; reflexivity.
Qed.

Lemma validated_no_key o k v : validate_string o k <> None -> validate_go o v = None -> ~ has_key_anywhere k v.
Proof.
  intro Hk. induction v as [| | | | |l IH|m IH] using value_ind'; intros Hv Hin; try exact Hin.
  - cbn [validate_go] in Hv. cbn [has_key_anywhere] in Hin. induction IH as [|x xs Hx _ IHxs]; [exact Hin|].
    apply join_err_none in Hv as [H1 H2]. destruct Hin as [Hin|Hin]; [exact (Hx H1 Hin)|exact (IHxs H2 Hin)].
  - cbn [validate_go] in Hv. cbn [has_key_anywhere] in Hin. induction IH as [|[k' x] xs Hx _ IHxs]; [exact Hin|].
    apply join_err_none in Hv as [H1 H2]. apply join_err_none in H1 as [H1k H1x].
    destruct Hin as [E|[Hin|Hin]].
    + subst k'. exact (Hk H1k).
    + exact (Hx H1x Hin).
    + exact (IHxs H2 Hin).
Qed.

Lemma validate_string_output o : validate_string o "$output" <> None.
Proof. cbn. discriminate. Qed.
