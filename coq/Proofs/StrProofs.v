(* StrProofs.v — lemmas about Model.Str *)
From Coq Require Import String Ascii List Bool Lia.
From Bkl Require Import Model.Value Model.Str.
Import ListNotations.

Lemma unescape_cons_other a s : Ascii.eqb a "$"%char = false -> unescape (String a s) = String a (unescape s).
Proof. intro E. destruct s as [|b r]; cbn [unescape]; [reflexivity|]. rewrite E. reflexivity. Qed.

Lemma unescape_dollar_dollar s : unescape (String "$"%char (String "$"%char s)) = String "$"%char (unescape s).
Proof. reflexivity. Qed.

Lemma unescape_escape s : unescape (escape s) = s.
Proof.
  induction s as [|a r IH]; [reflexivity|].
  cbn [escape]. destruct (Ascii.eqb a "$"%char) eqn:E.
  - apply Ascii.eqb_eq in E. subst a. rewrite unescape_dollar_dollar, IH. reflexivity.
  - rewrite unescape_cons_other by exact E. rewrite IH. reflexivity.
Qed.
