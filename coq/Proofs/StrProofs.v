(* StrProofs.v — lemmas about Model.Str *)
From Coq Require Import String Ascii List Bool Lia.
From Bkl Require Import Model.Value Model.Str.
Import ListNotations.

Lemma sapp_assoc (a b c : string) : ((a ++ b) ++ c = a ++ (b ++ c))%string.
Proof. induction a as [|x r IH]; cbn; [reflexivity|]. now rewrite IH. Qed.

Lemma sapp_nil_r (a : string) : (a ++ "" = a)%string.
Proof. induction a as [|x r IH]; cbn; [reflexivity|]. now rewrite IH. Qed.

Lemma rev_string_acc_app s acc : rev_string_acc s acc = (rev_string_acc s EmptyString ++ acc)%string.
Proof.
  revert acc. induction s as [|c r IH]; intro acc; cbn; [reflexivity|].
  rewrite IH, (IH (String c EmptyString)). rewrite sapp_assoc. reflexivity.
Qed.

Lemma rev_string_app a b : rev_string (a ++ b)%string = (rev_string b ++ rev_string a)%string.
Proof.
  unfold rev_string. induction a as [|c r IH]; cbn.
  - now rewrite sapp_nil_r.
  - rewrite rev_string_acc_app, IH, (rev_string_acc_app r (String c EmptyString)). now rewrite sapp_assoc.
Qed.

Lemma rev_string_involutive s : rev_string (rev_string s) = s.
Proof.
  induction s as [|c r IH]; [reflexivity|].
  change (String c r) with (String c EmptyString ++ r)%string at 1.
  rewrite rev_string_app, rev_string_app, IH. reflexivity.
Qed.

Lemma unescape_cons_other a s : Ascii.eqb a "$"%char = false -> unescape (String a s) = String a (unescape s).
Proof. intro E. destruct s as [|b r]; cbn [unescape]; [reflexivity|]. rewrite E. reflexivity. Qed.

Lemma unescape_dollar_dollar s : unescape (String "$"%char (String "$"%char s)) = String "$"%char (unescape s).
Proof. reflexivity. Qed.

Lemma unescape_escape s : unescape (escape s) = s.
Proof.
  induction s as [|a r IH]; [reflexivity|].
  cbn [escape]. destruct (Ascii.eqb a "$"%char) eqn:E.
  - apply Ascii.eqb_eq in E. subst a. rewrite unescape_dollar_dollar, IH. reflexivity.
  - rewrite unescape_cons_other by exact E. rewrite IH. reflexivity.
Qed.
