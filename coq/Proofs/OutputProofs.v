(* OutputProofs.v — $output selection and hiding refine a declarative description. *)
From Coq Require Import String Ascii List ZArith Bool Lia.
From Bkl Require Import Model.Value Model.Merge Model.Str Model.Eval Proofs.MapsProofs.
Import ListNotations.
Local Open Scope string_scope.
Local Open Scope list_scope.

(* is this list entry the list's own "$output: true" marker, a malformed one, or an ordinary entry *)
Definition marker_kind (b : bool) (x : value) : option bool :=
  match x with
  | VMap xm => if has_map_bool xm "$output" b then Some (match remove "$output" xm with [] => true | _ => false end) else None
  | _ => None
  end.

(* the tree with every "$output: true" marker removed *)
Fixpoint strip (v : value) : value :=
  match v with
  | VMap m =>
      let marked := has_map_bool m "$output" true in
      VMap ((fix go (m : emap) : emap :=
               match m with
               | [] => []
               | (k, x) :: r => if marked && String.eqb k "$output" then go r else (k, strip x) :: go r
               end) m)
  | VList l =>
      VList ((fix go (l : list value) : list value :=
                match l with
                | [] => []
                | x :: r => match marker_kind true x with Some _ => go r | None => strip x :: go r end
                end) l)
  | _ => v
  end.

(* the selected subtrees, in output order: a marked map before what is selected inside it, a marked list after *)
Fixpoint marks (v : value) : list value :=
  match v with
  | VMap m =>
      let marked := has_map_bool m "$output" true in
      (if marked then [strip v] else []) ++
      (fix go (m : emap) : list value :=
         match m with
         | [] => []
         | (k, x) :: r => if marked && String.eqb k "$output" then go r else marks x ++ go r
         end) m
  | VList l =>
      (fix go (l : list value) : list value :=
         match l with
         | [] => []
         | x :: r => match marker_kind true x with Some _ => go r | None => marks x ++ go r end
         end) l ++
      (if has_list_map_bool l "$output" true then [strip v] else [])
  | _ => []
  end.

(* no list carries a "$output: true" entry with other keys beside it *)
Fixpoint ok_true (v : value) : Prop :=
  match v with
  | VMap m => (fix go (m : emap) := match m with [] => True | (_, x) :: r => ok_true x /\ go r end) m
  | VList l => (fix go (l : list value) := match l with [] => True | x :: r => marker_kind true x <> Some false /\ ok_true x /\ go r end) l
  | _ => True
  end.
Fixpoint okt_list (l : list value) : Prop := match l with [] => True | x :: r => marker_kind true x <> Some false /\ ok_true x /\ okt_list r end.
Fixpoint okt_map (m : emap) : Prop := match m with [] => True | (_, x) :: r => ok_true x /\ okt_map r end.

Theorem find_outputs_spec v : ok_true v -> find_outputs v = Ok (strip v, marks v).
Proof.
  induction v as [| | |g|s|l IH|m IH] using value_ind'; intro H; try reflexivity.
  - (* list *)
    change (okt_list l) in H. cbn [find_outputs strip marks].
    match goal with |- bind (?f l) _ = Ok (VList (?g l), ?h l ++ _) =>
      assert (E : f l = Ok (g l, h l)) end.
    { induction IH as [|x r Hx _ IHr]; [reflexivity|]. cbn [okt_list] in H. destruct H as (Hk & Hox & Hor).
      match goal with |- ?L = _ => let L' := eval cbv beta iota zeta fix in L in change L with L' end.
      fold (marker_kind true x).
      match goal with |- _ = Ok (?a, ?b) => let a' := eval cbv beta iota zeta fix in a in let b' := eval cbv beta iota zeta fix in b in change (Ok (a, b)) with (Ok (a', b')) end.
      fold (marker_kind true x).
      destruct (marker_kind true x) as [[|]|] eqn:K; [exact (IHr Hor)|congruence|].
      rewrite (Hx Hox). cbn [bind]. rewrite (IHr Hor). reflexivity. }
    rewrite E. reflexivity.
  - (* map *)
    change (okt_map m) in H. cbn [find_outputs strip marks].
    set (marked := has_map_bool m "$output" true).
    match goal with |- bind (?f m) _ = Ok (VMap (?g m), _ ++ ?h m) =>
      assert (E : f m = Ok (g m, h m)) end.
    { clearbody marked. induction IH as [|[k x] r Hx _ IHr]; [reflexivity|]. cbn [snd] in Hx. cbn [okt_map] in H. destruct H as (Hox & Hor).
      match goal with |- ?L = _ => let L' := eval cbv beta iota zeta fix in L in change L with L' end.
      match goal with |- _ = Ok (?a, ?b) => let a' := eval cbv beta iota zeta fix in a in let b' := eval cbv beta iota zeta fix in b in change (Ok (a, b)) with (Ok (a', b')) end.
      destruct (marked && String.eqb k "$output"); [exact (IHr Hor)|].
      rewrite (Hx Hox). cbn [bind]. rewrite (IHr Hor). reflexivity. }
    rewrite E. cbn [bind]. destruct marked; reflexivity.
Qed.

(* ---- hiding ---- *)
Fixpoint hide (v : value) : option value :=
  match v with
  | VMap m =>
      if has_map_bool m "$output" false then None else
      Some (VMap ((fix go (m : emap) : emap :=
                     match m with [] => [] | (k, x) :: r => match hide x with Some y => (k, y) :: go r | None => go r end end) m))
  | VList l =>
      if has_list_map_bool l "$output" false then None else
      Some (VList ((fix go (l : list value) : list value :=
                      match l with [] => [] | x :: r => match hide x with Some y => y :: go r | None => go r end end) l))
  | VNull => None
  | _ => Some v
  end.

(* a list that carries a "$output: false" entry carries it without other keys *)
Fixpoint ok_false (v : value) : Prop :=
  match v with
  | VMap m => has_map_bool m "$output" false = true \/ (fix go (m : emap) := match m with [] => True | (_, x) :: r => ok_false x /\ go r end) m
  | VList l => (has_list_map_bool l "$output" false = true /\ is_ok (pop_list_map_bool_go l "$output" false) = true) \/
               (has_list_map_bool l "$output" false = false /\ (fix go (l : list value) := match l with [] => True | x :: r => ok_false x /\ go r end) l)
  | _ => True
  end.
Fixpoint okf_list (l : list value) : Prop := match l with [] => True | x :: r => ok_false x /\ okf_list r end.
Fixpoint okf_map (m : emap) : Prop := match m with [] => True | (_, x) :: r => ok_false x /\ okf_map r end.

Theorem filter_output_spec v : ok_false v -> filter_output v = Ok (hide v).
Proof.
  induction v as [| | |g|s|l IH|m IH] using value_ind'; intro H; try reflexivity.
  - cbn [filter_output hide]. destruct H as [[H1 H2]|[H1 H2]]; rewrite H1.
    + destruct (pop_list_map_bool_go l "$output" false); [reflexivity|discriminate].
    + change (okf_list l) in H2. clear H1.
      match goal with |- bind (?f l) _ = Ok (Some (VList (?g l))) => assert (E : f l = Ok (g l)) end.
      { induction IH as [|x r Hx _ IHr]; [reflexivity|]. cbn [okf_list] in H2. destruct H2 as [Hox Hor].
        match goal with |- ?L = _ => let L' := eval cbv beta iota zeta fix in L in change L with L' end.
        match goal with |- _ = Ok ?a => let a' := eval cbv beta iota zeta fix in a in change (Ok a) with (Ok a') end.
        rewrite (Hx Hox). cbn [bind]. rewrite (IHr Hor). cbn [bind]. destruct (hide x); reflexivity. }
      rewrite E. reflexivity.
  - cbn [filter_output hide]. destruct (has_map_bool m "$output" false) eqn:Hm; [reflexivity|].
    destruct H as [H|H]; [congruence|]. change (okf_map m) in H. clear Hm.
    match goal with |- bind (?f m) _ = Ok (Some (VMap (?g m))) => assert (E : f m = Ok (g m)) end.
    { induction IH as [|[k x] r Hx _ IHr]; [reflexivity|]. cbn [snd] in Hx. cbn [okf_map] in H. destruct H as [Hox Hor].
      match goal with |- ?L = _ => let L' := eval cbv beta iota zeta fix in L in change L with L' end.
      match goal with |- _ = Ok ?a => let a' := eval cbv beta iota zeta fix in a in change (Ok a) with (Ok a') end.
      rewrite (Hx Hox). cbn [bind]. rewrite (IHr Hor). cbn [bind]. destruct (hide x); reflexivity. }
    rewrite E. reflexivity.
Qed.

(* a malformed list marker is an error, never a silent selection *)
Lemma find_outputs_extra_keys l x : In x l -> marker_kind true x = Some false -> (forall y, In y l -> ok_true y) ->
  exists e, find_outputs (VList l) = Err e.
Proof.
  intros Hin Hk Hok. cbn [find_outputs].
  match goal with |- exists e, bind (?f l) _ = _ => assert (E : exists e, f l = Err e) end.
  { induction l as [|y r IHr]; [contradiction|].
    match goal with |- exists e, ?L = _ => let L' := eval cbv beta iota zeta fix in L in change L with L' end.
    fold (marker_kind true y).
    destruct Hin as [->|Hin].
    - rewrite Hk. eexists; reflexivity.
    - destruct (marker_kind true y) as [[|]|]; [apply IHr; [exact Hin|intros; apply Hok; now right]|eexists; reflexivity|].
      rewrite (find_outputs_spec y (Hok y (or_introl eq_refl))). cbn [bind].
      destruct (IHr Hin) as [e He]; [intros; apply Hok; now right|]. rewrite He. eexists; reflexivity. }
  destruct E as [e He]. rewrite He. eexists; reflexivity.
Qed.

Lemma map_res_ext_in {A B} (f g : A -> res B) l : (forall x, In x l -> f x = g x) -> map_res f l = map_res g l.
Proof.
  induction l as [|x r IH]; intro H; [reflexivity|]. cbn. rewrite (H x (or_introl eq_refl)).
  rewrite IH; [reflexivity|]. intros y Hy. apply H. now right.
Qed.

Definition selected (d : value) : list value := match marks d with [] => [strip d] | ms => ms end.

(* the output documents of an evaluated document: exactly the marked subtrees (or the root when there is none),
   in marks order, each with its hidden parts removed, validated and unescaped *)
Theorem outputs_of_spec o d : ok_true d -> Forall ok_false (selected d) ->
  outputs_of o d =
    bind (map_res (fun v => match hide v with
                            | None => Ok []
                            | Some y => bind (validate o y) (fun _ => Ok [finalize y])
                            end) (selected d)) (fun rs => Ok (concat rs)).
Proof.
  intros Ht Hf. unfold outputs_of. rewrite (find_outputs_spec d Ht). cbn [bind]. unfold selected in *.
  match goal with |- bind (map_res ?f ?l) _ = _ =>
    rewrite (map_res_ext_in f (fun v => match hide v with None => Ok [] | Some y => bind (validate o y) (fun _ => Ok [finalize y]) end) l) end.
  - destruct (marks d); reflexivity.
  - intros x Hx. rewrite Forall_forall in Hf.
    assert (Hx' : In x (match marks d with [] => [strip d] | v :: l => v :: l end)) by (destruct (marks d); exact Hx).
    rewrite (filter_output_spec x (Hf x Hx')). reflexivity.
Qed.

(* nothing under a false marker is ever emitted: a hidden root gives no document at all *)
Lemma hide_false_map m : has_map_bool m "$output" false = true -> hide (VMap m) = None.
Proof. intro H. cbn [hide]. now rewrite H. Qed.
Lemma hide_false_list l : has_list_map_bool l "$output" false = true -> hide (VList l) = None.
Proof. intro H. cbn [hide]. now rewrite H. Qed.
