(* RequiredProofs.v — lemmas about cmd/bklr/required.go (Model.Tools.required). *)
From Coq Require Import String Ascii List ZArith Bool Lia.
From Bkl Require Import Model.Value Model.Tools.
Import ListNotations.
Local Open Scope string_scope.
Local Open Scope list_scope.

Fixpoint req_list (l : list value) : list value :=
  match l with [] => [] | x :: xs => match required x with Some y => y :: req_list xs | None => req_list xs end end.
Fixpoint req_map (m : emap) : emap :=
  match m with [] => [] | (k, x) :: xs => match required x with Some y => (k, y) :: req_map xs | None => req_map xs end end.

Lemma required_list l : required (VList l) = match req_list l with [] => None | r => Some (VList r) end.
Proof.
  cbn [required].
  match goal with |- match ?t with _ => _ end = _ => assert (E : t = req_list l) end.
  { induction l as [|x xs IH]; [reflexivity|]. cbn [req_list]. rewrite <- IH. reflexivity. }
  rewrite E. reflexivity.
Qed.

Lemma required_map m : required (VMap m) = match req_map m with [] => None | r => Some (VMap r) end.
Proof.
  cbn [required].
  match goal with |- match ?t with _ => _ end = _ => assert (E : t = req_map m) end.
  { induction m as [|[k x] xs IH]; [reflexivity|]. cbn [req_map]. rewrite <- IH. reflexivity. }
  rewrite E. reflexivity.
Qed.

(* number of $required markers (as values: map values and list entries, at any depth, and the root) *)
Fixpoint count_req (v : value) : nat :=
  match v with
  | VStr s => if String.eqb s "$required" then 1 else 0
  | VList l => (fix go (l : list value) := match l with [] => 0 | x :: xs => count_req x + go xs end) l
  | VMap m => (fix go (m : emap) := match m with [] => 0 | (_, x) :: xs => count_req x + go xs end) m
  | _ => 0
  end.
Fixpoint count_list (l : list value) := match l with [] => 0 | x :: xs => count_req x + count_list xs end.
Fixpoint count_map (m : emap) := match m with [] => 0 | (_, x) :: xs => count_req x + count_map xs end.
Lemma count_req_list l : count_req (VList l) = count_list l.
Proof. cbn [count_req]. induction l as [|x xs IH]; [reflexivity|]. cbn [count_list]. rewrite <- IH. reflexivity. Qed.
Lemma count_req_map m : count_req (VMap m) = count_map m.
Proof. cbn [count_req]. induction m as [|[k x] xs IH]; [reflexivity|]. cbn [count_map]. rewrite <- IH. reflexivity. Qed.

(* a skeleton: every leaf is the marker, every container is non-empty *)
Fixpoint skeleton (v : value) : Prop :=
  match v with
  | VStr s => s = "$required"
  | VList l => l <> [] /\ (fix go (l : list value) := match l with [] => True | x :: xs => skeleton x /\ go xs end) l
  | VMap m => m <> [] /\ (fix go (m : emap) := match m with [] => True | (_, x) :: xs => skeleton x /\ go xs end) m
  | _ => False
  end.
Fixpoint skel_list (l : list value) : Prop := match l with [] => True | x :: xs => skeleton x /\ skel_list xs end.
Fixpoint skel_map (m : emap) : Prop := match m with [] => True | (_, x) :: xs => skeleton x /\ skel_map xs end.
Lemma skeleton_list l : skeleton (VList l) <-> l <> [] /\ skel_list l.
Proof. cbn [skeleton]. assert (E : forall l, (fix go (l : list value) := match l with [] => True | x :: xs => skeleton x /\ go xs end) l = skel_list l).
  { intro l0; induction l0 as [|x xs IH]; [reflexivity|]. cbn [skel_list]. rewrite <- IH. reflexivity. } rewrite E. tauto. Qed.
Lemma skeleton_map m : skeleton (VMap m) <-> m <> [] /\ skel_map m.
Proof. cbn [skeleton]. assert (E : forall m, (fix go (m : emap) := match m with [] => True | (_, x) :: xs => skeleton x /\ go xs end) m = skel_map m).
  { intro m0; induction m0 as [|[k x] xs IH]; [reflexivity|]. cbn [skel_map]. rewrite <- IH. reflexivity. } rewrite E. tauto. Qed.

Lemma required_str s : required (VStr s) = if String.eqb s "$required" then Some (VStr s) else None.
Proof. reflexivity. Qed.

Theorem required_count v : count_req v = match required v with Some r => count_req r | None => 0 end.
Proof.
  induction v as [| | |g|s|l IH|m IH] using value_ind'; try reflexivity.
  - rewrite required_str. cbn [count_req]. destruct (String.eqb s "$required") eqn:E; cbn [count_req]; rewrite ?E; reflexivity.
  - rewrite required_list, count_req_list.
    assert (H : count_list l = count_list (req_list l)).
    { induction IH as [|x xs Hx _ IHxs]; [reflexivity|]. cbn [count_list req_list].
      destruct (required x) as [y|]; cbn [count_list]; lia. }
    destruct (req_list l) as [|a t] eqn:E; [cbn in H; lia|]. rewrite count_req_list. exact H.
  - rewrite required_map, count_req_map.
    assert (H : count_map m = count_map (req_map m)).
    { induction IH as [|[k x] xs Hx _ IHxs]; [reflexivity|]. cbn [count_map req_map]. cbn [snd] in Hx.
      destruct (required x) as [y|]; cbn [count_map]; lia. }
    destruct (req_map m) as [|a t] eqn:E; [cbn in H; lia|]. rewrite count_req_map. exact H.
Qed.

Theorem required_skeleton v r : required v = Some r -> skeleton r.
Proof.
  revert r. induction v as [| | |g|s|l IH|m IH] using value_ind'; intros r0 H; try discriminate.
  - rewrite required_str in H. destruct (String.eqb s "$required") eqn:E; [|discriminate]. inversion H; subst.
    cbn. now apply String.eqb_eq.
  - rewrite required_list in H.
    assert (Hs : skel_list (req_list l)).
    { clear H. induction IH as [|x xs Hx _ IHxs]; [exact Logic.I|]. cbn [req_list].
      destruct (required x) as [y|] eqn:E; [|exact IHxs]. cbn [skel_list]. split; [now apply Hx|exact IHxs]. }
    destruct (req_list l) as [|a t] eqn:E; [discriminate|]. inversion H; subst. apply skeleton_list. split; [discriminate|exact Hs].
  - rewrite required_map in H.
    assert (Hs : skel_map (req_map m)).
    { clear H. induction IH as [|[k x] xs Hx _ IHxs]; [exact Logic.I|]. cbn [req_map]. cbn [snd] in Hx.
      destruct (required x) as [y|] eqn:E; [|exact IHxs]. cbn [skel_map]. split; [now apply Hx|exact IHxs]. }
    destruct (req_map m) as [|a t] eqn:E; [discriminate|]. inversion H; subst. apply skeleton_map. split; [discriminate|exact Hs].
Qed.

Theorem required_none_iff v : required v = None <-> count_req v = 0.
Proof.
  split.
  - intro H. rewrite required_count, H. reflexivity.
  - induction v as [| | |g|s|l IH|m IH] using value_ind'; intro H; try reflexivity.
    + rewrite required_str. cbn [count_req] in H. destruct (String.eqb s "$required"); [discriminate|reflexivity].
    + rewrite required_list. rewrite count_req_list in H.
      assert (E : req_list l = []).
      { induction IH as [|x xs Hx _ IHxs]; [reflexivity|]. cbn [count_list] in H. cbn [req_list].
        rewrite Hx by lia. apply IHxs. lia. }
      rewrite E. reflexivity.
    + rewrite required_map. rewrite count_req_map in H.
      assert (E : req_map m = []).
      { induction IH as [|[k x] xs Hx _ IHxs]; [reflexivity|]. cbn [count_map] in H. cbn [req_map]. cbn [snd] in Hx.
        rewrite Hx by lia. apply IHxs. lia. }
      rewrite E. reflexivity.
Qed.

Theorem required_idempotent v r : required v = Some r -> required r = Some r.
Proof.
  revert r. induction v as [| | |g|s|l IH|m IH] using value_ind'; intros r0 H; try discriminate.
  - rewrite required_str in H. destruct (String.eqb s "$required") eqn:E; [|discriminate]. inversion H; subst.
    rewrite required_str, E. reflexivity.
  - rewrite required_list in H.
    assert (Hfix : req_list (req_list l) = req_list l).
    { clear H. induction IH as [|x xs Hx _ IHxs]; [reflexivity|]. cbn [req_list].
      destruct (required x) as [y|] eqn:E; [|exact IHxs]. cbn [req_list]. rewrite (Hx y eq_refl). now rewrite IHxs. }
    destruct (req_list l) as [|a t] eqn:E; [discriminate|]. inversion H; subst. rewrite required_list, Hfix. reflexivity.
  - rewrite required_map in H.
    assert (Hfix : req_map (req_map m) = req_map m).
    { clear H. induction IH as [|[k x] xs Hx _ IHxs]; [reflexivity|]. cbn [req_map]. cbn [snd] in Hx.
      destruct (required x) as [y|] eqn:E; [|exact IHxs]. cbn [req_map]. rewrite (Hx y eq_refl). now rewrite IHxs. }
    destruct (req_map m) as [|a t] eqn:E; [discriminate|]. inversion H; subst. rewrite required_map, Hfix. reflexivity.
Qed.

(* positions of markers. In the input, a list entry's index is counted among the entries that
   contain a marker (entries without one are dropped by bklr); map keys are kept as they are. *)
Inductive pos := PK (k : string) | PI (i : nat).

Fixpoint mpaths (v : value) : list (list pos) :=           (* positions in a skeleton / any tree, real indices *)
  match v with
  | VStr s => if String.eqb s "$required" then [[]] else []
  | VList l => (fix go (l : list value) (i : nat) := match l with [] => [] | x :: xs => map (cons (PI i)) (mpaths x) ++ go xs (S i) end) l 0
  | VMap m => (fix go (m : emap) := match m with [] => [] | (k, x) :: xs => map (cons (PK k)) (mpaths x) ++ go xs end) m
  | _ => []
  end.

Fixpoint cpaths (v : value) : list (list pos) :=           (* positions with list indices compressed *)
  match v with
  | VStr s => if String.eqb s "$required" then [[]] else []
  | VList l => (fix go (l : list value) (i : nat) :=
                  match l with [] => []
                  | x :: xs => match cpaths x with [] => go xs i | ps => map (cons (PI i)) ps ++ go xs (S i) end end) l 0
  | VMap m => (fix go (m : emap) := match m with [] => [] | (k, x) :: xs => map (cons (PK k)) (cpaths x) ++ go xs end) m
  | _ => []
  end.

Fixpoint mpaths_list (l : list value) (i : nat) :=
  match l with [] => [] | x :: xs => map (cons (PI i)) (mpaths x) ++ mpaths_list xs (S i) end.
Fixpoint mpaths_map (m : emap) :=
  match m with [] => [] | (k, x) :: xs => map (cons (PK k)) (mpaths x) ++ mpaths_map xs end.
Fixpoint cpaths_list (l : list value) (i : nat) :=
  match l with [] => [] | x :: xs => match cpaths x with [] => cpaths_list xs i | ps => map (cons (PI i)) ps ++ cpaths_list xs (S i) end end.
Fixpoint cpaths_map (m : emap) :=
  match m with [] => [] | (k, x) :: xs => map (cons (PK k)) (cpaths x) ++ cpaths_map xs end.

Lemma mpaths_list_eq l : mpaths (VList l) = mpaths_list l 0.
Proof. cbn [mpaths]. generalize 0. induction l as [|x xs IH]; intro i; [reflexivity|]. cbn [mpaths_list]. rewrite <- (IH (S i)). reflexivity. Qed.
Lemma mpaths_map_eq m : mpaths (VMap m) = mpaths_map m.
Proof. cbn [mpaths]. induction m as [|[k x] xs IH]; [reflexivity|]. cbn [mpaths_map]. rewrite <- IH. reflexivity. Qed.
Lemma cpaths_list_eq l : cpaths (VList l) = cpaths_list l 0.
Proof. cbn [cpaths]. generalize 0. induction l as [|x xs IH]; intro i; [reflexivity|]. cbn [cpaths_list]. rewrite <- (IH (S i)), <- (IH i). reflexivity. Qed.
Lemma cpaths_map_eq m : cpaths (VMap m) = cpaths_map m.
Proof. cbn [cpaths]. induction m as [|[k x] xs IH]; [reflexivity|]. cbn [cpaths_map]. rewrite <- IH. reflexivity. Qed.

Lemma cpaths_nil_iff v : cpaths v = [] <-> required v = None.
Proof.
  induction v as [| | |g|s|l IH|m IH] using value_ind'; try (cbn; tauto).
  - rewrite required_str. cbn [cpaths]. destruct (String.eqb s "$required"); split; intro; (discriminate || reflexivity).
  - rewrite cpaths_list_eq, required_list. generalize 0.
    induction IH as [|x xs Hx _ IHxs]; intro i; [cbn; tauto|].
    cbn [cpaths_list req_list]. destruct (required x) as [y|] eqn:E.
    + destruct (cpaths x) as [|p ps] eqn:Ec.
      * exfalso. assert (Some y = None) by (apply Hx; reflexivity). discriminate.
      * split; intro H; [destruct ps; discriminate H|discriminate].
    + assert (Ec : cpaths x = []) by (apply Hx; reflexivity). rewrite Ec. apply IHxs.
  - rewrite cpaths_map_eq, required_map.
    induction IH as [|[k x] xs Hx _ IHxs]; [cbn; tauto|]. cbn [snd] in Hx.
    cbn [cpaths_map req_map]. destruct (required x) as [y|] eqn:E.
    + destruct (cpaths x) as [|p ps] eqn:Ec.
      * exfalso. assert (Some y = None) by (apply Hx; reflexivity). discriminate.
      * split; intro H; discriminate.
    + assert (Ec : cpaths x = []) by (apply Hx; reflexivity). rewrite Ec. cbn [map app]. apply IHxs.
Qed.

Theorem required_positions v r : required v = Some r -> mpaths r = cpaths v.
Proof.
  revert r. induction v as [| | |g|s|l IH|m IH] using value_ind'; intros r0 H; try discriminate.
  - rewrite required_str in H. destruct (String.eqb s "$required") eqn:E; [|discriminate]. inversion H; subst.
    cbn [mpaths cpaths]. rewrite E. reflexivity.
  - rewrite required_list in H.
    assert (Hl : forall i, mpaths_list (req_list l) i = cpaths_list l i).
    { clear H. induction IH as [|x xs Hx _ IHxs]; intro i; [reflexivity|]. cbn [req_list cpaths_list].
      destruct (required x) as [y|] eqn:E.
      - cbn [mpaths_list]. rewrite (Hx y eq_refl), IHxs.
        destruct (cpaths x) as [|p ps] eqn:Ec; [|reflexivity].
        exfalso. apply cpaths_nil_iff in Ec. rewrite Ec in E. discriminate.
      - assert (Ec : cpaths x = []) by (apply cpaths_nil_iff; exact E). rewrite Ec. apply IHxs. }
    destruct (req_list l) as [|a t] eqn:E; [discriminate|]. inversion H; subst.
    rewrite mpaths_list_eq, cpaths_list_eq. apply Hl.
  - rewrite required_map in H.
    assert (Hm : mpaths_map (req_map m) = cpaths_map m).
    { clear H. induction IH as [|[k x] xs Hx _ IHxs]; [reflexivity|]. cbn [snd] in Hx. cbn [req_map cpaths_map].
      destruct (required x) as [y|] eqn:E.
      - cbn [mpaths_map]. rewrite (Hx y eq_refl), IHxs. reflexivity.
      - assert (Ec : cpaths x = []) by (apply cpaths_nil_iff; exact E). rewrite Ec. cbn [map app]. exact IHxs. }
    destruct (req_map m) as [|a t] eqn:E; [discriminate|]. inversion H; subst.
    rewrite mpaths_map_eq, cpaths_map_eq. exact Hm.
Qed.
