(* Base64Proofs.v — b64_decode inverts b64_encode, for every byte string. *)
From Coq Require Import String Ascii List ZArith NArith Bool Lia ZifyN ZifyBool.
From Bkl Require Import Model.Value Model.Str.
Import ListNotations.
Local Open Scope N_scope.

Ltac Zify.zify_post_hook ::= Z.div_mod_to_equations.

Definition all64 : list N := map N.of_nat (seq 0 64).

Lemma all64_complete n : n < 64 -> In n all64.
Proof. intro H. unfold all64. apply in_map_iff. exists (N.to_nat n). split; [lia|]. apply in_seq. lia. Qed.

Lemma b64_val_char_all : forallb (fun n => match b64_val (b64_char n) with Some m => N.eqb m n | None => false end) all64 = true.
Proof. vm_compute. reflexivity. Qed.

Lemma b64_val_char n : n < 64 -> b64_val (b64_char n) = Some n.
Proof.
  intro H. pose proof (proj1 (forallb_forall _ _) b64_val_char_all n (all64_complete n H)) as E. cbn beta in E.
  destruct (b64_val (b64_char n)) as [m|]; [|discriminate]. apply N.eqb_eq in E. now subst.
Qed.

Lemma b64_char_not_pad_all : forallb (fun n => negb (Ascii.eqb (b64_char n) "="%char)) all64 = true.
Proof. vm_compute. reflexivity. Qed.

Lemma b64_char_not_pad n : n < 64 -> Ascii.eqb (b64_char n) "="%char = false.
Proof.
  intro H. pose proof (proj1 (forallb_forall _ _) b64_char_not_pad_all n (all64_complete n H)) as E. cbn beta in E.
  now destruct (Ascii.eqb (b64_char n) "="%char).
Qed.

Lemma byte_bound a : N_of_ascii a < 256.
Proof. apply N_ascii_bounded. Qed.

Lemma byte_back a n : n = N_of_ascii a -> ascii_of_N n = a.
Proof. intros ->. apply ascii_N_embedding. Qed.

Local Open Scope string_scope.

Lemma decode_group1 a :
  b64_decode (String (b64_char (N_of_ascii a / 4)) (String (b64_char ((N_of_ascii a mod 4) * 16)) "==")) = Some (String a "").
Proof.
  pose proof (byte_bound a) as B. set (x := N_of_ascii a) in *.
  cbn [b64_decode]. rewrite !b64_val_char by lia.
  replace (Ascii.eqb "=" "=")%char with true by reflexivity. cbn [andb].
  f_equal. f_equal. apply byte_back. subst x. lia.
Qed.

Lemma decode_group2 a b :
  b64_decode (String (b64_char (N_of_ascii a / 4)) (String (b64_char ((N_of_ascii a mod 4) * 16 + N_of_ascii b / 16))
             (String (b64_char ((N_of_ascii b mod 16) * 4)) "="))) = Some (String a (String b "")).
Proof.
  pose proof (byte_bound a) as Ba. pose proof (byte_bound b) as Bb. set (x := N_of_ascii a) in *. set (y := N_of_ascii b) in *.
  cbn [b64_decode]. rewrite !b64_val_char by lia. rewrite (b64_char_not_pad ((y mod 16) * 4)) by lia.
  replace (Ascii.eqb "=" "=")%char with true by reflexivity.
  f_equal. f_equal; [apply byte_back; subst x y; lia|]. f_equal. apply byte_back. subst x y. lia.
Qed.

Lemma decode_group3 a b c r t : b64_decode r = Some t ->
  b64_decode (String (b64_char (N_of_ascii a / 4)) (String (b64_char ((N_of_ascii a mod 4) * 16 + N_of_ascii b / 16))
             (String (b64_char ((N_of_ascii b mod 16) * 4 + N_of_ascii c / 64)) (String (b64_char (N_of_ascii c mod 64)) r)))) =
    Some (String a (String b (String c t))).
Proof.
  intro Hr.
  pose proof (byte_bound a) as Ba. pose proof (byte_bound b) as Bb. pose proof (byte_bound c) as Bc.
  set (x := N_of_ascii a) in *. set (y := N_of_ascii b) in *. set (z := N_of_ascii c) in *.
  cbn [b64_decode]. rewrite !b64_val_char by lia.
  rewrite (b64_char_not_pad ((y mod 16) * 4 + z / 64)) by lia. rewrite (b64_char_not_pad (z mod 64)) by lia.
  rewrite Hr. f_equal. f_equal; [apply byte_back; subst x y z; lia|]. f_equal; [apply byte_back; subst x y z; lia|].
  f_equal. apply byte_back. subst x y z. lia.
Qed.

Theorem b64_roundtrip s : b64_decode (b64_encode s) = Some s.
Proof.
  assert (G : forall n s, (String.length s <= n)%nat -> b64_decode (b64_encode s) = Some s).
  { induction n as [|n IH]; intros s0 H.
    - destruct s0; [reflexivity|cbn in H; lia].
    - destruct s0 as [|a [|b [|c r]]].
      + reflexivity.
      + cbn [b64_encode]. apply decode_group1.
      + cbn [b64_encode]. apply decode_group2.
      + cbn [b64_encode]. apply decode_group3. apply IH. cbn in H. lia. }
  apply (G (String.length s)). lia.
Qed.
