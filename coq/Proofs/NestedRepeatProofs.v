(* NestedRepeatProofs.v — $repeat inside lists and maps (process2.go): an entry {$repeat: n, ...body} stands for the
   n evaluations of its body with $repeat bound to 0..n-1, in index order, in place; the loops of the model are
   shown equal to that declarative reading, errors included. *)
From Coq Require Import String Ascii List ZArith Bool Lia.
From Bkl Require Import Model.Value Model.Merge Model.Str Model.Eval Proofs.MapsProofs Proofs.RepeatProofs.
Import ListNotations.
Local Open Scope string_scope.
Local Open Scope list_scope.

(* a null result is dropped *)
Definition keep (v : value) : list value := match v with VNull => [] | _ => [v] end.

Section NR.
Variable o : oracles.
Variable S : list value.
Variable di : nat.
Notation p2' := (p2 o S di).

(* what one list entry contributes to the evaluated list *)
Definition entry_parts (f : nat) (ec : ectx) (v : value) : res (list value) :=
  match v with
  | VMap vm =>
      match lookup "$repeat" vm with
      | Some r =>
          match r with
          | VInt n => do ys <- map_res (fun i => p2' f (insert "$repeat" (VInt i) ec) (VMap (remove "$repeat" vm))) (range n);
                      Ok (flat_map keep ys)
          | _ => Err EInvalidType
          end
      | None => do v2 <- p2' f ec v; Ok (keep v2)
      end
  | _ => do v2 <- p2' f ec v; Ok (keep v2)
  end.

Lemma plain_step (a : list value) (r : res value) :
  (do a0 <- Ok a; do v2 <- r; match v2 with VNull => Ok a0 | _ => Ok (a0 ++ [v2]) end)
  = (do ys <- (do v2 <- r; Ok (keep v2)); Ok (a ++ ys)).
Proof. destruct r as [v2|e]; [destruct v2|]; cbn; rewrite ?app_nil_r; reflexivity. Qed.

(* the loop over one entry's indices *)
Lemma inner_loop_spec (h : Z -> res value) idx : forall a,
  fold_left (fun acc2 i => do a2 <- acc2; do v2 <- h i; match v2 with VNull => Ok a2 | _ => Ok (a2 ++ [v2]) end) idx (Ok a)
  = do ys <- map_res h idx; Ok (a ++ flat_map keep ys).
Proof.
  induction idx as [|i idx IH]; intro a; cbn [fold_left map_res bind flat_map]; [now rewrite app_nil_r|].
  destruct (h i) as [v|e]; cbn [bind].
  - destruct v; rewrite IH; destruct (map_res h idx); cbn [bind flat_map keep app]; try rewrite <- app_assoc; reflexivity.
  - apply fold_err_stays. reflexivity.
Qed.

Lemma outer_loop_spec (g : value -> res (list value)) (step : res (list value) -> value -> res (list value)) l :
  (forall a v, step (Ok a) v = do ys <- g v; Ok (a ++ ys)) -> (forall e v, step (Err e) v = Err e) ->
  forall a, fold_left step l (Ok a) = do parts <- map_res g l; Ok (a ++ concat parts).
Proof.
  intros Hs He. induction l as [|v l IH]; intro a; cbn [fold_left map_res bind concat]; [now rewrite app_nil_r|].
  rewrite Hs. destruct (g v) as [ys|e]; cbn [bind].
  - rewrite IH. destruct (map_res g l); cbn [bind concat]; [now rewrite app_assoc|reflexivity].
  - now apply fold_err_stays.
Qed.

(* a list without $encode evaluates to the concatenation of what its entries contribute *)
Theorem p2_list_spec f ec l l1 :
  pop_list_map_value l "$encode" = Ok (VNull, l1) ->
  p2' (Datatypes.S f) ec (VList l) = do parts <- map_res (entry_parts f ec) l1; Ok (VList (concat parts)).
Proof.
  intro Hpop. cbn [p2]. rewrite Hpop. cbn [bind is_null negb].
  rewrite (outer_loop_spec (entry_parts f ec)); [destruct (map_res (entry_parts f ec) l1); reflexivity| |reflexivity].
  intros a v. unfold entry_parts. destruct v as [|b|z|g|s|l0|vm]; try apply plain_step.
  destruct (lookup "$repeat" vm) as [r|]; [|apply plain_step].
  destruct r; try reflexivity. cbn [bind]. rewrite inner_loop_spec.
  match goal with |- context [map_res ?h ?idx] => destruct (map_res h idx) end; reflexivity.
Qed.

(* the entry {$repeat: n, body}: n evaluations of body, in index order, nulls dropped; n <= 0 contributes nothing *)
Corollary entry_repeat f ec vm n :
  lookup "$repeat" vm = Some (VInt n) ->
  entry_parts f ec (VMap vm) =
    do ys <- map_res (fun i => p2' f (insert "$repeat" (VInt i) ec) (VMap (remove "$repeat" vm))) (map Z.of_nat (seq 0 (Z.to_nat n)));
    Ok (flat_map keep ys).
Proof. intro H. unfold entry_parts. rewrite H, range_spec. reflexivity. Qed.

Corollary entry_plain f ec v :
  (forall vm, v = VMap vm -> lookup "$repeat" vm = None) ->
  entry_parts f ec v = do v2 <- p2' f ec v; Ok (keep v2).
Proof. intro H. destruct v as [|b|z|g|s|l0|vm]; try reflexivity. unfold entry_parts. now rewrite (H vm eq_refl). Qed.

Corollary entry_bad_count f ec vm r :
  lookup "$repeat" vm = Some r -> (forall n, r <> VInt n) -> entry_parts f ec (VMap vm) = Err EInvalidType.
Proof. intros H Hn. unfold entry_parts. rewrite H. destruct r; try reflexivity. now elim (Hn z). Qed.
End NR.
