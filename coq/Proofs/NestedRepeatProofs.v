(* NestedRepeatProofs.v — $repeat inside lists and maps (process2.go): an entry {$repeat: n, ...body} stands for the
   n evaluations of its body with $repeat bound to 0..n-1, in index order, in place; the loops of the model are
   shown equal to that declarative reading, errors included. *)
From Coq Require Import String Ascii List ZArith Bool Lia.
From Bkl Require Import Model.Value Model.Merge Model.Str Model.Eval Proofs.MapsProofs Proofs.RepeatProofs Proofs.YamlProofs.
Import ListNotations.
Local Open Scope string_scope.
Local Open Scope list_scope.

(* a null result is dropped *)
Definition keep (v : value) : list value := match v with VNull => [] | _ => [v] end.

Section NR.
Variable o : oracles.
Variable S : list value.
Variable di : nat.
Notation p2' := (p2 o S di).

(* what one list entry contributes to the evaluated list *)
Definition entry_parts (f : nat) (ec : ectx) (v : value) : res (list value) :=
  match v with
  | VMap vm =>
      match lookup "$repeat" vm with
      | Some r =>
          match r with
          | VInt n => do ys <- map_res (fun i => p2' f (insert "$repeat" (VInt i) ec) (VMap (remove "$repeat" vm))) (range n);
                      Ok (flat_map keep ys)
          | _ => Err EInvalidType
          end
      | None => do v2 <- p2' f ec v; Ok (keep v2)
      end
  | _ => do v2 <- p2' f ec v; Ok (keep v2)
  end.

Lemma plain_step (a : list value) (r : res value) :
  (do a0 <- Ok a; do v2 <- r; match v2 with VNull => Ok a0 | _ => Ok (a0 ++ [v2]) end)
  = (do ys <- (do v2 <- r; Ok (keep v2)); Ok (a ++ ys)).
Proof. destruct r as [v2|e]; [destruct v2|]; cbn; rewrite ?app_nil_r; reflexivity. Qed.

(* the loop over one entry's indices *)
Lemma inner_loop_spec (h : Z -> res value) idx : forall a,
  fold_left (fun acc2 i => do a2 <- acc2; do v2 <- h i; match v2 with VNull => Ok a2 | _ => Ok (a2 ++ [v2]) end) idx (Ok a)
  = do ys <- map_res h idx; Ok (a ++ flat_map keep ys).
Proof.
  induction idx as [|i idx IH]; intro a; cbn [fold_left map_res bind flat_map]; [now rewrite app_nil_r|].
  destruct (h i) as [v|e]; cbn [bind].
  - destruct v; rewrite IH; destruct (map_res h idx); cbn [bind flat_map keep app]; try rewrite <- app_assoc; reflexivity.
  - apply fold_err_stays. reflexivity.
Qed.

Lemma outer_loop_spec (g : value -> res (list value)) (step : res (list value) -> value -> res (list value)) l :
  (forall a v, step (Ok a) v = do ys <- g v; Ok (a ++ ys)) -> (forall e v, step (Err e) v = Err e) ->
  forall a, fold_left step l (Ok a) = do parts <- map_res g l; Ok (a ++ concat parts).
Proof.
  intros Hs He. induction l as [|v l IH]; intro a; cbn [fold_left map_res bind concat]; [now rewrite app_nil_r|].
  rewrite Hs. destruct (g v) as [ys|e]; cbn [bind].
  - rewrite IH. destruct (map_res g l); cbn [bind concat]; [now rewrite app_assoc|reflexivity].
  - now apply fold_err_stays.
Qed.

(* a list without $encode evaluates to the concatenation of what its entries contribute *)
Theorem p2_list_spec f ec l l1 :
  pop_list_map_value l "$encode" = Ok (VNull, l1) ->
  p2' (Datatypes.S f) ec (VList l) = do parts <- map_res (entry_parts f ec) l1; Ok (VList (concat parts)).
Proof.
  intro Hpop. cbn [p2]. rewrite Hpop. cbn [bind is_null negb].
  rewrite (outer_loop_spec (entry_parts f ec)); [destruct (map_res (entry_parts f ec) l1); reflexivity| |reflexivity].
  intros a v. unfold entry_parts. destruct v as [|b|z|g|s|l0|vm]; try apply plain_step.
  destruct (lookup "$repeat" vm) as [r|]; [|apply plain_step].
  destruct r; try reflexivity. cbn [bind]. rewrite inner_loop_spec.
  match goal with |- context [map_res ?h ?idx] => destruct (map_res h idx) end; reflexivity.
Qed.

(* the entry {$repeat: n, body}: n evaluations of body, in index order, nulls dropped; n <= 0 contributes nothing *)
Corollary entry_repeat f ec vm n :
  lookup "$repeat" vm = Some (VInt n) ->
  entry_parts f ec (VMap vm) =
    do ys <- map_res (fun i => p2' f (insert "$repeat" (VInt i) ec) (VMap (remove "$repeat" vm))) (map Z.of_nat (seq 0 (Z.to_nat n)));
    Ok (flat_map keep ys).
Proof. intro H. unfold entry_parts. rewrite H, range_spec. reflexivity. Qed.

Corollary entry_plain f ec v :
  (forall vm, v = VMap vm -> lookup "$repeat" vm = None) ->
  entry_parts f ec v = do v2 <- p2' f ec v; Ok (keep v2).
Proof. intro H. destruct v as [|b|z|g|s|l0|vm]; try reflexivity. unfold entry_parts. now rewrite (H vm eq_refl). Qed.

Corollary entry_bad_count f ec vm r :
  lookup "$repeat" vm = Some r -> (forall n, r <> VInt n) -> entry_parts f ec (VMap vm) = Err EInvalidType.
Proof. intros H Hn. unfold entry_parts. rewrite H. destruct r; try reflexivity. now elim (Hn z). Qed.

(* ---- maps: the $repeat pass over the entries, then $encode / $decode / $value / plain ---- *)
Definition repeat_step (f : nat) (ec : ectx) (acc : res emap) (kv : string * value) : res emap :=
     do a <- acc;
     let '(k, v) := kv in
     match v with
     | VMap vm =>
         match lookup "$repeat" vm with
         | Some r =>
             let body := VMap (remove "$repeat" vm) in
             do idx <- match r with VInt n => Ok (range n) | _ => Err EInvalidType end;
             do mm <- fold_left (fun acc2 i =>
                        do a2 <- acc2;
                        let ec' := insert "$repeat" (VInt i) ec in
                        do v2 <- p2' f ec' body;
                        match v2 with
                        | VNull => Ok a2
                        | _ => do k2 <- p2' f ec' (VStr k);
                               match k2 with VStr k3 => Ok (insert k3 v2 a2) | _ => Err EInvalidType end
                        end) idx (Ok []);
             Ok (fold_left (fun a3 kv2 => insert (fst kv2) (snd kv2) a3) mm a)
         | None => Ok (insert k v a)
         end
     | _ => Ok (insert k v a)
     end.
Definition repeat_pass (f : nat) (ec : ectx) (m : emap) : res emap := fold_left (repeat_step f ec) m (Ok []).

(* what index i of a map entry  k: {$repeat: n, ...body}  contributes: nothing when the body evaluates to null,
   else the pair (evaluated key, evaluated body) - the key is evaluated with the same binding, so k: "$repeat" or an
   interpolation of it names the copies apart *)
Definition map_copy (f : nat) (ec : ectx) (k : string) (body : value) (i : Z) : res (list (string * value)) :=
  let ec' := insert "$repeat" (VInt i) ec in
  do v2 <- p2' f ec' body;
  match v2 with
  | VNull => Ok []
  | _ => do k2 <- p2' f ec' (VStr k); match k2 with VStr k3 => Ok [(k3, v2)] | _ => Err EInvalidType end
  end.

Lemma map_inner_loop_spec f ec k body idx : forall a,
  fold_left (fun acc2 i =>
     do a2 <- acc2;
     let ec' := insert "$repeat" (VInt i) ec in
     do v2 <- p2' f ec' body;
     match v2 with
     | VNull => Ok a2
     | _ => do k2 <- p2' f ec' (VStr k);
            match k2 with VStr k3 => Ok (insert k3 v2 a2) | _ => Err EInvalidType end
     end) idx (Ok a)
  = do ps <- map_res (map_copy f ec k body) idx; Ok (fold_left ins (concat ps) a).
Proof.
  induction idx as [|i idx IH]; intro a; [reflexivity|]. cbn [fold_left map_res bind]. unfold map_copy at 1.
  cbn zeta. destruct (p2' f (insert "$repeat" (VInt i) ec) body) as [v2|e]; cbn [bind]; [|apply fold_err_stays; reflexivity].
  destruct v2; try (rewrite IH; destruct (map_res _ idx); reflexivity);
    (destruct (p2' f (insert "$repeat" (VInt i) ec) (VStr k)) as [k2|e]; cbn [bind]; [|apply fold_err_stays; reflexivity];
     destruct k2; try (apply fold_err_stays; reflexivity);
     rewrite IH; destruct (map_res _ idx); reflexivity).
Qed.

(* the entry  k: {$repeat: n, ...body}  : the copies for i = 0..n-1, later copies overriding earlier ones with the
   same evaluated key, all of them overriding what the map held under those keys *)
Theorem repeat_step_entry f ec a k vm n :
  lookup "$repeat" vm = Some (VInt n) ->
  repeat_step f ec (Ok a) (k, VMap vm) =
    do ps <- map_res (map_copy f ec k (VMap (remove "$repeat" vm))) (range n);
    Ok (fold_left ins (fold_left ins (concat ps) []) a).
Proof.
  intro H. unfold repeat_step. cbn [bind]. rewrite H. cbn [bind]. rewrite map_inner_loop_spec.
  destruct (map_res _ (range n)); reflexivity.
Qed.

Theorem repeat_step_other f ec a k v :
  (forall vm, v = VMap vm -> lookup "$repeat" vm = None) -> repeat_step f ec (Ok a) (k, v) = Ok (insert k v a).
Proof.
  intro H. unfold repeat_step. cbn [bind]. destruct v as [|b|z|g|s|l|vm]; try reflexivity. now rewrite (H vm eq_refl).
Qed.

(* a map carrying $encode: its content is evaluated, VALIDATED, and only then encoded *)
Theorem p2_map_encode f ec m m1 v :
  repeat_pass f ec m = Ok m1 -> lookup "$encode" m1 = Some v ->
  p2' (Datatypes.S f) ec (VMap m) =
    do obj2 <- p2' f ec (VMap (remove "$encode" m1)); do _ <- validate o obj2; encode_any o obj2 v.
Proof.
  intros H1 H2. cbn [p2].
  match goal with |- bind ?X _ = _ => change X with (repeat_pass f ec m) end.
  rewrite H1. cbn [bind]. rewrite H2. reflexivity.
Qed.

(* so whatever an $encode map evaluates to was produced from a subject that validation accepted *)
Corollary p2_encode_validated f ec m m1 v r :
  repeat_pass f ec m = Ok m1 -> lookup "$encode" m1 = Some v -> p2' (Datatypes.S f) ec (VMap m) = Ok r ->
  exists obj2, p2' f ec (VMap (remove "$encode" m1)) = Ok obj2 /\ validate o obj2 = Ok tt /\ encode_any o obj2 v = Ok r.
Proof.
  intros H1 H2. rewrite (p2_map_encode f ec m m1 v H1 H2).
  destruct (p2' f ec (VMap (remove "$encode" m1))) as [obj2|e]; [|discriminate]. cbn [bind].
  destruct (validate o obj2) as [[]|e] eqn:Ev; [|discriminate]. cbn [bind]. intro H. exists obj2. auto.
Qed.

(* a map without $repeat-valued entries passes through the first pass unchanged (it is re-inserted key by key) *)
Lemma repeat_pass_plain_gen f ec m : forall a,
  Forall (fun kv => match snd kv with VMap vm => lookup "$repeat" vm = None | _ => True end) m ->
  fold_left (repeat_step f ec) m (Ok a) = Ok (fold_left (fun a kv => insert (fst kv) (snd kv) a) m a).
Proof.
  induction m as [|[k v] m IH]; intros a H; [reflexivity|].
  inversion H as [|? ? Hk Hm]; subst. cbn [fold_left]. unfold repeat_step at 2. cbn [bind fst snd] in *.
  destruct v as [|b|z|g|s|l|vm]; try apply (IH _ Hm).
  destruct (lookup "$repeat" vm); [discriminate Hk|]. apply (IH _ Hm).
Qed.

Lemma repeat_pass_plain f ec m :
  Forall (fun kv => match snd kv with VMap vm => lookup "$repeat" vm = None | _ => True end) m ->
  repeat_pass f ec m = Ok (fold_left (fun a kv => insert (fst kv) (snd kv) a) m []).
Proof. apply repeat_pass_plain_gen. Qed.

(* the list form: [{$encode: v}, ...entries] *)
Theorem p2_list_encode f ec l l1 enc :
  pop_list_map_value l "$encode" = Ok (enc, l1) -> is_null enc = false ->
  p2' (Datatypes.S f) ec (VList l) = do obj2 <- p2' f ec (VList l1); do _ <- validate o obj2; encode_any o obj2 enc.
Proof. intros H1 H2. cbn [p2]. rewrite H1. cbn [bind]. rewrite H2. reflexivity. Qed.

Corollary p2_list_encode_validated f ec l l1 enc r :
  pop_list_map_value l "$encode" = Ok (enc, l1) -> is_null enc = false -> p2' (Datatypes.S f) ec (VList l) = Ok r ->
  exists obj2, p2' f ec (VList l1) = Ok obj2 /\ validate o obj2 = Ok tt /\ encode_any o obj2 enc = Ok r.
Proof.
  intros H1 H2. rewrite (p2_list_encode f ec l l1 enc H1 H2).
  destruct (p2' f ec (VList l1)) as [obj2|e]; [|discriminate]. cbn [bind].
  destruct (validate o obj2) as [[]|e] eqn:Ev; [|discriminate]. cbn [bind]. intro H. exists obj2. auto.
Qed.

(* the clean case: a (sorted) map with no $repeat-valued entry and an $encode key *)
Theorem p2_encode_validated_plain f ec m v r :
  ssorted m -> Forall (fun kv => match snd kv with VMap vm => lookup "$repeat" vm = None | _ => True end) m ->
  lookup "$encode" m = Some v -> p2' (Datatypes.S f) ec (VMap m) = Ok r ->
  exists obj2, p2' f ec (VMap (remove "$encode" m)) = Ok obj2 /\ validate o obj2 = Ok tt /\ encode_any o obj2 v = Ok r.
Proof.
  intros Hs Hr Hl Hp. apply (p2_encode_validated f ec m m v r); [|exact Hl|exact Hp].
  rewrite (repeat_pass_plain f ec m Hr). f_equal. apply (fold_ins_sorted m []). exact Hs.
Qed.
End NR.
