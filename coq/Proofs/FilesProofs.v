(* FilesProofs.v — parent resolution and load order over the abstract file system. *)
From Coq Require Import String Ascii List ZArith Bool Lia.
From Bkl Require Import Model.Value Model.Merge Model.Str Model.Eval Model.Parser Model.Files.
Import ListNotations.
Local Open Scope string_scope.
Local Open Scope list_scope.

(* the directive wins over symlink and filename *)
Lemma parents_directive fmts fs path docs docs' ps globs :
  parent_directive docs = Ok (docs', ps, false) -> ps <> [] -> forallb in_model_name ps = true ->
  map_res (fun p => match glob_files fmts fs p with [] => Err EMissingFile | l => Ok l end) ps = Ok globs ->
  parents_of fmts fs path docs = Ok (docs', concat globs, path).
Proof.
  intros H Hn Hm Hg. unfold parents_of. rewrite H. cbn [bind]. destruct ps; [congruence|]. rewrite Hm, Hg. reflexivity.
Qed.

Lemma parents_none fmts fs path docs docs' :
  parent_directive docs = Ok (docs', [], true) -> parents_of fmts fs path docs = Ok (docs', [], path).
Proof. intro H. unfold parents_of. rewrite H. reflexivity. Qed.

Lemma parents_conflict fmts fs path docs docs' p ps :
  parent_directive docs = Ok (docs', p :: ps, true) -> parents_of fmts fs path docs = Err EConflictingParent.
Proof. intro H. unfold parents_of. rewrite H. reflexivity. Qed.

(* without a directive: the symlink target's name (or the file's own) decides, through the filename rule *)
Lemma parents_filename fmts fs path docs docs' real d :
  parent_directive docs = Ok (docs', [], false) -> resolve (link_fuel fs) fs path = Some (real, d) ->
  parents_of fmts fs path docs = bind (parents_from_filename fmts fs real) (fun ps => Ok (docs', ps, real)).
Proof. intros H Hr. unfold parents_of. rewrite H. cbn [bind]. rewrite Hr. reflexivity. Qed.

(* a missing layer is an error *)
Lemma filename_missing fmts fs name e2 e1 r :
  rev (split_on "."%char name) = e1 :: e2 :: r -> r <> [] -> find_file fmts fs (join "." (rev r)) = None ->
  parents_from_filename fmts fs name = Err EMissingFile.
Proof. intros H Hr Hf. unfold parents_from_filename. rewrite H. destruct r; [congruence|]. now rewrite Hf. Qed.

Lemma filename_base fmts fs name e1 e2 : rev (split_on "."%char name) = [e1; e2] -> parents_from_filename fmts fs name = Ok [].
Proof. intro H. unfold parents_from_filename. now rewrite H. Qed.

(* a * wildcard never crosses a dot, and only supported extensions are layers *)
Lemma glob_no_dot_cross fmts fs p n : In n (glob_files fmts fs p) ->
  count_dots n = count_dots (p ++ ".*") /\ supported fmts (ext n) = true /\ wmatch (p ++ ".*") n = true.
Proof.
  unfold glob_files. intro H.
  assert (Hin : In n (filter (fun n0 => wmatch (p ++ ".*") n0 && Nat.eqb (count_dots n0) (count_dots (p ++ ".*")) && supported fmts (ext n0)) (map fst fs))).
  { revert H. generalize (filter (fun n0 => wmatch (p ++ ".*") n0 && Nat.eqb (count_dots n0) (count_dots (p ++ ".*")) && supported fmts (ext n0)) (map fst fs)).
    intro l. unfold sort_names. induction l as [|x t IH]; [exact id|]. cbn [fold_right].
    intro H. assert (G : forall s l', In n (insert_sorted s l') -> n = s \/ In n l').
    { clear. intros s l'. induction l' as [|y u IHu]; cbn [insert_sorted In].
      - intros [E|[]]. left. now symmetry.
      - destruct (String.leb s y); cbn [In].
        + intros [E|H]; [left; now symmetry|right; exact H].
        + intros [E|H]; [right; now left|]. destruct (IHu H) as [E'|H']; [now left|right; now right]. }
    destruct (G _ _ H) as [->|H']; [now left|right; now apply IH]. }
  apply filter_In in Hin as [_ Hc]. apply andb_prop in Hc as [Hc H3]. apply andb_prop in Hc as [H1 H2].
  apply Nat.eqb_eq in H2. auto.
Qed.

(* cycles between files are reported *)
Lemma load_cycle f fmts fs path cid chain : In path chain -> load_chain (S f) fmts fs path cid chain = Err ECircular.
Proof.
  intro H. cbn [load_chain].
  assert (E : existsb (String.eqb path) chain = true) by (apply existsb_exists; exists path; split; [exact H|apply String.eqb_refl]).
  now rewrite E.
Qed.

(* base first: a file comes after all the files it inherits from *)
Lemma load_self_last f fmts fs path cid chain files : load_chain f fmts fs path cid chain = Ok files ->
  exists pre self, files = pre ++ [self] /\
    lf_id self = match cid with Some c => (c ++ "|" ++ path)%string | None => path end.
Proof.
  destruct f as [|f]; [discriminate|]. cbn [load_chain].
  destruct (existsb _ chain); [discriminate|]. destruct (negb _); [discriminate|].
  destruct (resolve _ fs path) as [[real [docs|e]]|]; try discriminate.
  destruct (parents_of fmts fs path docs) as [[[docs' ps] path']|]; [|discriminate]. cbn [bind].
  destruct (map_res _ ps) as [pfs|]; [|discriminate]. cbn [bind]. intro H. inversion H; subst.
  eexists; eexists; split; [reflexivity|reflexivity].
Qed.

(* several inputs are applied left to right *)
Lemma cli_inputs_cons fmts fs skip i r next fmt : in_model_name i = true ->
  cli_inputs fmts fs skip (i :: r) next fmt =
    bind (file_match fmts fs i) (fun rf =>
      let fmt' := match fmt with Some x => Some x | None => Some (snd rf) end in
      bind (if skip
            then match resolve (link_fuel fs) fs (fst rf) with
                 | Some (_, Ok docs) =>
                     if supported fmts (ext (fst rf))
                     then Ok [{| lf_id := fst rf; lf_docs := map (fun d => match d with VMap m => VMap (remove "$parent" m) | _ => d end) docs; lf_parent_files := [] |}]
                     else Err EUnknownFormat
                 | Some (_, Err _) => Err EUnmarshal
                 | None => Err EMissingFile
                 end
            else load_chain (2 + List.length fs) fmts fs (fst rf) None [])
        (fun files => let ops_nx := merge_files_ops files next in
           bind (cli_inputs fmts fs skip r (snd ops_nx) fmt') (fun rest => Ok (fst ops_nx ++ fst rest, snd rest)))).
Proof.
  intro H. cbn [cli_inputs]. rewrite H. cbn [negb].
  destruct (file_match fmts fs i) as [[real f]|]; [|reflexivity]. cbn [bind fst snd].
  match goal with |- bind ?X _ = bind ?Y _ => change X with Y; destruct Y as [files|]; [|reflexivity] end.
  cbn [bind]. destruct (merge_files_ops files next) as [ops nx]. cbn [fst snd].
  destruct (cli_inputs fmts fs skip r nx _) as [[ops' fmt'']|]; reflexivity.
Qed.

(* ---- the depth bound of the model is never what ends a load ----
   load_chain recurses on fuel; the real loadFileAndParents has no such bound and relies on its cycle check alone.
   The chain holds distinct names of the directory, so a fuel above the number of names is never used up: the
   result does not depend on it. (With link targets in the chain instead of requested paths - the code before fix
   1453be7 - this is false: a.yaml -> a.x.yaml recursed forever.) *)
Lemma fs_lookup_In fs n x : fs_lookup fs n = Some x -> In n (map fst fs).
Proof.
  induction fs as [|[k y] r IH]; cbn; [discriminate|]. destruct (String.eqb k n) eqn:E.
  - apply String.eqb_eq in E. now left.
  - intro H. right. now apply IH.
Qed.

Lemma resolve_In fuel fs n r : resolve fuel fs n = Some r -> In n (map fst fs).
Proof.
  destruct fuel as [|f]; cbn; [discriminate|]. destruct (fs_lookup fs n) as [x|] eqn:E; [|discriminate].
  intros _. now apply fs_lookup_In in E.
Qed.

Lemma map_res_ext_in {A B} (f g : A -> res B) l : (forall x, In x l -> f x = g x) -> map_res f l = map_res g l.
Proof.
  induction l as [|x l IH]; intro H; [reflexivity|]. cbn [map_res]. rewrite (H x (or_introl eq_refl)).
  rewrite IH; [reflexivity|]. intros y Hy. apply H. now right.
Qed.

Theorem load_fuel_irrelevant fmts fs : forall f1 f2 path cid chain,
  NoDup chain -> incl chain (map fst fs) ->
  List.length (map fst fs) < f1 + List.length chain -> List.length (map fst fs) < f2 + List.length chain ->
  load_chain f1 fmts fs path cid chain = load_chain f2 fmts fs path cid chain.
Proof.
  induction f1 as [|f1 IH]; intros f2 path cid chain ND Hin H1 H2.
  - exfalso. pose proof (NoDup_incl_length ND Hin). cbn in H1. lia.
  - destruct f2 as [|f2]; [exfalso; pose proof (NoDup_incl_length ND Hin); cbn in H2; lia|].
    cbn [load_chain]. destruct (existsb (String.eqb path) chain) eqn:Ec; [reflexivity|].
    destruct (negb (supported fmts (ext path))); [reflexivity|].
    destruct (resolve (link_fuel fs) fs path) as [[real [docs|e]]|] eqn:Er; try reflexivity.
    destruct (parents_of fmts fs path docs) as [[[docs' ps] real']|e]; [|reflexivity]. cbn [bind].
    assert (Hnot : ~ In path chain).
    { intro Hp. assert (existsb (String.eqb path) chain = true) as Ht; [|congruence].
      apply existsb_exists. exists path. split; [exact Hp|apply String.eqb_refl]. }
    rewrite (map_res_ext_in _ (fun p => load_chain f2 fmts fs p
               (Some match cid with Some c => (c ++ "|" ++ path)%string | None => path end) (path :: chain)) ps); [reflexivity|].
    intros p _. apply IH.
    + now constructor.
    + intros x [Hx|Hx]; [subst x; eapply resolve_In; exact Er|now apply Hin].
    + cbn [List.length]. lia.
    + cbn [List.length]. lia.
Qed.

(* in particular the fuel the CLI model uses (2 + number of directory entries) is as good as any larger one *)
Corollary load_fuel_enough fmts fs path cid k :
  load_chain (2 + List.length fs) fmts fs path cid [] = load_chain (2 + List.length fs + k) fmts fs path cid [].
Proof.
  apply load_fuel_irrelevant; [constructor|intros x []| |]; rewrite map_length; cbn [List.length]; lia.
Qed.

(* ---- a filename chain of any length loads base first ---- *)
Definition mkid (cid : option string) (path : string) : string :=
  match cid with Some c => (c ++ "|" ++ path)%string | None => path end.

(* one layer of a chain: a supported, readable file without a $parent directive whose filename parent is [next] *)
Definition layer_step (fmts : list string) (fs : fsys) (path : string) (docs' : list value) (next : option string) : Prop :=
  supported fmts (ext path) = true /\
  exists real docs, resolve (link_fuel fs) fs path = Some (real, Ok docs) /\
                    parent_directive docs = Ok (docs', [], false) /\
                    parents_from_filename fmts fs real = Ok (match next with Some p => [p] | None => [] end).

Definition next_of (rest : list (string * list value)) : option string :=
  match rest with [] => None | (p, _) :: _ => Some p end.

Fixpoint linked (fmts : list string) (fs : fsys) (layers : list (string * list value)) : Prop :=
  match layers with
  | [] => True
  | (path, docs') :: rest => layer_step fmts fs path docs' (next_of rest) /\ linked fmts fs rest
  end.

(* what loading the top of the chain returns: the layers bottom-up, each naming the one below it as its parent file *)
Fixpoint expected (cid : option string) (layers : list (string * list value)) : list lfile :=
  match layers with
  | [] => []
  | (path, docs') :: rest =>
      let id := mkid cid path in
      expected (Some id) rest ++
      [{| lf_id := id; lf_docs := docs';
          lf_parent_files := match rest with [] => [] | (p, _) :: _ => [mkid (Some id) p] end |}]
  end.

Lemma expected_last cid path docs' rest :
  exists l x, expected cid ((path, docs') :: rest) = l ++ [x] /\ lf_id x = mkid cid path.
Proof. cbn [expected]. eexists; eexists; split; reflexivity. Qed.

Theorem chain_loads fmts fs : forall layers fuel cid chain top docs' rest,
  layers = (top, docs') :: rest -> linked fmts fs layers -> NoDup (map fst layers) ->
  (forall p, In p (map fst layers) -> ~ In p chain) -> List.length layers <= fuel ->
  load_chain fuel fmts fs top cid chain = Ok (expected cid layers).
Proof.
  induction layers as [|[p0 d0] tl IH]; intros fuel cid chain top docs' rest E Hl ND Hc Hf; [discriminate|].
  inversion E; subst p0 d0 tl. clear E.
  destruct fuel as [|f]; [cbn in Hf; lia|].
  cbn [linked] in Hl. destruct Hl as [(Hsup & real & docs & Hres & Hpd & Hpf) Hrest].
  cbn [load_chain].
  assert (Hnc : existsb (String.eqb top) chain = false).
  { destruct (existsb (String.eqb top) chain) eqn:Ex; [|reflexivity]. exfalso.
    apply existsb_exists in Ex as (x & Hx & Hxe). apply String.eqb_eq in Hxe. subst x.
    apply (Hc top); [now left|exact Hx]. }
  rewrite Hnc, Hsup. cbn [negb]. rewrite Hres.
  rewrite (parents_filename fmts fs top docs docs' real (Ok docs) Hpd Hres), Hpf. cbn [bind].
  destruct rest as [|[p1 d1] rest'].
  - cbn [next_of map_res bind concat app expected map rev]. fold (mkid cid top). reflexivity.
  - cbn [next_of map_res bind]. fold (mkid cid top).
    inversion ND as [|? ? Hn1 ND']; subst.
    rewrite (IH f (Some (mkid cid top)) (top :: chain) p1 d1 rest' eq_refl Hrest ND').
    + cbn [bind concat app map]. destruct (expected_last (Some (mkid cid top)) p1 d1 rest') as (l & x & El & Ex).
      rewrite El at 2. rewrite rev_app_distr. cbn [rev app]. rewrite Ex.
      rewrite app_nil_r. reflexivity.
    + intros p Hp [Hpt|Hpc]; [subst p; exact (Hn1 Hp)|]. apply (Hc p); [now right|exact Hpc].
    + cbn [List.length] in Hf |- *. lia.
Qed.
