(* MapsProofs.v — association-list lemmas (lookup / insert / remove), valid for every list. *)
From Coq Require Import String Ascii List Bool Lia.
From Bkl Require Import Model.Value.
Import ListNotations.

Lemma compare_eq_refl (k : string) : String.compare k k = Eq.
Proof. pose proof (String.compare_antisym k k) as H. destruct (String.compare k k); cbn in H; congruence. Qed.

Lemma lookup_insert_eq k v m : lookup k (insert k v m) = Some v.
Proof.
  induction m as [|[k' v'] r IH]; cbn [insert lookup].
  - now rewrite String.eqb_refl.
  - destruct (String.compare k k') eqn:C; cbn [lookup].
    + now rewrite String.eqb_refl.
    + now rewrite String.eqb_refl.
    + destruct (String.eqb k k') eqn:E; [|exact IH].
      apply String.eqb_eq in E. subst. rewrite compare_eq_refl in C. discriminate.
Qed.

Lemma lookup_insert_neq k k0 v m : k0 <> k -> lookup k0 (insert k v m) = lookup k0 m.
Proof.
  intro N. induction m as [|[k' v'] r IH]; cbn [insert lookup].
  - destruct (String.eqb k0 k) eqn:E; [apply String.eqb_eq in E; congruence|reflexivity].
  - destruct (String.compare k k') eqn:C; cbn [lookup].
    + apply String.compare_eq_iff in C. subst k'.
      destruct (String.eqb k0 k) eqn:E; [apply String.eqb_eq in E; congruence|reflexivity].
    + destruct (String.eqb k0 k) eqn:E; [apply String.eqb_eq in E; congruence|reflexivity].
    + destruct (String.eqb k0 k'); [reflexivity|exact IH].
Qed.

Lemma lookup_remove_eq k m : lookup k (remove k m) = None.
Proof.
  induction m as [|[k' v'] r IH]; cbn [remove lookup]; [reflexivity|].
  destruct (String.eqb k k') eqn:E; [exact IH|]. cbn [lookup]. now rewrite E.
Qed.

Lemma lookup_remove_neq k k0 m : k0 <> k -> lookup k0 (remove k m) = lookup k0 m.
Proof.
  intro N. induction m as [|[k' v'] r IH]; cbn [remove lookup]; [reflexivity|].
  destruct (String.eqb k k') eqn:E.
  - apply String.eqb_eq in E. subst k'.
    destruct (String.eqb k0 k) eqn:E2; [apply String.eqb_eq in E2; congruence|exact IH].
  - cbn [lookup]. destruct (String.eqb k0 k'); [reflexivity|exact IH].
Qed.

Lemma lookup_In k v m : lookup k m = Some v -> In (k, v) m.
Proof.
  induction m as [|[k' v'] r IH]; cbn [lookup]; [discriminate|].
  destruct (String.eqb k k') eqn:E.
  - apply String.eqb_eq in E. intro H; inversion H; subst. now left.
  - intro H. right. now apply IH.
Qed.

Lemma lookup_None_not_In k m : lookup k m = None -> forall v, ~ In (k, v) m.
Proof.
  induction m as [|[k' v'] r IH]; cbn [lookup]; intros H v [].
  - inversion H0; subst. now rewrite String.eqb_refl in H.
  - destruct (String.eqb k k'); [discriminate|]. now apply (IH H v).
Qed.

Definition keys (m : emap) : list string := map fst m.

Lemma NoDup_keys_lookup k v m : NoDup (keys m) -> In (k, v) m -> lookup k m = Some v.
Proof.
  induction m as [|[k' v'] r IH]; cbn; intros ND Hin; [contradiction|].
  inversion ND as [|? ? Hn ND']; subst.
  destruct Hin as [E|Hin].
  - inversion E; subst. now rewrite String.eqb_refl.
  - destruct (String.eqb k k') eqn:E.
    + apply String.eqb_eq in E. subst. exfalso. apply Hn. change k' with (fst (k', v)). now apply in_map.
    + now apply IH.
Qed.

(* strict sortedness in the strong form: every key is below all later keys *)
Fixpoint ssorted (m : emap) : Prop :=
  match m with
  | [] => True
  | (k, _) :: r => Forall (fun kv => String.ltb k (fst kv) = true) r /\ ssorted r
  end.

Lemma ltb_compare a b : String.ltb a b = true -> String.compare b a = Gt.
Proof.
  unfold String.ltb. destruct (String.compare a b) eqn:C; try discriminate. intros _.
  rewrite String.compare_antisym, C. reflexivity.
Qed.

Lemma insert_last k v m : Forall (fun kv => String.ltb (fst kv) k = true) m -> insert k v m = m ++ [(k, v)].
Proof.
  induction m as [|[k' v'] r IH]; intro H; [reflexivity|].
  inversion H as [|? ? Hk Hr]; subst. cbn [insert fst] in *. rewrite (ltb_compare _ _ Hk).
  cbn. f_equal. now apply IH.
Qed.

Lemma ssorted_NoDup m : ssorted m -> NoDup (keys m).
Proof.
  induction m as [|[k v] r IH]; cbn; intro H; [constructor|]. destruct H as [Hall Hs].
  constructor; [|now apply IH].
  intro Hin. apply in_map_iff in Hin as ([k' v'] & E & Hin'). cbn in E. subst k'.
  rewrite Forall_forall in Hall. specialize (Hall _ Hin'). cbn in Hall.
  unfold String.ltb in Hall. now rewrite compare_eq_refl in Hall.
Qed.
