(* RefProofs.v — references: step equations of process1, detached evaluation leaves the documents alone,
   cross-document lookup needs exactly one match. *)
From Coq Require Import String Ascii List ZArith Bool Lia.
From Bkl Require Import Model.Value Model.Merge Model.Str Model.Eval Proofs.MapsProofs Proofs.StrProofs Proofs.EvalProofs Proofs.PlainProofs.
Import ListNotations.
Local Open Scope string_scope.
Local Open Scope list_scope.

Section Refs.
  Variable o : oracles.
  Variable cur : nat.

  (* $replace yields the referenced value: the local content of the host is ignored *)
  Lemma p1_replace_map f S loc m r : lookup "$merge" m = None -> lookup "$replace" m = Some r ->
    p1 o cur (Datatypes.S f) S loc (VMap m) = bind (get o S cur r) (fun x => p1 o cur f S None (fst x)).
  Proof.
    intros H1 H2. cbn [p1]. rewrite H1, H2. destruct (get o S cur r) as [[inn org]|]; reflexivity.
  Qed.

  Lemma p1_replace_str f S loc p : has_prefix "$merge:" ("$replace:" ++ p) = false ->
    p1 o cur (Datatypes.S f) S loc (VStr ("$replace:" ++ p)) = bind (get o S cur (VStr p)) (fun x => p1 o cur f S None (fst x)).
  Proof.
    intro H. cbn [p1]. rewrite H, (has_prefix_app "$replace:" p).
    change 9 with (String.length "$replace:"). rewrite drop_app. destruct (get o S cur (VStr p)) as [[inn org]|]; reflexivity.
  Qed.

  Lemma p1_merge_str f S loc p :
    p1 o cur (Datatypes.S f) S loc (VStr ("$merge:" ++ p)) = bind (get o S cur (VStr p)) (fun x => p1 o cur f S None (fst x)).
  Proof.
    cbn [p1]. rewrite (has_prefix_app "$merge:" p).
    change 7 with (String.length "$merge:"). rewrite drop_app. destruct (get o S cur (VStr p)) as [[inn org]|]; reflexivity.
  Qed.

  (* with a directive-free target, $replace behaves as if the target were written in place of the host *)
  Lemma p1_replace_inline f S loc loc' m r t org : lookup "$merge" m = None -> lookup "$replace" m = Some r ->
    get o S cur r = Ok (t, org) -> plain t -> height t <= f ->
    p1 o cur (Datatypes.S f) S loc (VMap m) = p1 o cur f S loc' t /\ p1 o cur f S loc' t = Ok (dn t, S).
  Proof.
    intros H1 H2 Hg Hp Hh. rewrite (p1_replace_map f S loc m r H1 H2), Hg. cbn [bind fst].
    rewrite !(p1_plain o cur t f S _ Hp Hh). split; reflexivity.
  Qed.

  (* $merge in a map: when the referenced subtree merged with the host's own content is directive-free, the host
     evaluates to exactly that merge - what writing the subtree inline under the host's content would give.
     [S1] is the document with the $merge key taken out of the host, which is what the reference is resolved in. *)
  Lemma p1_merge_inline f S loc m r inn di kp next :
    lookup "$merge" m = Some r ->
    get o (write_doc S cur loc (VMap (remove "$merge" m))) cur r = Ok (inn, (di, kp)) ->
    (match loc with Some p => Nat.eqb di cur && keys_prefix kp p | None => false end) = false ->
    merge_map (remove "$merge" m) inn = Ok next -> plain next -> height next <= f ->
    exists S', p1 o cur (Datatypes.S f) S loc (VMap m) = Ok (dn next, S').
  Proof.
    intros Hm Hg Hc Hmm Hp Hh. cbn [p1]. rewrite Hm, Hg. cbn [bind]. rewrite Hc, Hmm. cbn [bind].
    match goal with |- context [if ?b then _ else _] => destruct b end;
      rewrite (p1_plain o cur next f _ _ Hp Hh); eexists; reflexivity.
  Qed.

  (* detached (a copy being evaluated): no document changes *)
  Lemma p1_merge_inline_detached f S m r inn org next :
    lookup "$merge" m = Some r -> get o S cur r = Ok (inn, org) ->
    merge_map (remove "$merge" m) inn = Ok next -> plain next -> height next <= f ->
    p1 o cur (Datatypes.S f) S None (VMap m) = Ok (dn next, S).
  Proof.
    intros Hm Hg Hmm Hp Hh. destruct org as [di kp].
    assert (HS : write_doc S cur None (VMap (remove "$merge" m)) = S) by reflexivity.
    cbn [p1]. rewrite Hm, HS, Hg. cbn [bind]. rewrite Hmm. cbn [bind].
    match goal with |- context [if ?b then _ else _] => destruct b end; rewrite ?HS;
      rewrite (p1_plain o cur next f _ _ Hp Hh); reflexivity.
  Qed.

  (* index of the unique matching document: none -> error, several -> error *)
  Lemma cross_go_none pat S : forall i found, filter (fun d => vmatch d pat) S = [] ->
    cross_doc_go S pat i found = match found with Some j => Ok j | None => Err ENoMatch end.
  Proof.
    induction S as [|d r IH]; intros i found H; [reflexivity|]. cbn [filter] in H. cbn [cross_doc_go].
    destruct (vmatch d pat); [discriminate H|]. now apply IH.
  Qed.

  Lemma cross_go_some_multi pat S : forall i j, filter (fun d => vmatch d pat) S <> [] ->
    cross_doc_go S pat i (Some j) = Err EMultiMatch.
  Proof.
    induction S as [|d r IH]; intros i j H; [cbn in H; congruence|]. cbn [filter] in H. cbn [cross_doc_go].
    destruct (vmatch d pat); [reflexivity|]. now apply IH.
  Qed.

  Lemma cross_go_multi pat S : forall i x y t, filter (fun d => vmatch d pat) S = x :: y :: t ->
    cross_doc_go S pat i None = Err EMultiMatch.
  Proof.
    induction S as [|d r IH]; intros i x y t H; [discriminate H|]. cbn [filter] in H. cbn [cross_doc_go].
    destruct (vmatch d pat).
    - inversion H as [[E1 E2]]. apply cross_go_some_multi. rewrite E2. discriminate.
    - now apply (IH _ x y t).
  Qed.

  Lemma cross_doc_none S pat : filter (fun d => vmatch d pat) S = [] -> cross_doc S pat = Err ENoMatch.
  Proof. intro H. unfold cross_doc. now rewrite cross_go_none. Qed.

  Lemma cross_doc_multi S pat x y t : filter (fun d => vmatch d pat) S = x :: y :: t -> cross_doc S pat = Err EMultiMatch.
  Proof. intro H. unfold cross_doc. now apply (cross_go_multi pat S 0 x y t). Qed.

  (* a reference that resolves to nothing *)
  Lemma get_path_missing m k r : lookup k m = None -> get_path (VMap m) (k :: r) = Err ERefNotFound.
  Proof. intro H. cbn [get_path]. now rewrite H. Qed.

  Lemma get_path_through_scalar v k r : match v with VMap _ => False | _ => True end -> get_path v (k :: r) = Err ERefNotFound.
  Proof. destruct v; try contradiction; reflexivity. Qed.

  (* the dotted string form and the list form denote the same path, when the reference string is a plain YAML string *)
  Lemma to_string_list_map l : to_string_list (map VStr l) = Ok l.
  Proof. induction l as [|s r IH]; [reflexivity|]. cbn. now rewrite IH. Qed.

  Lemma get_forms_agree S di s : o_yaml o s = Ok (VStr s) ->
    get o S di (VStr s) = get o S di (VList (map VStr (split_on "."%char s))).
  Proof.
    intro H. cbn [get]. unfold get_path_from_string. rewrite H. cbn [bind].
    unfold get_path_from_list.
    destruct (split_on "."%char s) as [|p ps] eqn:E; [reflexivity|]. cbn [map].
    change (VStr p :: map VStr ps) with (map VStr (p :: ps)). rewrite to_string_list_map. reflexivity.
  Qed.

  (* Detached evaluation (how every referenced subtree is evaluated) never writes to the documents:
     the referenced subtree itself is left unchanged. *)
  Lemma p1_detached : forall fuel S obj r S', p1 o cur fuel S None obj = Ok (r, S') -> S' = S.
  Proof.
    induction fuel as [|f IH]; intros S obj r S' H; [discriminate H|].
    destruct obj as [| | | |s|l|m]; try (cbn in H; inversion H; reflexivity).
    - (* string *)
      cbn [p1] in H. destruct (has_prefix "$merge:" s).
      + destruct (get o S cur (VStr (drop 7 s))) as [[inn org]|]; [|discriminate H]. cbn [bind] in H. now apply IH in H.
      + destruct (has_prefix "$replace:" s); [|inversion H; reflexivity].
        destruct (get o S cur (VStr (drop 9 s))) as [[inn org]|]; [|discriminate H]. cbn [bind] in H. now apply IH in H.
    - (* list *)
      cbn [p1] in H.
      match type of H with bind ?X _ = _ => destruct X as [l2|]; [|discriminate H] end. cbn [bind] in H.
      match type of H with bind ?X _ = _ => destruct X as [[rep l3]|]; [|discriminate H] end. cbn [bind] in H.
      destruct (negb (is_null rep)).
      + destruct (get o S cur rep) as [[inn org]|]; [|discriminate H]. cbn [bind] in H. now apply IH in H.
      + assert (Loc : forall i, (if match flat_map (fun v => match is_merge_entry v with Some x => [x] | None => [] end) l with [] => true | _ :: _ => false end
                                 then ext None (I i) else None) = None) by (intro i; destruct (match flat_map _ l with [] => true | _ => false end); reflexivity).
        match type of H with bind (fold_left ?F l3 (Ok ([], S))) _ = _ =>
          assert (FL : forall l' racc Sa ra Sb, fold_left F l' (Ok (racc, Sa)) = Ok (ra, Sb) -> Sb = Sa) end.
        { induction l' as [|[i v] t IHt]; intros racc Sa ra Sb Hf; [cbn in Hf; now inversion Hf|].
          cbn [fold_left] in Hf. cbn [bind] in Hf. rewrite (Loc i) in Hf.
          destruct (p1 o cur f Sa None v) as [[v2 S2]|] eqn:P.
          - apply IH in P. subst S2. cbn [bind] in Hf. destruct v2; now apply IHt in Hf.
          - cbn [bind] in Hf. exfalso. clear -Hf. induction t as [|x t IHt']; [discriminate Hf|]. cbn [fold_left bind] in Hf. now apply IHt'. }
        match type of H with bind ?X _ = _ => destruct X as [[racc Sx]|] eqn:Ef; [|discriminate H] end. cbn [bind] in H.
        inversion H; subst. now apply FL in Ef.
    - (* map *)
      cbn [p1] in H. destruct (lookup "$merge" m) as [rf|].
      + cbn [write_doc] in H. destruct (get o S cur rf) as [[inn [dj kp]]|]; [|discriminate H]. cbn [bind] in H.
        destruct (merge_map (remove "$merge" m) inn) as [next|]; [|discriminate H]. cbn [bind] in H.
        destruct (match inn with VMap s => negb (has_map_bool s "$replace" true) | VNull => true | _ => false end); now apply IH in H.
      + destruct (lookup "$replace" m) as [rf|].
        * destruct (get o S cur rf) as [[inn org]|]; [|discriminate H]. cbn [bind] in H. now apply IH in H.
        * match type of H with bind (fold_left ?F m (Ok ([], S))) _ = _ =>
            assert (FL : forall m' racc Sa ra Sb, fold_left F m' (Ok (racc, Sa)) = Ok (ra, Sb) -> Sb = Sa) end.
          { induction m' as [|[k v] t IHt]; intros racc Sa ra Sb Hf; [cbn in Hf; now inversion Hf|].
            cbn [fold_left] in Hf. cbn [bind ext] in Hf.
            destruct (p1 o cur f Sa None v) as [[v2 S2]|] eqn:P.
            - apply IH in P. subst S2. cbn [bind] in Hf.
              assert (Cont : forall X, fold_left _ t X = Ok (ra, Sb) -> forall ra0, X = Ok (ra0, Sa) -> Sb = Sa) by (intros X HX ra0 ->; now apply IHt in HX).
              destruct v2; try (now apply IHt in Hf);
                (destruct (p1 o cur f Sa None (VStr k)) as [[k2 Sk]|] eqn:Pk; cbn [bind] in Hf;
                 [destruct k2; try (exfalso; clear -Hf; induction t as [|x t IHt']; [discriminate Hf|cbn [fold_left bind] in Hf; now apply IHt']); now apply IHt in Hf
                 |exfalso; clear -Hf; induction t as [|x t IHt']; [discriminate Hf|cbn [fold_left bind] in Hf; now apply IHt']]).
            - cbn [bind] in Hf. exfalso. clear -Hf. induction t as [|x t IHt']; [discriminate Hf|]. cbn [fold_left bind] in Hf. now apply IHt'. }
          match type of H with bind ?X _ = _ => destruct X as [[racc Sx]|] eqn:Ef; [|discriminate H] end. cbn [bind] in H.
          inversion H; subst. now apply FL in Ef.
  Qed.
End Refs.
