(* OrderIndepProofs.v — the loops that Go runs in map-iteration order give the same outcome in every order. *)
From Coq Require Import String Ascii List ZArith Bool Lia Permutation.
From Bkl Require Import Model.Value Model.Merge Model.Str Model.Eval Proofs.MapsProofs Proofs.MergeProofs.
Import ListNotations.
Local Open Scope string_scope.
Local Open Scope list_scope.

Lemma lookup_iff_In k v (m : emap) : NoDup (keys m) -> (lookup k m = Some v <-> In (k, v) m).
Proof. intro ND. split; [apply lookup_In|now apply NoDup_keys_lookup]. Qed.

Lemma keys_perm (m m' : emap) : Permutation m m' -> Permutation (keys m) (keys m').
Proof. intro H. unfold keys. now apply Permutation_map. Qed.

Lemma lookup_perm k (m m' : emap) : NoDup (keys m) -> Permutation m m' -> lookup k m = lookup k m'.
Proof.
  intros ND P. assert (ND' : NoDup (keys m')) by (eapply Permutation_NoDup; [apply keys_perm; exact P|exact ND]).
  destruct (lookup k m) as [v|] eqn:L.
  - symmetry. apply (lookup_iff_In k v m' ND'). eapply Permutation_in; [exact P|]. now apply lookup_In.
  - destruct (lookup k m') as [v'|] eqn:L'; [|reflexivity].
    apply lookup_In in L'. apply (Permutation_in _ (Permutation_sym P)) in L'. apply (NoDup_keys_lookup k v' m ND) in L'. congruence.
Qed.

(* mergeMapMap visits the child's entries in Go map order: the outcome does not depend on that order *)
Theorem merge_entries_order s s' acc : NoDup (keys s) -> Permutation s s' ->
  ((exists e, merge_entries false s acc = Err e) <-> (exists e, merge_entries false s' acc = Err e)) /\
  (forall r r', merge_entries false s acc = Ok r -> merge_entries false s' acc = Ok r' -> forall k, lookup k r = lookup k r').
Proof.
  intros ND P. assert (ND' : NoDup (keys s')) by (eapply Permutation_NoDup; [apply keys_perm; exact P|exact ND]).
  split.
  - rewrite (merge_entries_reject_iff s ND acc), (merge_entries_reject_iff s' ND' acc).
    split; intros (kv & Hin & Hr); exists kv; (split; [|exact Hr]).
    + eapply Permutation_in; [exact P|exact Hin].
    + eapply Permutation_in; [apply Permutation_sym; exact P|exact Hin].
  - intros r r' H H' k. rewrite (merge_entries_spec s ND acc r H k), (merge_entries_spec s' ND' acc r' H' k).
    unfold key_spec. now rewrite (lookup_perm k s s' ND P).
Qed.

(* validateMap visits entries in Go map order: whether validation succeeds does not depend on that order *)
Lemma join_err_none a b : join_err a b = None <-> a = None /\ b = None.
Proof. destruct a as [[]|], b as [[]|]; cbn; split; try tauto; try discriminate; intros [H1 H2]; discriminate. Qed.

Fixpoint vmap_go (o : oracles) (m : emap) : option err :=
  match m with [] => None | (k, x) :: xs => join_err (join_err (validate_string o k) (validate_go o x)) (vmap_go o xs) end.
Lemma validate_go_VMap o m : validate_go o (VMap m) = vmap_go o m.
Proof. cbn [validate_go]. induction m as [|[k x] r IH]; [reflexivity|]. cbn [vmap_go]. now rewrite <- IH. Qed.

Lemma vmap_go_none o m : vmap_go o m = None <-> Forall (fun kv => validate_string o (fst kv) = None /\ validate_go o (snd kv) = None) m.
Proof.
  induction m as [|[k x] r IH]; cbn [vmap_go]; [split; [constructor|reflexivity]|].
  rewrite join_err_none, join_err_none, IH. split.
  - intros [[H1 H2] H3]. constructor; [split; assumption|assumption].
  - intro H. inversion H as [|? ? [H1 H2] H3]; subst. cbn in H1, H2. tauto.
Qed.

Theorem validate_order o m m' : Permutation m m' -> (validate_go o (VMap m) = None <-> validate_go o (VMap m') = None).
Proof.
  intro P. rewrite !validate_go_VMap, !vmap_go_none. split; intro H.
  - eapply Permutation_Forall; [exact P|exact H].
  - eapply Permutation_Forall; [apply Permutation_sym; exact P|exact H].
Qed.
