(* MergeProofs.v — equations and characterisations of Model.Merge.merge *)
From Coq Require Import String Ascii List ZArith Bool Lia.
From Bkl Require Import Model.Value Model.Merge Proofs.MapsProofs.
Import ListNotations.
Local Open Scope string_scope.
Local Open Scope list_scope.

(* top-level mirror of the loop of mergeMapMap *)
Fixpoint merge_entries (skipm : bool) (s : emap) (acc : emap) : res emap :=
  match s with
  | [] => Ok acc
  | (k, v) :: rest =>
      if skipm && String.eqb k "$match" then merge_entries skipm rest acc else
      match lookup k acc with
      | None => if is_str v "$delete" then Err EUseless else merge_entries skipm rest (insert k v acc)
      | Some e =>
          if is_str v "$delete" then merge_entries skipm rest (remove k acc)
          else do v2 <- merge e v false; merge_entries skipm rest (insert k v2 acc)
      end
  end.

Ltac step_lhs := match goal with |- ?L = _ => let L' := eval cbv beta iota zeta fix in L in change L with L' end.

Lemma merge_map_map d s skipm :
  merge (VMap d) (VMap s) skipm =
    let s' := if skipm then remove "$match" s else s in
    if has_map_bool s' "$replace" true then Ok (VMap (remove "$replace" s'))
    else do r <- merge_entries skipm s d; Ok (VMap r).
Proof.
  cbn [merge]. cbv zeta. destruct (has_map_bool _ "$replace" true); [reflexivity|].
  match goal with |- bind (?f s d) _ = _ => assert (E : forall s0 acc, f s0 acc = merge_entries skipm s0 acc) end.
  { induction s0 as [|[k v] rest IH]; intro acc; [reflexivity|].
    step_lhs. cbn [merge_entries].
    destruct (skipm && String.eqb k "$match"); [apply IH|].
    destruct (lookup k acc) as [e|].
    - destruct (is_str v "$delete"); [apply IH|].
      destruct (merge e v false) as [v2|er]; cbn [bind]; [apply IH|reflexivity].
    - destruct (is_str v "$delete"); [reflexivity|apply IH]. }
  rewrite E. reflexivity.
Qed.

Lemma lookup_not_in_keys k (m : emap) : ~ In k (keys m) -> lookup k m = None.
Proof.
  induction m as [|[k' v'] r IH]; cbn; intro H; [reflexivity|].
  destruct (String.eqb k k') eqn:E; [apply String.eqb_eq in E; subst; tauto|]. apply IH. tauto.
Qed.

(* what a successful map merge contains, key by key *)
Definition key_spec (acc s : emap) (k : string) : option value :=
  match lookup k s with
  | None => lookup k acc                                          (* not mentioned: preserved *)
  | Some v =>
      if is_str v "$delete" then None
      else match lookup k acc with
           | None => Some v
           | Some e => match merge e v false with Ok x => Some x | Err _ => None end
           end
  end.

Lemma merge_entries_spec s : NoDup (keys s) -> forall acc r, merge_entries false s acc = Ok r ->
  forall k, lookup k r = key_spec acc s k.
Proof.
  induction s as [|[k0 v0] rest IH]; intros ND acc r H k.
  - cbn in H. inversion H; subst. unfold key_spec. reflexivity.
  - cbn [keys map fst] in ND. inversion ND as [|? ? Hn ND']; subst.
    cbn [merge_entries andb] in H. unfold key_spec. cbn [lookup].
    destruct (String.eqb k k0) eqn:Ek.
    + apply String.eqb_eq in Ek. subst k0.
      destruct (lookup k acc) as [e|] eqn:La.
      * destruct (is_str v0 "$delete") eqn:Ed.
        -- rewrite (IH ND' _ _ H k). unfold key_spec. rewrite (lookup_not_in_keys k rest Hn). apply lookup_remove_eq.
        -- destruct (merge e v0 false) as [v2|er]; [|discriminate]. cbn [bind] in H.
           rewrite (IH ND' _ _ H k). unfold key_spec. rewrite (lookup_not_in_keys k rest Hn). apply lookup_insert_eq.
      * destruct (is_str v0 "$delete") eqn:Ed; [discriminate|].
        rewrite (IH ND' _ _ H k). unfold key_spec. rewrite (lookup_not_in_keys k rest Hn). apply lookup_insert_eq.
    + assert (N : k <> k0) by (intro; subst; now rewrite String.eqb_refl in Ek).
      destruct (lookup k0 acc) as [e|] eqn:La.
      * destruct (is_str v0 "$delete") eqn:Ed.
        -- rewrite (IH ND' _ _ H k). unfold key_spec. now rewrite (lookup_remove_neq k0 k acc N).
        -- destruct (merge e v0 false) as [v2|er]; [|discriminate]. cbn [bind] in H.
           rewrite (IH ND' _ _ H k). unfold key_spec. now rewrite (lookup_insert_neq k0 k v2 acc N).
      * destruct (is_str v0 "$delete") eqn:Ed; [discriminate|].
        rewrite (IH ND' _ _ H k). unfold key_spec. now rewrite (lookup_insert_neq k0 k v0 acc N).
Qed.

(* a map merge is rejected exactly when some entry is a useless $delete or a rejected nested override *)
Definition entry_rejected (acc : emap) (kv : string * value) : Prop :=
  let '(k, v) := kv in
  (is_str v "$delete" = true /\ lookup k acc = None) \/
  (is_str v "$delete" = false /\ exists e er, lookup k acc = Some e /\ merge e v false = Err er).

Lemma merge_entries_reject_iff s : NoDup (keys s) -> forall acc,
  (exists er, merge_entries false s acc = Err er) <-> exists kv, In kv s /\ entry_rejected acc kv.
Proof.
  induction s as [|[k0 v0] rest IH]; intros ND acc.
  - cbn. split; [intros [er H]; discriminate|intros (kv & [] & _)].
  - cbn [keys map fst] in ND. inversion ND as [|? ? Hn ND']; subst.
    cbn [merge_entries andb].
    assert (Frame : forall acc', (forall k, k <> k0 -> lookup k acc' = lookup k acc) ->
                     forall kv, In kv rest -> (entry_rejected acc' kv <-> entry_rejected acc kv)).
    { intros acc' Hf [k v] Hin. assert (N : k <> k0).
      { intro; subst. apply Hn. change k0 with (fst (k0, v)). now apply in_map. }
      unfold entry_rejected. now rewrite (Hf k N). }
    destruct (lookup k0 acc) as [e|] eqn:La.
    + destruct (is_str v0 "$delete") eqn:Ed.
      * rewrite (IH ND' (remove k0 acc)). split.
        -- intros (kv & Hin & Hr). exists kv. split; [now right|].
           apply (Frame (remove k0 acc)); [intros; now apply lookup_remove_neq|exact Hin|exact Hr].
        -- intros (kv & [E|Hin] & Hr).
           ++ subst kv. cbn in Hr. destruct Hr as [[_ Hn']|[Hd _]]; congruence.
           ++ exists kv. split; [exact Hin|]. apply (Frame (remove k0 acc)); [intros; now apply lookup_remove_neq|exact Hin|exact Hr].
      * destruct (merge e v0 false) as [v2|er] eqn:Em; cbn [bind].
        -- rewrite (IH ND' (insert k0 v2 acc)). split.
           ++ intros (kv & Hin & Hr). exists kv. split; [now right|].
              apply (Frame (insert k0 v2 acc)); [intros; now apply lookup_insert_neq|exact Hin|exact Hr].
           ++ intros (kv & [E|Hin] & Hr).
              ** subst kv. cbn in Hr. destruct Hr as [[Hd _]|[_ (e' & er & He & Hm)]]; [congruence|].
                 rewrite La in He. inversion He; subst. congruence.
              ** exists kv. split; [exact Hin|]. apply (Frame (insert k0 v2 acc)); [intros; now apply lookup_insert_neq|exact Hin|exact Hr].
        -- split; [|intros _; eexists; reflexivity]. intros _. exists (k0, v0). split; [now left|].
           right. split; [exact Ed|]. exists e, er. split; [exact La|exact Em].
    + destruct (is_str v0 "$delete") eqn:Ed.
      * split; [|intros _; eexists; reflexivity]. intros _. exists (k0, v0). split; [now left|]. left. split; [exact Ed|exact La].
      * rewrite (IH ND' (insert k0 v0 acc)). split.
        -- intros (kv & Hin & Hr). exists kv. split; [now right|].
           apply (Frame (insert k0 v0 acc)); [intros; now apply lookup_insert_neq|exact Hin|exact Hr].
        -- intros (kv & [E|Hin] & Hr).
           ++ subst kv. cbn in Hr. destruct Hr as [[Hd _]|[_ (e' & er & He & _)]]; congruence.
           ++ exists kv. split; [exact Hin|]. apply (Frame (insert k0 v0 acc)); [intros; now apply lookup_insert_neq|exact Hin|exact Hr].
Qed.

(* ---- lists ---- *)
Definition value_patch (e : value) (vm : emap) : res value :=
  match lookup "$value" vm with Some x => merge e x false | None => Ok e end.

Definition match_patch (m v : value) (vm : emap) (acc : list value) : res (list value) :=
  let rest_m := remove "$match" vm in
  do acc' <- (if has_key "$value" rest_m
              then match remove "$value" rest_m with
                   | [] => map_res (fun e => if vmatch e m then value_patch e vm else Ok e) acc
                   | _ => Err EExtraKeys
                   end
              else map_res (fun e => if vmatch e m then merge e v true else Ok e) acc);
  if existsb (fun e => vmatch e m) acc then Ok acc' else Err ENoMatch.

Fixpoint merge_list_entries (s : list value) (acc : list value) : res (list value) :=
  match s with
  | [] => Ok acc
  | v :: rest =>
      match v with
      | VMap vm =>
          match lookup "$delete" vm with
          | Some del =>
              match remove "$delete" vm with
              | [] => do acc' <- list_delete acc del; merge_list_entries rest acc'
              | _ => Err EExtraKeys
              end
          | None =>
              match lookup "$match" vm with
              | Some m => do acc' <- match_patch m v vm acc; merge_list_entries rest acc'
              | None => merge_list_entries rest (acc ++ [v])
              end
          end
      | _ => merge_list_entries rest (acc ++ [v])
      end
  end.

Lemma map_res_ext {A B} (f g : A -> res B) l : (forall x, f x = g x) -> map_res f l = map_res g l.
Proof. intro H. induction l as [|x r IH]; [reflexivity|]. cbn. now rewrite H, IH. Qed.

Lemma merge_list_list d s skipm :
  merge (VList d) (VList s) skipm =
    if existsb (fun v => is_str v "$replace") s
    then Ok (VList (filter (fun v => negb (is_str v "$replace")) s)) else
    if has_list_map_bool s "$replace" true
    then (do l' <- pop_list_map_bool_go s "$replace" true; Ok (VList l')) else
    do r <- merge_list_entries s (filter (fun v => negb (is_str v "$required")) d); Ok (VList r).
Proof.
  cbn [merge]. destruct (existsb _ s); [reflexivity|]. destruct (has_list_map_bool s "$replace" true); [reflexivity|].
  match goal with |- bind (?f s ?d0) _ = _ => assert (E : forall s0 acc, f s0 acc = merge_list_entries s0 acc) end.
  { induction s0 as [|v rest IH]; intro acc; [reflexivity|].
    step_lhs. cbn [merge_list_entries].
    destruct v as [| | | | |l|vm]; try apply IH.
    destruct (lookup "$delete" vm) as [del|].
    - destruct (remove "$delete" vm); [|reflexivity].
      destruct (list_delete acc del) as [acc'|er]; cbn [bind]; [apply IH|reflexivity].
    - destruct (lookup "$match" vm) as [m|]; [|apply IH].
      unfold match_patch. cbv zeta.
      destruct (has_key "$value" (remove "$match" vm)).
      + destruct (remove "$value" (remove "$match" vm)); [|reflexivity].
        match goal with |- bind (map_res ?g acc) _ = _ =>
          assert (G : forall e, g e = if vmatch e m then value_patch e vm else Ok e) end.
        { intro e. destruct (vmatch e m); [|reflexivity]. unfold value_patch.
          generalize vm. intro c. induction c as [|[k x] c' IHc]; [reflexivity|].
          step_lhs. cbn [lookup]. rewrite (String.eqb_sym k "$value").
          destruct (String.eqb "$value" k); [reflexivity|exact IHc]. }
        rewrite (map_res_ext _ _ acc G).
        destruct (map_res _ acc) as [acc'|er]; cbn [bind]; [|reflexivity].
        destruct (existsb _ acc); cbn [bind]; [apply IH|reflexivity].
      + destruct (map_res _ acc) as [acc'|er]; cbn [bind]; [|reflexivity].
        destruct (existsb _ acc); cbn [bind]; [apply IH|reflexivity]. }
  rewrite E. reflexivity.
Qed.

(* entries that are not $delete / $match directives are appended *)
Definition plain_entry (v : value) : Prop :=
  match v with VMap vm => lookup "$delete" vm = None /\ lookup "$match" vm = None | _ => True end.

Lemma merge_list_entries_plain s : Forall plain_entry s -> forall acc, merge_list_entries s acc = Ok (acc ++ s).
Proof.
  induction s as [|v rest IH]; intros H acc; [now rewrite app_nil_r|].
  inversion H as [|? ? Hv Hr]; subst. cbn [merge_list_entries].
  assert (G : merge_list_entries rest (acc ++ [v]) = Ok (acc ++ v :: rest)).
  { rewrite (IH Hr). now rewrite <- app_assoc. }
  destruct v; try exact G. destruct Hv as [H1 H2]. rewrite H1, H2. exact G.
Qed.

(* ---- corollaries used by Properties/C01.v ---- *)
Definition strip_required (d : list value) : list value := filter (fun v => negb (is_str v "$required")) d.
Definition no_list_replace (s : list value) : Prop :=
  existsb (fun v => is_str v "$replace") s = false /\ has_list_map_bool s "$replace" true = false.

Lemma merge_map_replace d s : has_map_bool s "$replace" true = true ->
  merge' (VMap d) (VMap s) = Ok (VMap (remove "$replace" s)).
Proof. intro H. unfold merge'. rewrite merge_map_map. cbv zeta. now rewrite H. Qed.

Lemma merge_map_keywise d s r : NoDup (keys s) -> has_map_bool s "$replace" true = false ->
  merge' (VMap d) (VMap s) = Ok (VMap r) -> forall k, lookup k r = key_spec d s k.
Proof.
  intros ND Hr H k. unfold merge' in H. rewrite merge_map_map in H. cbv zeta in H. rewrite Hr in H.
  destruct (merge_entries false s d) as [r'|] eqn:E; [|discriminate]. cbn in H. inversion H; subst.
  now apply (merge_entries_spec s ND d).
Qed.

Lemma merge_map_reject_iff d s : NoDup (keys s) -> has_map_bool s "$replace" true = false ->
  ((exists er, merge' (VMap d) (VMap s) = Err er) <-> exists kv, In kv s /\ entry_rejected d kv).
Proof.
  intros ND Hr. unfold merge'. rewrite merge_map_map. cbv zeta. rewrite Hr.
  rewrite <- (merge_entries_reject_iff s ND d).
  destruct (merge_entries false s d); cbn; split; intros [er H]; try discriminate; eexists; reflexivity.
Qed.

Lemma merge_list_concat d s : no_list_replace s -> Forall plain_entry s ->
  merge' (VList d) (VList s) = Ok (VList (strip_required d ++ s)).
Proof.
  intros [H1 H2] Hp. unfold merge'. rewrite merge_list_list, H1, H2.
  rewrite (merge_list_entries_plain s Hp). reflexivity.
Qed.

Lemma merge_list_replace_string d s : existsb (fun v => is_str v "$replace") s = true ->
  merge' (VList d) (VList s) = Ok (VList (filter (fun v => negb (is_str v "$replace")) s)).
Proof. intro H. unfold merge'. now rewrite merge_list_list, H. Qed.

Lemma merge_list_delete_entry d pat :
  merge' (VList d) (VList [VMap [("$delete", pat)]]) =
    if existsb (fun v => vmatch v pat) (strip_required d)
    then Ok (VList (filter (fun v => negb (vmatch v pat)) (strip_required d))) else Err EUseless.
Proof.
  unfold merge'. rewrite merge_list_list. cbn [existsb is_str orb has_list_map_bool has_map_bool lookup String.eqb].
  cbn. fold (strip_required d). unfold list_delete. destruct (existsb _ (strip_required d)); reflexivity.
Qed.

(* a list entry {$match: m, ...patch}: every entry of the parent list that matches m - all of them, wherever they
   stand - is merged with the patch (read without its $match key); the others, and the order, are unchanged; if
   nothing matches the layer is rejected *)
Lemma merge_list_match_entry d vm m :
  has_map_bool vm "$replace" true = false -> lookup "$delete" vm = None -> lookup "$match" vm = Some m ->
  has_key "$value" (remove "$match" vm) = false ->
  merge' (VList d) (VList [VMap vm]) =
    do r <- map_res (fun e => if vmatch e m then merge e (VMap vm) true else Ok e) (strip_required d);
    if existsb (fun e => vmatch e m) (strip_required d) then Ok (VList r) else Err ENoMatch.
Proof.
  intros Hr Hd Hm Hv. unfold merge'. rewrite merge_list_list. cbn [existsb is_str orb].
  unfold has_list_map_bool. cbn [existsb orb]. rewrite Hr. cbn [orb].
  cbn [merge_list_entries]. rewrite Hd, Hm. unfold match_patch. cbv zeta. rewrite Hv.
  fold (strip_required d). destruct (map_res _ (strip_required d)) as [r|e]; cbn [bind]; [|reflexivity].
  destruct (existsb _ (strip_required d)); reflexivity.
Qed.

(* with $value: the matching entries are merged with the $value (a scalar replaces them) *)
Lemma merge_list_match_value d vm m :
  has_map_bool vm "$replace" true = false -> lookup "$delete" vm = None -> lookup "$match" vm = Some m ->
  has_key "$value" (remove "$match" vm) = true -> remove "$value" (remove "$match" vm) = [] ->
  merge' (VList d) (VList [VMap vm]) =
    do r <- map_res (fun e => if vmatch e m then value_patch e vm else Ok e) (strip_required d);
    if existsb (fun e => vmatch e m) (strip_required d) then Ok (VList r) else Err ENoMatch.
Proof.
  intros Hr Hd Hm Hv Hx. unfold merge'. rewrite merge_list_list. cbn [existsb is_str orb].
  unfold has_list_map_bool. cbn [existsb orb]. rewrite Hr. cbn [orb].
  cbn [merge_list_entries]. rewrite Hd, Hm. unfold match_patch. cbv zeta. rewrite Hv, Hx.
  fold (strip_required d). destruct (map_res _ (strip_required d)) as [r|e]; cbn [bind]; [|reflexivity].
  destruct (existsb _ (strip_required d)); reflexivity.
Qed.

Lemma merge_list_delete_extra d pat k x : String.eqb "$delete" k = false -> String.eqb "$replace" k = false ->
  merge' (VList d) (VList [VMap [("$delete", pat); (k, x)]]) = Err EExtraKeys.
Proof.
  intros H1 H2. unfold merge'. rewrite merge_list_list. cbn [existsb is_str orb].
  assert (E : has_list_map_bool [VMap [("$delete", pat); (k, x)]] "$replace" true = false).
  { unfold has_list_map_bool, has_map_bool. cbn [existsb lookup orb].
    replace (String.eqb "$replace" "$delete") with false by reflexivity. rewrite H2. reflexivity. }
  rewrite E. cbn [merge_list_entries lookup].
  replace (String.eqb "$delete" "$delete") with true by reflexivity.
  cbn [remove]. replace (String.eqb "$delete" "$delete") with true by reflexivity. rewrite H1. reflexivity.
Qed.

Lemma merge_type_clash_map d s : d <> [] -> match s with VMap _ | VNull => False | _ => True end ->
  merge' (VMap d) s = Err EInvalidType.
Proof. intros Hd Hs. destruct d; [congruence|]. destruct s; try contradiction; reflexivity. Qed.

Lemma merge_type_clash_list d s : match s with VList _ | VNull => False | _ => True end ->
  merge' (VList d) s = Err EInvalidType.
Proof. intros Hs. destruct s; try contradiction; reflexivity. Qed.

(* a key no upper layer mentions survives the whole chain unchanged *)
Definition quiet_layer (k : string) (l : value) : Prop :=
  match l with VMap s => NoDup (keys s) /\ has_map_bool s "$replace" true = false /\ lookup k s = None | _ => False end.

Lemma chain_frame k layers : Forall (quiet_layer k) layers -> forall b r,
  fold_left (fun acc l => do a <- acc; merge' a l) layers (Ok (VMap b)) = Ok r ->
  exists m, r = VMap m /\ lookup k m = lookup k b.
Proof.
  induction layers as [|l rest IH]; intros H b r Hf.
  - cbn in Hf. inversion Hf; subst. now exists b.
  - inversion H as [|? ? Hq Hr]; subst. cbn [fold_left bind] in Hf.
    destruct l as [| | | | | |s]; try contradiction. destruct Hq as (ND & Hrep & Hk).
    destruct (merge' (VMap b) (VMap s)) as [x|er] eqn:E.
    + assert (exists m1, x = VMap m1) as [m1 ->].
      { unfold merge' in E. rewrite merge_map_map in E. cbv zeta in E. rewrite Hrep in E.
        destruct (merge_entries false s b); cbn in E; inversion E. eexists; reflexivity. }
      destruct (IH Hr m1 r Hf) as (m & -> & Hm). exists m. split; [reflexivity|].
      rewrite Hm, (merge_map_keywise b s m1 ND Hrep E k). unfold key_spec. now rewrite Hk.
    + exfalso. clear -Hf. induction rest as [|y ys IHy]; cbn in Hf; [discriminate|]. now apply IHy.
Qed.
