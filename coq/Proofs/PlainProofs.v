(* PlainProofs.v — the evaluator is the identity on plain trees (only nulls are dropped). *)
From Coq Require Import String Ascii List ZArith Bool Lia.
From Bkl Require Import Model.Value Model.Merge Model.Str Model.Eval Proofs.MapsProofs Proofs.StrProofs.
Import ListNotations.
Local Open Scope string_scope.
Local Open Scope list_scope.

Section Plain.
  Variable o : oracles.

  (* a string no phase of the evaluator treats specially *)
  Definition plain_str (s : string) : Prop :=
    has_prefix "$merge:" s = false /\ has_prefix "$replace:" s = false /\
    is_interp s = false /\ is_var_string s = false.

  (* no doubled dollar: finalisation leaves the string alone *)
  Fixpoint noesc (v : value) : Prop :=
    match v with
    | VStr s => unescape s = s
    | VList l => (fix go (l : list value) := match l with [] => True | x :: r => noesc x /\ go r end) l
    | VMap m => (fix go (m : emap) := match m with [] => True | (k, x) :: r => unescape k = k /\ noesc x /\ go r end) m
    | _ => True
    end.
  Fixpoint noesc_list (l : list value) : Prop := match l with [] => True | x :: r => noesc x /\ noesc_list r end.
  Fixpoint noesc_map (m : emap) : Prop := match m with [] => True | (k, x) :: r => unescape k = k /\ noesc x /\ noesc_map r end.
  Lemma noesc_VList l : noesc (VList l) = noesc_list l. Proof. reflexivity. Qed.
  Lemma noesc_VMap m : noesc (VMap m) = noesc_map m. Proof. reflexivity. Qed.

  Definition directive_keys : list string :=
    ["$merge"; "$replace"; "$repeat"; "$encode"; "$decode"; "$value"; "$output"].

  Definition plain_key (k : string) : Prop := plain_str k /\ ~ In k directive_keys.

  Fixpoint plain (v : value) : Prop :=
    match v with
    | VStr s => plain_str s
    | VList l => (fix go (l : list value) := match l with [] => True | x :: r => plain x /\ go r end) l
    | VMap m => ssorted m /\ (fix go (m : emap) := match m with [] => True | (k, x) :: r => plain_key k /\ plain x /\ go r end) m
    | _ => True
    end.
  Fixpoint plain_list (l : list value) : Prop := match l with [] => True | x :: r => plain x /\ plain_list r end.
  Fixpoint plain_map (m : emap) : Prop := match m with [] => True | (k, x) :: r => plain_key k /\ plain x /\ plain_map r end.
  Lemma plain_VList l : plain (VList l) <-> plain_list l.
  Proof. cbn [plain]. induction l as [|x r IH]; [tauto|]. cbn [plain_list]. rewrite <- IH. tauto. Qed.
  Lemma plain_VMap m : plain (VMap m) <-> ssorted m /\ plain_map m.
  Proof. cbn [plain]. assert (E : (fix go (m : emap) := match m with [] => True | (k, x) :: r => plain_key k /\ plain x /\ go r end) m <-> plain_map m).
    { induction m as [|[k x] r IH]; [tauto|]. cbn [plain_map]. rewrite <- IH. tauto. } tauto. Qed.

  (* dropping nulls *)
  Fixpoint dn (v : value) : value :=
    match v with
    | VList l => VList ((fix go (l : list value) := match l with [] => [] | x :: r => match x with VNull => go r | _ => dn x :: go r end end) l)
    | VMap m => VMap ((fix go (m : emap) := match m with [] => [] | (k, x) :: r => match x with VNull => go r | _ => (k, dn x) :: go r end end) m)
    | _ => v
    end.
  Fixpoint dn_list (l : list value) : list value := match l with [] => [] | x :: r => match x with VNull => dn_list r | _ => dn x :: dn_list r end end.
  Fixpoint dn_map (m : emap) : emap := match m with [] => [] | (k, x) :: r => match x with VNull => dn_map r | _ => (k, dn x) :: dn_map r end end.
  Lemma dn_VList l : dn (VList l) = VList (dn_list l).
  Proof. reflexivity. Qed.
  Lemma dn_VMap m : dn (VMap m) = VMap (dn_map m).
  Proof. reflexivity. Qed.

  Lemma value_eq_null (x : value) : {x = VNull} + {x <> VNull}.
  Proof. destruct x; (left; reflexivity) || (right; discriminate). Qed.

  Lemma dn_null_iff v : dn v = VNull <-> v = VNull.
  Proof. destruct v; cbn; split; intro H; try discriminate; try reflexivity. Qed.

  Fixpoint height (v : value) : nat :=
    match v with
    | VList l => S (S ((fix go (l : list value) := match l with [] => 0 | x :: r => Nat.max (height x) (go r) end) l))
    | VMap m => S (S ((fix go (m : emap) := match m with [] => 0 | (_, x) :: r => Nat.max (height x) (go r) end) m))
    | _ => 1
    end.
  Fixpoint height_list (l : list value) : nat := match l with [] => 0 | x :: r => Nat.max (height x) (height_list r) end.
  Fixpoint height_map (m : emap) : nat := match m with [] => 0 | (_, x) :: r => Nat.max (height x) (height_map r) end.
  Lemma height_VList l : height (VList l) = S (S (height_list l)).
  Proof. reflexivity. Qed.
  Lemma height_VMap m : height (VMap m) = S (S (height_map m)).
  Proof. reflexivity. Qed.

  Lemma lookup_not_key k (m : emap) : (forall k' x, In (k', x) m -> k' <> k) -> lookup k m = None.
  Proof.
    induction m as [|[k' x] r IH]; intro H; [reflexivity|]. cbn [lookup].
    destruct (String.eqb k k') eqn:E.
    - apply String.eqb_eq in E. subst. exfalso. apply (H k' x); [now left|reflexivity].
    - apply IH. intros k2 x2 Hin. apply (H k2 x2). now right.
  Qed.

  Lemma plain_map_no_directive m k : plain_map m -> In k directive_keys -> lookup k m = None.
  Proof.
    intros Hp Hk. apply lookup_not_key. intros k' x Hin E. subst k'.
    induction m as [|[k2 x2] r IH]; [contradiction|]. cbn [plain_map] in Hp. destruct Hp as ((_ & Hn) & _ & Hr).
    destruct Hin as [Hin|Hin]; [inversion Hin; subst; contradiction|]. now apply IH.
  Qed.

  (* p1 on a plain string *)
  Lemma p1_plain_str cur f S loc s : plain_str s -> p1 o cur (Datatypes.S f) S loc (VStr s) = Ok (VStr s, S).
  Proof. intros (H1 & H2 & _). cbn [p1]. now rewrite H1, H2. Qed.

  Lemma is_merge_entry_plain x : plain x -> is_merge_entry x = None.
  Proof.
    destruct x as [| | | | | |m]; try reflexivity. intro H. apply plain_VMap in H as [_ H].
    destruct m as [|[k v] [|e r]]; try reflexivity. cbn [plain_map] in H. destruct H as ((_ & Hn) & _).
    cbn [is_merge_entry]. destruct (String.eqb k "$merge") eqn:E; [|reflexivity].
    apply String.eqb_eq in E. subst. exfalso. apply Hn. cbn. tauto.
  Qed.

  Lemma filter_true {A} (f : A -> bool) l : (forall x, In x l -> f x = true) -> filter f l = l.
  Proof. induction l as [|x r IH]; intro H; [reflexivity|]. cbn. rewrite (H x (or_introl eq_refl)). f_equal. apply IH. intros; apply H; now right. Qed.

  Lemma flat_map_nil {A B} (f : A -> list B) l : (forall x, In x l -> f x = []) -> flat_map f l = [].
  Proof. induction l as [|x r IH]; intro H; [reflexivity|]. cbn. rewrite (H x (or_introl eq_refl)). apply IH. intros; apply H; now right. Qed.

  Lemma plain_list_In l x : plain_list l -> In x l -> plain x.
  Proof. induction l as [|y r IH]; cbn; [tauto|]. intros [Hy Hr] [E|Hin]; [now subst|now apply IH]. Qed.

  Lemma pop_replace_idx_plain l i : plain_list l ->
    pop_list_map_value_idx (indexed_from i l) "$replace" VNull = Ok (VNull, indexed_from i l).
  Proof.
    revert i. induction l as [|x r IH]; intros i H; [reflexivity|]. cbn [plain_list] in H. destruct H as [Hx Hr].
    cbn [indexed_from pop_list_map_value_idx].
    assert (G : (do '(ret', r') <- pop_list_map_value_idx (indexed_from (1 + i) r) "$replace" VNull; Ok (ret', (i, x) :: r'))
                = Ok (VNull, (i, x) :: indexed_from (1 + i) r)) by (rewrite (IH (1 + i) Hr); reflexivity).
    destruct x as [| | | | | |m]; try exact G.
    destruct m as [|[k v] [|e m']]; try exact G.
    apply plain_VMap in Hx as [_ Hx]. cbn [plain_map] in Hx. destruct Hx as ((_ & Hn) & _).
    destruct (String.eqb k "$replace") eqn:E; [|exact G].
    apply String.eqb_eq in E. subst. exfalso. apply Hn. cbn. tauto.
  Qed.

  Lemma app_cons_assoc {A} (l : list A) x r : (l ++ [x]) ++ r = l ++ x :: r.
  Proof. now rewrite <- app_assoc. Qed.

  Lemma dn_nonnull_case (x : value) (A : Type) (a b : A) :
    x <> VNull -> match dn x with VNull => a | _ => b end = b.
  Proof. destruct x; cbn; congruence. Qed.

  (* process1 is the identity on plain trees, except that nulls are dropped; it leaves the live documents alone *)
  Lemma p1_plain cur v : forall fuel S loc, plain v -> height v <= fuel -> p1 o cur fuel S loc v = Ok (dn v, S).
  Proof.
    induction v as [| | |g|s|l IH|m IH] using value_ind'; intros fuel S loc Hp Hh;
      (destruct fuel as [|f]; [cbn in Hh; lia|]); try reflexivity.
    - apply p1_plain_str. exact Hp.
    - (* list *)
      apply plain_VList in Hp. rewrite height_VList in Hh. rewrite dn_VList.
      cbn [p1].
      rewrite (flat_map_nil _ l) by (intros x Hx; rewrite (is_merge_entry_plain x (plain_list_In l x Hp Hx)); reflexivity).
      rewrite (filter_true _ l) by (intros x Hx; rewrite (is_merge_entry_plain x (plain_list_In l x Hp Hx)); reflexivity).
      cbn [fold_left bind]. rewrite (pop_replace_idx_plain l 0 Hp). cbn [bind is_null negb].
      match goal with |- bind (fold_left ?F _ (Ok ([], S))) _ = _ =>
        assert (FL : forall l' i racc, Forall (fun x => forall fuel S loc, plain x -> height x <= fuel -> p1 o cur fuel S loc x = Ok (dn x, S)) l' ->
                       plain_list l' -> height_list l' <= f ->
                       fold_left F (indexed_from i l') (Ok (racc, S)) = Ok (racc ++ dn_list l', S)) end.
      { induction l' as [|x r IHr]; intros i racc Hall Hpl Hhl; [cbn; now rewrite app_nil_r|].
        inversion Hall as [|? ? Hx Hr]; subst. cbn [plain_list] in Hpl. destruct Hpl as [Hpx Hpr].
        cbn [height_list] in Hhl. cbn [indexed_from fold_left]. cbn [bind].
        rewrite (Hx f S _ Hpx) by lia. cbn [bind].
        destruct (value_eq_null x) as [->|Hnn].
        - cbn [dn dn_list]. apply IHr; assumption || lia.
        - rewrite (dn_nonnull_case x _ _ _ Hnn).
          assert (E : dn_list (x :: r) = dn x :: dn_list r) by (destruct x; try reflexivity; congruence).
          rewrite E, <- (app_cons_assoc racc (dn x) (dn_list r)). apply IHr; assumption || lia. }
      rewrite (FL l 0 [] IH Hp) by lia. reflexivity.
    - (* map *)
      apply plain_VMap in Hp as [Hs Hp]. rewrite height_VMap in Hh. rewrite dn_VMap.
      cbn [p1].
      rewrite (plain_map_no_directive m "$merge" Hp) by (cbn; tauto).
      rewrite (plain_map_no_directive m "$replace" Hp) by (cbn; tauto).
      destruct f as [|f']; [lia|].
      match goal with |- bind (fold_left ?F _ (Ok ([], S))) _ = _ =>
        assert (FL : forall m' racc, Forall (fun kv => forall fuel S loc, plain (snd kv) -> height (snd kv) <= fuel -> p1 o cur fuel S loc (snd kv) = Ok (dn (snd kv), S)) m' ->
                       plain_map m' -> height_map m' <= Datatypes.S f' -> ssorted m' ->
                       Forall (fun e => Forall (fun kv => String.ltb (fst e) (fst kv) = true) m') racc ->
                       fold_left F m' (Ok (racc, S)) = Ok (racc ++ dn_map m', S)) end.
      { induction m' as [|[k x] r IHr]; intros racc Hall Hpm Hhm Hss Hinv; [cbn; now rewrite app_nil_r|].
        inversion Hall as [|? ? Hx Hr]; subst. cbn [snd] in Hx. cbn [plain_map] in Hpm. destruct Hpm as (Hk & Hpx & Hpr).
        cbn [height_map] in Hhm. cbn [ssorted] in Hss. destruct Hss as [Hlt Hss].
        cbn [fold_left]. cbn [bind].
        rewrite (Hx (Datatypes.S f') S _ Hpx) by lia. cbn [bind].
        assert (Hinv_r : Forall (fun e => Forall (fun kv => String.ltb (fst e) (fst kv) = true) r) racc).
        { eapply Forall_impl; [|exact Hinv]. intros e He. now inversion He. }
        destruct (value_eq_null x) as [->|Hnn].
        - cbn [dn dn_map]. apply IHr; assumption || lia.
        - rewrite (dn_nonnull_case x _ _ _ Hnn).
          rewrite (p1_plain_str cur f' S None k (proj1 Hk)). cbn [bind].
          assert (Hins : insert k (dn x) racc = racc ++ [(k, dn x)]).
          { apply insert_last. eapply Forall_impl; [|exact Hinv]. intros e He. now inversion He. }
          rewrite Hins.
          assert (E : dn_map ((k, x) :: r) = (k, dn x) :: dn_map r) by (destruct x; try reflexivity; congruence).
          rewrite E, <- (app_cons_assoc racc (k, dn x) (dn_map r)). apply IHr; try assumption; try lia.
          apply Forall_app. split; [exact Hinv_r|]. constructor; [exact Hlt|constructor]. }
      rewrite (FL m [] IH Hp) by (assumption || lia || constructor). reflexivity.
  Qed.

  (* ---- after process1: plain and without nulls inside containers ---- *)
  Fixpoint nonull (v : value) : Prop :=
    match v with
    | VList l => (fix go (l : list value) := match l with [] => True | x :: r => x <> VNull /\ nonull x /\ go r end) l
    | VMap m => (fix go (m : emap) := match m with [] => True | (_, x) :: r => x <> VNull /\ nonull x /\ go r end) m
    | _ => True
    end.
  Fixpoint nonull_list (l : list value) : Prop := match l with [] => True | x :: r => x <> VNull /\ nonull x /\ nonull_list r end.
  Fixpoint nonull_map (m : emap) : Prop := match m with [] => True | (_, x) :: r => x <> VNull /\ nonull x /\ nonull_map r end.
  Lemma nonull_VList l : nonull (VList l) = nonull_list l. Proof. reflexivity. Qed.
  Lemma nonull_VMap m : nonull (VMap m) = nonull_map m. Proof. reflexivity. Qed.

  Lemma dn_nonnull x : x <> VNull -> dn x <> VNull.
  Proof. destruct x; cbn; congruence. Qed.

  Lemma dn_nonull v : nonull (dn v).
  Proof.
    induction v as [| | |g|s|l IH|m IH] using value_ind'; try exact Logic.I.
    - rewrite dn_VList, nonull_VList. induction IH as [|x r Hx _ IHr]; [exact Logic.I|].
      cbn [dn_list]. destruct (value_eq_null x) as [->|Hn]; [exact IHr|].
      assert (E : dn_list (x :: r) = dn x :: dn_list r) by (destruct x; try reflexivity; congruence).
      change (nonull_list (dn_list (x :: r))). rewrite E. cbn [nonull_list]. auto using dn_nonnull.
    - rewrite dn_VMap, nonull_VMap. induction IH as [|[k x] r Hx _ IHr]; [exact Logic.I|]. cbn [snd] in Hx.
      destruct (value_eq_null x) as [->|Hn]; [exact IHr|].
      assert (E : dn_map ((k, x) :: r) = (k, dn x) :: dn_map r) by (destruct x; try reflexivity; congruence).
      rewrite E. cbn [nonull_map]. auto using dn_nonnull.
  Qed.

  Lemma dn_map_keys_sub m : forall k x, In (k, x) (dn_map m) -> exists x0, In (k, x0) m.
  Proof.
    induction m as [|[k0 x0] r IH]; intros k x H; [contradiction|].
    destruct (value_eq_null x0) as [->|Hn]; [destruct (IH k x H) as [y Hy]; exists y; now right|].
    assert (E : dn_map ((k0, x0) :: r) = (k0, dn x0) :: dn_map r) by (destruct x0; try reflexivity; congruence).
    rewrite E in H. destruct H as [H|H]; [inversion H; subst; exists x0; now left|].
    destruct (IH k x H) as [y Hy]. exists y. now right.
  Qed.

  Lemma dn_map_ssorted m : ssorted m -> ssorted (dn_map m).
  Proof.
    induction m as [|[k x] r IH]; [exact id|]. cbn [ssorted]. intros [Hlt Hs].
    destruct (value_eq_null x) as [->|Hn]; [now apply IH|].
    assert (E : dn_map ((k, x) :: r) = (k, dn x) :: dn_map r) by (destruct x; try reflexivity; congruence).
    rewrite E. cbn [ssorted]. split; [|now apply IH].
    apply Forall_forall. intros [k' x'] Hin. cbn. destruct (dn_map_keys_sub r k' x' Hin) as [y Hy].
    rewrite Forall_forall in Hlt. exact (Hlt (k', y) Hy).
  Qed.

  Lemma dn_plain v : plain v -> plain (dn v).
  Proof.
    induction v as [| | |g|s|l IH|m IH] using value_ind'; try exact id.
    - intro Hp. apply plain_VList in Hp. rewrite dn_VList. apply plain_VList.
      induction IH as [|x r Hx _ IHr]; [exact Logic.I|]. cbn [plain_list] in Hp. destruct Hp as [Hpx Hpr].
      destruct (value_eq_null x) as [->|Hn]; [now apply IHr|].
      assert (E : dn_list (x :: r) = dn x :: dn_list r) by (destruct x; try reflexivity; congruence).
      rewrite E. cbn [plain_list]. auto.
    - intro Hp. apply plain_VMap in Hp as [Hs Hp]. rewrite dn_VMap. apply plain_VMap. split; [now apply dn_map_ssorted|].
      clear Hs. induction IH as [|[k x] r Hx _ IHr]; [exact Logic.I|]. cbn [snd] in Hx. cbn [plain_map] in Hp. destruct Hp as (Hk & Hpx & Hpr).
      destruct (value_eq_null x) as [->|Hn]; [now apply IHr|].
      assert (E : dn_map ((k, x) :: r) = (k, dn x) :: dn_map r) by (destruct x; try reflexivity; congruence).
      rewrite E. cbn [plain_map]. auto.
  Qed.

  (* ---- process2 ---- *)
  Lemma p2_string_plain' S di fuel ec s : plain_str s -> p2_string o S di fuel ec s = Ok (VStr s).
  Proof. intros (_ & _ & H3 & H4). destruct fuel; cbn [p2_string]; now rewrite H3, H4. Qed.

  Lemma fold_insert_sorted (m : emap) : forall racc,
    ssorted m -> Forall (fun e => Forall (fun kv => String.ltb (fst e) (fst kv) = true) m) racc ->
    fold_left (fun a kv => insert (fst kv) (snd kv) a) m racc = racc ++ m.
  Proof.
    induction m as [|[k x] r IH]; intros racc Hs Hinv; [now rewrite app_nil_r|].
    cbn [fold_left fst snd]. cbn [ssorted] in Hs. destruct Hs as [Hlt Hs].
    rewrite insert_last by (eapply Forall_impl; [|exact Hinv]; intros e He; now inversion He).
    rewrite <- (app_cons_assoc racc (k, x) r). apply IH; [exact Hs|].
    apply Forall_app. split.
    - eapply Forall_impl; [|exact Hinv]. intros e He. now inversion He.
    - constructor; [exact Hlt|constructor].
  Qed.

  Lemma pop_list_map_value_plain l k : In k directive_keys -> plain_list l ->
    pop_list_map_value l k = Ok (VNull, l).
  Proof.
    intros Hk. unfold pop_list_map_value. induction l as [|x r IH]; intro H; [reflexivity|].
    cbn [plain_list] in H. destruct H as [Hx Hr]. cbn [pop_list_map_value_go].
    assert (G : (do '(ret', r') <- pop_list_map_value_go r k VNull; Ok (ret', x :: r')) = Ok (VNull, x :: r))
      by (rewrite (IH Hr); reflexivity).
    destruct x as [| | | | | |m]; try exact G.
    destruct m as [|[k' v] [|e m']]; try exact G.
    apply plain_VMap in Hx as [_ Hx]. cbn [plain_map] in Hx. destruct Hx as ((_ & Hn) & _).
    destruct (String.eqb k' k) eqn:E; [|exact G].
    apply String.eqb_eq in E. subst. contradiction.
  Qed.

  Lemma p2_plain S di v : forall fuel ec, plain v -> nonull v -> height v <= fuel -> p2 o S di fuel ec v = Ok v.
  Proof.
    induction v as [| | |g|s|l IH|m IH] using value_ind'; intros fuel ec Hp Hn Hh;
      (destruct fuel as [|f]; [cbn in Hh; lia|]); try reflexivity.
    - cbn [p2]. apply p2_string_plain'. exact Hp.
    - (* list *)
      apply plain_VList in Hp. rewrite height_VList in Hh. rewrite nonull_VList in Hn.
      cbn [p2]. rewrite (pop_list_map_value_plain l "$encode") by (cbn; tauto || assumption).
      cbn [bind is_null negb].
      match goal with |- bind (fold_left ?F _ (Ok [])) _ = _ =>
        assert (FL : forall l' a, Forall (fun x => forall fuel ec, plain x -> nonull x -> height x <= fuel -> p2 o S di fuel ec x = Ok x) l' ->
                       plain_list l' -> nonull_list l' -> height_list l' <= f ->
                       fold_left F l' (Ok a) = Ok (a ++ l')) end.
      { induction l' as [|x r IHr]; intros a Hall Hpl Hnl Hhl; [cbn; now rewrite app_nil_r|].
        inversion Hall as [|? ? Hx Hr]; subst. cbn [plain_list] in Hpl. destruct Hpl as [Hpx Hpr].
        cbn [nonull_list] in Hnl. destruct Hnl as (Hxn & Hnx & Hnr). cbn [height_list] in Hhl.
        cbn [fold_left]. cbn [bind].
        assert (Hp2 : p2 o S di f ec x = Ok x) by (apply Hx; assumption || lia).
        assert (Step : forall (T : Type) (g : value -> T) (dflt : T), match x with VNull => dflt | y => g y end = g x)
          by (intros; destruct x; congruence).
        rewrite <- (app_cons_assoc a x r). rewrite <- (IHr (a ++ [x])) by (assumption || lia). f_equal.
        destruct x as [| | | | | |xm]; try (rewrite Hp2; cbn [bind]; reflexivity || congruence).
        apply plain_VMap in Hpx as [_ Hpx']. rewrite (plain_map_no_directive xm "$repeat" Hpx') by (cbn; tauto).
        rewrite Hp2. reflexivity. }
      rewrite (FL l [] IH Hp Hn) by lia. reflexivity.
    - (* map *)
      apply plain_VMap in Hp as [Hs Hp]. rewrite height_VMap in Hh. rewrite nonull_VMap in Hn.
      cbn [p2].
      match goal with |- bind (fold_left ?F _ (Ok [])) _ = _ =>
        assert (F1 : forall m' a, plain_map m' -> fold_left F m' (Ok a) = Ok (fold_left (fun a kv => insert (fst kv) (snd kv) a) m' a)) end.
      { induction m' as [|[k x] r IHr]; intros a Hpm; [reflexivity|]. cbn [plain_map] in Hpm. destruct Hpm as (_ & Hpx & Hpr).
        cbn [fold_left]. cbn [bind fst snd]. rewrite <- (IHr _ Hpr). f_equal.
        destruct x as [| | | | | |xm]; try reflexivity.
        apply plain_VMap in Hpx as [_ Hpx']. now rewrite (plain_map_no_directive xm "$repeat" Hpx') by (cbn; tauto). }
      match goal with |- bind ?X _ = _ => replace X with (@Ok emap m) end.
      2:{ symmetry. rewrite <- (fold_insert_sorted m [] Hs) at 2 by constructor. apply F1. exact Hp. }
      cbn [bind].
      rewrite (plain_map_no_directive m "$encode" Hp) by (cbn; tauto).
      rewrite (plain_map_no_directive m "$decode" Hp) by (cbn; tauto).
      rewrite (plain_map_no_directive m "$value" Hp) by (cbn; tauto).
      destruct f as [|f']; [lia|].
      match goal with |- bind (fold_left ?F _ (Ok [])) _ = _ =>
        assert (FL : forall m' a, Forall (fun kv => forall fuel ec, plain (snd kv) -> nonull (snd kv) -> height (snd kv) <= fuel -> p2 o S di fuel ec (snd kv) = Ok (snd kv)) m' ->
                       plain_map m' -> nonull_map m' -> height_map m' <= Datatypes.S f' -> ssorted m' ->
                       Forall (fun e => Forall (fun kv => String.ltb (fst e) (fst kv) = true) m') a ->
                       fold_left F m' (Ok a) = Ok (a ++ m')) end.
      { induction m' as [|[k x] r IHr]; intros a Hall Hpm Hnm Hhm Hss Hinv; [cbn; now rewrite app_nil_r|].
        inversion Hall as [|? ? Hx Hr]; subst. cbn [snd] in Hx. cbn [plain_map] in Hpm. destruct Hpm as (Hk & Hpx & Hpr).
        cbn [nonull_map] in Hnm. destruct Hnm as (Hxn & Hnx & Hnr). cbn [height_map] in Hhm.
        cbn [ssorted] in Hss. destruct Hss as [Hlt Hss].
        cbn [fold_left]. cbn [bind].
        rewrite (Hx (Datatypes.S f') ec Hpx Hnx) by lia. cbn [bind].
        assert (Hm : forall (T : Type) (u w : T), match x with VNull => u | _ => w end = w) by (intros; destruct x; congruence).
        rewrite Hm.
        cbn [p2]. rewrite (p2_string_plain' S di _ ec k (proj1 Hk)). cbn [bind].
        rewrite insert_last by (eapply Forall_impl; [|exact Hinv]; intros e He; now inversion He).
        rewrite <- (app_cons_assoc a (k, x) r). apply IHr; try assumption; try lia.
        apply Forall_app. split.
        - eapply Forall_impl; [|exact Hinv]. intros e He. now inversion He.
        - constructor; [exact Hlt|constructor]. }
      rewrite (FL m [] IH Hp Hn) by (assumption || lia || constructor). reflexivity.
  Qed.

  (* ---- output selection, hiding, validation, finalisation ---- *)
  Lemma has_map_bool_plain m b : plain_map m -> has_map_bool m "$output" b = false.
  Proof. intro H. unfold has_map_bool. now rewrite (plain_map_no_directive m "$output" H) by (cbn; tauto). Qed.

  Lemma has_list_map_bool_plain l b : plain_list l -> has_list_map_bool l "$output" b = false.
  Proof.
    unfold has_list_map_bool. induction l as [|x r IH]; intro H; [reflexivity|]. cbn [plain_list] in H. destruct H as [Hx Hr].
    cbn [existsb]. rewrite (IH Hr), orb_false_r. destruct x; try reflexivity.
    apply plain_VMap in Hx as [_ Hx]. now apply has_map_bool_plain.
  Qed.

  Lemma find_outputs_plain v : plain v -> find_outputs v = Ok (v, []).
  Proof.
    induction v as [| | |g|s|l IH|m IH] using value_ind'; intro Hp; try reflexivity.
    - apply plain_VList in Hp. cbn [find_outputs]. rewrite (has_list_map_bool_plain l true Hp).
      match goal with |- bind (?f l) _ = _ => assert (E : f l = Ok (l, [])) end.
      { induction IH as [|x r Hx _ IHr]; [reflexivity|]. cbn [plain_list] in Hp. destruct Hp as [Hpx Hpr].
        assert (Hsel : match x with VMap xm => if has_map_bool xm "$output" true then Some (match remove "$output" xm with [] => true | _ => false end) else None | _ => None end = None).
        { destruct x; try reflexivity. apply plain_VMap in Hpx as [_ Hpx']. now rewrite (has_map_bool_plain _ true Hpx'). }
        match goal with |- ?L = _ => let L' := eval cbv beta iota zeta fix in L in change L with L' end.
        rewrite Hsel. rewrite (Hx Hpx). cbn [bind]. rewrite (IHr Hpr). reflexivity. }
      rewrite E. reflexivity.
    - apply plain_VMap in Hp as [_ Hp]. cbn [find_outputs]. rewrite (has_map_bool_plain m true Hp).
      match goal with |- bind (?f m) _ = _ => assert (E : f m = Ok (m, [])) end.
      { induction IH as [|[k x] r Hx _ IHr]; [reflexivity|]. cbn [snd] in Hx. cbn [plain_map] in Hp. destruct Hp as (_ & Hpx & Hpr).
        match goal with |- ?L = _ => let L' := eval cbv beta iota zeta fix in L in change L with L' end.
        rewrite (IHr Hpr). cbn [andb]. rewrite (Hx Hpx). reflexivity. }
      rewrite E. reflexivity.
  Qed.

  Lemma filter_output_plain v : plain v -> nonull v -> v <> VNull -> filter_output v = Ok (Some v).
  Proof.
    induction v as [| | |g|s|l IH|m IH] using value_ind'; intros Hp Hn Hnn; try reflexivity; try congruence.
    - apply plain_VList in Hp. rewrite nonull_VList in Hn. cbn [filter_output]. rewrite (has_list_map_bool_plain l false Hp). clear Hnn.
      match goal with |- bind (?f l) _ = _ => assert (E : f l = Ok l) end.
      { induction IH as [|x r Hx _ IHr]; [reflexivity|]. cbn [plain_list] in Hp. destruct Hp as [Hpx Hpr].
        cbn [nonull_list] in Hn. destruct Hn as (Hxn & Hnx & Hnr).
        match goal with |- ?L = _ => let L' := eval cbv beta iota zeta fix in L in change L with L' end.
        rewrite (Hx Hpx Hnx Hxn). cbn [bind]. rewrite (IHr Hpr Hnr). reflexivity. }
      rewrite E. reflexivity.
    - apply plain_VMap in Hp as [_ Hp]. rewrite nonull_VMap in Hn. cbn [filter_output]. rewrite (has_map_bool_plain m false Hp). clear Hnn.
      match goal with |- bind (?f m) _ = _ => assert (E : f m = Ok m) end.
      { induction IH as [|[k x] r Hx _ IHr]; [reflexivity|]. cbn [snd] in Hx. cbn [plain_map] in Hp. destruct Hp as (_ & Hpx & Hpr).
        cbn [nonull_map] in Hn. destruct Hn as (Hxn & Hnx & Hnr).
        match goal with |- ?L = _ => let L' := eval cbv beta iota zeta fix in L in change L with L' end.
        rewrite (Hx Hpx Hnx Hxn). cbn [bind]. rewrite (IHr Hpr Hnr). reflexivity. }
      rewrite E. reflexivity.
  Qed.

  Lemma finalize_plain v : plain v -> noesc v -> finalize v = v.
  Proof.
    induction v as [| | |g|s|l IH|m IH] using value_ind'; intros Hp Hne; try reflexivity.
    - cbn [finalize]. cbn in Hne. now rewrite Hne.
    - apply plain_VList in Hp. rewrite noesc_VList in Hne. cbn [finalize]. f_equal.
      induction IH as [|x r Hx _ IHr]; [reflexivity|]. cbn [plain_list] in Hp. destruct Hp as [Hpx Hpr].
      cbn [noesc_list] in Hne. destruct Hne as [Hnx Hnr].
      rewrite (Hx Hpx Hnx). f_equal. exact (IHr Hpr Hnr).
    - apply plain_VMap in Hp as [Hs Hp]. rewrite noesc_VMap in Hne. cbn [finalize]. f_equal.
      match goal with |- ?f m [] = _ => assert (E : forall m' acc, Forall (fun kv => plain (snd kv) -> noesc (snd kv) -> finalize (snd kv) = snd kv) m' -> plain_map m' -> noesc_map m' ->
                                             f m' acc = fold_left (fun a kv => insert (fst kv) (snd kv) a) m' acc) end.
      { induction m' as [|[k x] r IHr]; intros acc Hall Hpm Hnm; [reflexivity|]. inversion Hall as [|? ? Hx Hr]; subst. cbn [snd] in Hx.
        cbn [plain_map] in Hpm. destruct Hpm as (Hk & Hpx & Hpr). cbn [noesc_map] in Hnm. destruct Hnm as (Huk & Hnx & Hnr).
        match goal with |- ?L = _ => let L' := eval cbv beta iota zeta fix in L in change L with L' end.
        rewrite Huk, (Hx Hpx Hnx). cbn [fold_left fst snd]. now apply IHr. }
      rewrite (E m [] IH Hp Hne). now rewrite (fold_insert_sorted m [] Hs) by constructor.
  Qed.

  Lemma outputs_of_plain v : plain v -> nonull v -> v <> VNull ->
    outputs_of o v = match validate_go o v with None => Ok [finalize v] | Some e => Err e end.
  Proof.
    intros Hp Hn Hnn. unfold outputs_of. rewrite (find_outputs_plain v Hp). cbn [bind map_res].
    rewrite (filter_output_plain v Hp Hn Hnn). cbn [bind]. unfold validate. destruct (validate_go o v); reflexivity.
  Qed.

  Lemma height_dn v : height (dn v) <= height v.
  Proof.
    induction v as [| | |g|s|l IH|m IH] using value_ind'; try (cbn; lia).
    - rewrite dn_VList, !height_VList. apply le_n_S, le_n_S.
      induction IH as [|x r Hx _ IHr]; [cbn; lia|].
      destruct (value_eq_null x) as [->|Hn]; [cbn [dn_list height_list]; lia|].
      assert (E : dn_list (x :: r) = dn x :: dn_list r) by (destruct x; try reflexivity; congruence).
      rewrite E. cbn [height_list]. lia.
    - rewrite dn_VMap, !height_VMap. apply le_n_S, le_n_S.
      induction IH as [|[k x] r Hx _ IHr]; [cbn; lia|]. cbn [snd] in Hx.
      destruct (value_eq_null x) as [->|Hn]; [cbn [dn_map height_map]; lia|].
      assert (E : dn_map ((k, x) :: r) = (k, dn x) :: dn_map r) by (destruct x; try reflexivity; congruence).
      rewrite E. cbn [height_map]. lia.
  Qed.

  Lemma repeat_doc_plain w ec : plain w -> repeat_doc w ec = Ok (w, [(w, ec)], false).
  Proof.
    destruct w as [| | | | |l|m]; intro Hp; try reflexivity.
    - apply plain_VList in Hp. cbn [repeat_doc]. rewrite (pop_list_map_value_plain l "$repeat") by (cbn; tauto || assumption). reflexivity.
    - apply plain_VMap in Hp as [_ Hp]. cbn [repeat_doc]. now rewrite (plain_map_no_directive m "$repeat" Hp) by (cbn; tauto).
  Qed.

  Lemma dn_noesc v : noesc v -> noesc (dn v).
  Proof.
    induction v as [| | |g|s|l IH|m IH] using value_ind'; try exact id.
    - rewrite dn_VList, !noesc_VList. induction IH as [|x r Hx _ IHr]; [exact id|]. cbn [noesc_list]. intros [Hnx Hnr].
      destruct (value_eq_null x) as [->|Hn]; [now apply IHr|].
      assert (E : dn_list (x :: r) = dn x :: dn_list r) by (destruct x; try reflexivity; congruence).
      rewrite E. cbn [noesc_list]. auto.
    - rewrite dn_VMap, !noesc_VMap. induction IH as [|[k x] r Hx _ IHr]; [exact id|]. cbn [snd] in Hx. cbn [noesc_map]. intros (Hk & Hnx & Hnr).
      destruct (value_eq_null x) as [->|Hn]; [now apply IHr|].
      assert (E : dn_map ((k, x) :: r) = (k, dn x) :: dn_map r) by (destruct x; try reflexivity; congruence).
      rewrite E. cbn [noesc_map]. auto.
  Qed.

  (* A document in which no string is recognised by the evaluation phases (references, $repeat, $encode,
     $decode, $value, interpolation, $env, $output) evaluates to: nulls dropped, then validated (this is where
     $required and stray $directives are refused), then $$ unescaped. A null document produces no output. *)
  Theorem eval_inert v : plain v -> height v <= depth_limit ->
    eval_docs o [v] = match v with
                      | VNull => Ok []
                      | _ => match validate_go o (dn v) with None => Ok [finalize (dn v)] | Some e => Err e end
                      end.
  Proof.
    intros Hp Hh. unfold eval_docs. cbn [List.length eval_docs_from]. unfold process_doc.
    change (nth_doc [v] 0) with v. rewrite (p1_plain 0 v depth_limit [v] (Some []) Hp Hh). cbn [bind].
    rewrite (repeat_doc_plain (dn v) (env_ctx o) (dn_plain v Hp)). cbn [bind map_res fst snd set_nth].
    rewrite (p2_plain [dn v] 0 (dn v) depth_limit (env_ctx o) (dn_plain v Hp) (dn_nonull v))
      by (pose proof (height_dn v); lia).
    cbn [bind map_res].
    destruct (value_eq_null v) as [->|Hn].
    - reflexivity.
    - rewrite (outputs_of_plain (dn v) (dn_plain v Hp) (dn_nonull v) (dn_nonnull v Hn)).
      destruct (validate_go o (dn v)); cbn [bind concat app]; destruct v; try reflexivity; congruence.
  Qed.

  (* bkl is the identity on plain configuration: no directive, nothing validation refuses, no doubled dollar *)
  Theorem eval_plain v : plain v -> validate_go o (dn v) = None -> noesc v -> height v <= depth_limit ->
    eval_docs o [v] = Ok (match v with VNull => [] | _ => [dn v] end).
  Proof.
    intros Hp Hv Hne Hh. rewrite (eval_inert v Hp Hh), Hv.
    rewrite (finalize_plain (dn v) (dn_plain v Hp) (dn_noesc v Hne)). destruct v; reflexivity.
  Qed.
End Plain.
