(* ParserProofs.v — the parser state machine: observers are pure; a merge touches exactly its targets. *)
From Coq Require Import String Ascii List ZArith Bool Lia.
From Bkl Require Import Model.Value Model.Merge Model.Eval Model.Parser.
Import ListNotations.
Local Open Scope list_scope.

Definition is_observer (x : op) : bool := match x with ODocuments | OOutput => true | _ => false end.

Lemma observer_pure o st x : is_observer x = true -> fst (step o st x) = st.
Proof. intro H. unfold step. destruct (failed st); [reflexivity|]. destruct x; try discriminate; reflexivity. Qed.

Definition is_merge_out (y : out) : bool := match y with RMerge _ | RNew _ => true | _ => false end.

(* removing the observers from a history changes neither the final state nor the results of the other calls *)
Lemma run_without_observers o ops : forall st,
  fst (run o st ops) = fst (run o st (filter (fun x => negb (is_observer x)) ops)) /\
  filter is_merge_out (snd (run o st ops)) = filter is_merge_out (snd (run o st (filter (fun x => negb (is_observer x)) ops))).
Proof.
  induction ops as [|x r IH]; intro st; [split; reflexivity|].
  cbn [run filter]. destruct (is_observer x) eqn:Ob; cbn [negb].
  - pose proof (observer_pure o st x Ob) as P. destruct (step o st x) as [st1 y] eqn:S1. cbn [fst] in P. subst st1.
    destruct (IH st) as [I1 I2]. destruct (run o st r) as [st2 ys]. cbn [fst snd] in *.
    assert (Y : is_merge_out y = false).
    { unfold step in S1. destruct (failed st); [inversion S1; reflexivity|]. destruct x; try discriminate Ob; inversion S1; reflexivity. }
    cbn [filter]. rewrite Y. split; assumption.
  - cbn [run]. destruct (step o st x) as [st1 y]. destruct (IH st1) as [I1 I2].
    destruct (run o st1 r) as [st2 ys]. destruct (run o st1 (filter _ r)) as [st3 zs]. cbn [fst snd] in *.
    split; [exact I1|]. cbn [filter]. destruct (is_merge_out y); [now f_equal|exact I2].
Qed.

(* the k-th observation of a history is the observation of the state the earlier non-observer calls built *)
Lemma run_app o a b st : run o st (a ++ b) = let '(s1, y1) := run o st a in let '(s2, y2) := run o s1 b in (s2, y1 ++ y2).
Proof.
  revert st. induction a as [|x r IH]; intro st; cbn [app run].
  - destruct (run o st b); reflexivity.
  - destruct (step o st x) as [st1 y]. rewrite IH. destruct (run o st1 r) as [s1 y1]. destruct (run o s1 b); reflexivity.
Qed.

Lemma run_length o ops : forall st, List.length (snd (run o st ops)) = List.length ops.
Proof.
  induction ops as [|x r IH]; intro st; [reflexivity|]. cbn [run]. destruct (step o st x) as [st1 y].
  specialize (IH st1). destruct (run o st1 r) as [st2 ys]. cbn [snd List.length] in *. now rewrite IH.
Qed.

(* every observation made anywhere in a history is the observation a parser would give that had been fed only the
   earlier non-observer calls: output requests before it (however many) and all calls after it have no influence *)
Theorem observation_at o a x b st : is_observer x = true ->
  nth_error (snd (run o st (a ++ x :: b))) (List.length a) =
  Some (snd (step o (fst (run o st (filter (fun x => negb (is_observer x)) a))) x)).
Proof.
  intro Ob. rewrite run_app. pose proof (run_length o a st) as L.
  destruct (run_without_observers o a st) as [F _]. rewrite <- F.
  destruct (run o st a) as [s1 y1]. cbn [fst snd] in *. cbn [run].
  destruct (step o s1 x) as [s1' y]. destruct (run o s1' b) as [s2 y2]. cbn [snd].
  rewrite nth_error_app2 by lia. rewrite L, PeanoNat.Nat.sub_diag. reflexivity.
Qed.

(* ---- heap surgery ---- *)
Lemma set_doc_length h i d : List.length (set_doc h i d) = List.length h.
Proof. revert i. induction h as [|x t IH]; intro i; [reflexivity|]. destruct i; cbn; [reflexivity|now rewrite IH]. Qed.

Lemma get_set_same h i d : i < List.length h -> get_doc (set_doc h i d) i = d.
Proof.
  revert i. induction h as [|x t IH]; intros i H; [cbn in H; lia|]. destruct i; [reflexivity|].
  cbn in H. unfold get_doc. cbn [set_doc nth]. apply IH. lia.
Qed.

Lemma get_set_other h i j d : i <> j -> get_doc (set_doc h i d) j = get_doc h j.
Proof.
  revert i j. induction h as [|x t IH]; intros i j N; [reflexivity|].
  destruct i, j; try congruence; unfold get_doc; cbn [set_doc nth]; try reflexivity. apply IH. congruence.
Qed.

Lemma data_set_data_same h i v : i < List.length h -> d_data (get_doc (set_data h i v) i) = v.
Proof. intro H. unfold set_data. now rewrite get_set_same. Qed.
Lemma data_set_data_other h i j v : i <> j -> d_data (get_doc (set_data h i v) j) = d_data (get_doc h j).
Proof. intro N. unfold set_data. now rewrite get_set_other. Qed.
Lemma data_add_parent h i p j : i < List.length h \/ i <> j -> d_data (get_doc (add_parent h i p) j) = d_data (get_doc h j).
Proof.
  intro H. unfold add_parent. destruct (Nat.eq_dec i j) as [->|N].
  - destruct H as [H|H]; [|congruence]. now rewrite get_set_same.
  - now rewrite get_set_other.
Qed.
Lemma set_data_length h i v : List.length (set_data h i v) = List.length h. Proof. apply set_doc_length. Qed.
Lemma add_parent_length h i p : List.length (add_parent h i p) = List.length h. Proof. apply set_doc_length. Qed.

(* mergeDocs over a list of targets: every target receives merge'(its data, the patch data), in its own right;
   every other document keeps its data; the patch data itself is not changed *)
Lemma merge_into_spec targets : forall h pi h',
  NoDup targets -> ~ In pi targets -> (forall t, In t targets -> t < List.length h) -> pi < List.length h ->
  merge_into h targets pi = (h', Ok tt) ->
  List.length h' = List.length h /\
  (forall q, In q targets -> merge' (d_data (get_doc h q)) (d_data (get_doc h pi)) = Ok (d_data (get_doc h' q))) /\
  (forall q, ~ In q targets -> d_data (get_doc h' q) = d_data (get_doc h q)).
Proof.
  induction targets as [|t r IH]; intros h pi h' ND Hpi Hlt Hp H.
  - cbn in H. inversion H; subst. split; [reflexivity|]. split; [intros q []|reflexivity].
  - cbn [merge_into] in H. inversion ND as [|? ? Hnt ND']; subst.
    destruct (merge' (d_data (get_doc h t)) (d_data (get_doc h pi))) as [v|] eqn:M; [|inversion H].
    set (h1 := add_parent (set_data h t v) pi t) in *.
    assert (L1 : List.length h1 = List.length h) by (unfold h1; now rewrite add_parent_length, set_data_length).
    assert (Tpi : t <> pi) by (intro; subst; apply Hpi; now left).
    assert (D1 : forall q, d_data (get_doc h1 q) = if Nat.eqb q t then v else d_data (get_doc h q)).
    { intro q. unfold h1. rewrite data_add_parent by (left; rewrite set_data_length; exact Hp).
      destruct (Nat.eqb q t) eqn:E.
      - apply Nat.eqb_eq in E. subst. apply data_set_data_same. apply Hlt. now left.
      - apply Nat.eqb_neq in E. apply data_set_data_other. congruence. }
    destruct (IH h1 pi h' ND') as (Ln & Ht & Ho).
    + intro; apply Hpi; now right.
    + intros q Hq. rewrite L1. apply Hlt. now right.
    + now rewrite L1.
    + exact H.
    + split; [now rewrite Ln|]. split.
      * intros q [->|Hq].
        -- rewrite (Ho q Hnt), D1, Nat.eqb_refl. exact M.
        -- pose proof (Ht q Hq) as E. rewrite !D1 in E.
           assert (Nq : Nat.eqb q t = false) by (apply Nat.eqb_neq; intro; subst; contradiction).
           assert (Np : Nat.eqb pi t = false) by (apply Nat.eqb_neq; congruence).
           now rewrite Nq, Np in E.
      * intros q Hq. rewrite Ho by (intro; apply Hq; now right). rewrite D1.
        assert (Nq : Nat.eqb q t = false) by (apply Nat.eqb_neq; intro; subst; apply Hq; now left). now rewrite Nq.
Qed.

(* ---- MergeDocument as a whole ---- *)
Lemma set_data_get_other_data h i j v : i <> j -> d_data (get_doc (set_data h i v) j) = d_data (get_doc h j).
Proof. apply data_set_data_other. Qed.

(* A layer document applied to selected targets: the documents that are not selected keep their data, each
   selected one gets the merge of its own data with the layer body, Parser.docs is unchanged. The layer is a
   document of its own (not itself stored in the parser), as for every document of a layer file. *)
Theorem merge_document_targets st pi l body st' :
  select st pi = (SelTargets l, body) -> NoDup l -> ~ In pi l -> ~ In pi (pdocs st) ->
  (forall t, In t l -> t < List.length (heap st)) -> pi < List.length (heap st) ->
  merge_document st pi = (st', Ok tt) ->
  pdocs st' = pdocs st /\
  (forall q, In q l -> merge' (d_data (get_doc (heap st) q)) body = Ok (d_data (get_doc (heap st') q))) /\
  (forall q, ~ In q l -> q <> pi -> d_data (get_doc (heap st') q) = d_data (get_doc (heap st) q)).
Proof.
  intros Hsel ND Hpi Hpd Hlt Hp H. unfold merge_document in H. rewrite Hsel in H.
  set (h0 := set_data (heap st) pi body) in *.
  destruct (merge_into h0 l pi) as [h2 r] eqn:M. inversion H; subst. clear H. cbn [pdocs heap].
  assert (L0 : List.length h0 = List.length (heap st)) by (unfold h0; apply set_data_length).
  destruct (merge_into_spec l h0 pi h2 ND Hpi) as (Ln & Ht & Ho); try (rewrite L0; assumption).
  - exact M.
  - split; [reflexivity|]. split.
    + intros q Hq. pose proof (Ht q Hq) as E.
      assert (Nq : pi <> q) by (intro; subst; contradiction).
      unfold h0 in E. rewrite (data_set_data_other (heap st) pi q body Nq) in E.
      rewrite (data_set_data_same (heap st) pi body Hp) in E. exact E.
    + intros q Hq Nq. rewrite (Ho q Hq). unfold h0. apply data_set_data_other. congruence.
Qed.

(* ---- Document.AllParents: the model's fuel is never what ends the walk on an in-order history ----
   The real AllParents recurses over Parents with no bound. In the histories the properties quantify over every
   document is merged once, after all the documents it will be merged into exist, so every parent link points to an
   older document ([ordered]); on such heaps the walk needs at most one level of fuel per document, and the result is
   the same for every larger fuel. (A caller that links documents in a cycle - library misuse - would make the real
   code recurse without end; that is outside every property's quantifier and outside this model.) *)
Definition ordered (h : list doc) : Prop := forall i p, In p (d_parents (get_doc h i)) -> p < i.

Lemma all_parent_ids_nil f h : all_parent_ids f h [] = [].
Proof. destruct f; reflexivity. Qed.

Lemma flat_map_ext_in {A B} (f g : A -> list B) l : (forall x, In x l -> f x = g x) -> flat_map f l = flat_map g l.
Proof.
  induction l as [|x l IH]; intro H; [reflexivity|]. cbn [flat_map]. rewrite (H x (or_introl eq_refl)).
  f_equal. apply IH. intros y Hy. apply H. now right.
Qed.

Theorem all_parent_ids_fuel_irrelevant h : ordered h -> forall b f f' ps,
  (forall p, In p ps -> p < b) -> b <= f -> b <= f' -> all_parent_ids f h ps = all_parent_ids f' h ps.
Proof.
  intro Ho. induction b as [|b IH]; intros f f' ps Hb Hf Hf'.
  - destruct ps as [|p ps]; [now rewrite !all_parent_ids_nil|]. exfalso. specialize (Hb p (or_introl eq_refl)). inversion Hb.
  - destruct f as [|g]; [inversion Hf|]. destruct f' as [|g']; [inversion Hf'|].
    cbn [all_parent_ids]. apply flat_map_ext_in. intros p Hp. f_equal.
    apply IH.
    + intros q Hq. specialize (Ho p q Hq). specialize (Hb p Hp). apply PeanoNat.Nat.lt_le_trans with p; [exact Ho|]. now apply PeanoNat.Nat.lt_succ_r.
    + now apply le_S_n.
    + now apply le_S_n.
Qed.

(* the parents a patch is applied to (Parser.parents) do not depend on the fuel *)
Corollary parents_in_fuel_irrelevant st pi k : ordered (heap st) -> pi < List.length (heap st) ->
  all_parent_ids (1 + List.length (heap st)) (heap st) (d_parents (get_doc (heap st) pi))
  = all_parent_ids (1 + List.length (heap st) + k) (heap st) (d_parents (get_doc (heap st) pi)).
Proof.
  intros Ho Hpi. apply (all_parent_ids_fuel_irrelevant (heap st) Ho (List.length (heap st))).
  - intros p Hp. specialize (Ho pi p Hp). eapply PeanoNat.Nat.lt_trans; eassumption.
  - lia.
  - lia.
Qed.

(* creating a document whose parents already exist keeps the heap ordered *)
Lemma ordered_new h id ps data : ordered h -> (forall p, In p ps -> p < List.length h) ->
  ordered (h ++ [{| d_id := id; d_parents := ps; d_data := data |}]).
Proof.
  intros Ho Hps i p Hin. unfold get_doc in Hin.
  destruct (PeanoNat.Nat.lt_ge_cases i (List.length h)) as [Hlt|Hge].
  - rewrite app_nth1 in Hin by exact Hlt. exact (Ho i p Hin).
  - destruct (PeanoNat.Nat.eq_dec i (List.length h)) as [E|N].
    + subst i. rewrite app_nth2, PeanoNat.Nat.sub_diag in Hin by apply le_n. cbn in Hin. now apply Hps.
    + rewrite nth_overflow in Hin; [contradiction|]. rewrite app_length. cbn.
      rewrite PeanoNat.Nat.add_1_r. apply PeanoNat.Nat.le_succ_l. apply PeanoNat.Nat.le_neq. split; [exact Hge|congruence].
Qed.
