(* EvalProofs.v — lemmas about Model.Eval *)
From Coq Require Import String Ascii List ZArith Bool Lia.
From Bkl Require Import Model.Value Model.Merge Model.Str Model.Eval Proofs.StrProofs.
Import ListNotations.
Local Open Scope string_scope.
Local Open Scope list_scope.

Lemma has_prefix_app p s : has_prefix p (p ++ s) = true.
Proof.
  unfold has_prefix. induction p as [|c r IH]; cbn; [destruct s; reflexivity|].
  destruct (ascii_dec c c) as [_|F]; [exact IH|congruence].
Qed.

Lemma drop_app p s : drop (String.length p) (p ++ s) = s.
Proof. induction p as [|c r IH]; cbn; [reflexivity|exact IH]. Qed.

Lemma p1_self_cycle o cur fuel S k :
  get o S cur (VStr k) = Ok (VStr ("$merge:" ++ k), (cur, [k])) ->
  exists e, p1 o cur fuel S None (VStr ("$merge:" ++ k)) = Err e.
Proof.
  intro H. induction fuel as [|f IH]; [eexists; reflexivity|].
  cbn [p1]. rewrite (has_prefix_app "$merge:" k).
  change 7 with (String.length "$merge:"). rewrite drop_app, H. cbn [bind]. exact IH.
Qed.

(* mutual reference cycle of length two through $merge: strings *)
Lemma p1_two_cycle o cur S a b :
  get o S cur (VStr a) = Ok (VStr ("$merge:" ++ b), (cur, [a])) ->
  get o S cur (VStr b) = Ok (VStr ("$merge:" ++ a), (cur, [b])) ->
  forall fuel, (exists e, p1 o cur fuel S None (VStr ("$merge:" ++ a)) = Err e) /\ (exists e, p1 o cur fuel S None (VStr ("$merge:" ++ b)) = Err e).
Proof.
  intros Ha Hb. induction fuel as [|f [IHa IHb]]; [split; eexists; reflexivity|].
  split; cbn [p1]; rewrite (has_prefix_app "$merge:" _); change 7 with (String.length "$merge:"); rewrite drop_app.
  - rewrite Ha. cbn [bind]. exact IHb.
  - rewrite Hb. cbn [bind]. exact IHa.
Qed.

(* a $replace host that refers to itself *)
Lemma p1_replace_self o cur S m r org :
  lookup "$merge" m = None -> lookup "$replace" m = Some r -> get o S cur r = Ok (VMap m, org) ->
  forall fuel loc, exists e, p1 o cur fuel S loc (VMap m) = Err e.
Proof.
  intros H1 H2 Hg. induction fuel as [|f IH]; intro loc; [eexists; reflexivity|].
  cbn [p1]. rewrite H1, H2, Hg. cbn [bind]. apply IH.
Qed.
