(* EvalProofs.v — lemmas about Model.Eval *)
From Coq Require Import String Ascii List ZArith Bool Lia.
From Bkl Require Import Model.Value Model.Merge Model.Str Model.Eval Proofs.StrProofs.
Import ListNotations.
Local Open Scope string_scope.
Local Open Scope list_scope.

Lemma has_prefix_app p s : has_prefix p (p ++ s) = true.
Proof.
  unfold has_prefix. induction p as [|c r IH]; cbn; [destruct s; reflexivity|].
  destruct (ascii_dec c c) as [_|F]; [exact IH|congruence].
Qed.

Lemma drop_app p s : drop (String.length p) (p ++ s) = s.
Proof. induction p as [|c r IH]; cbn; [reflexivity|exact IH]. Qed.

Lemma p1_self_cycle o cur fuel S k :
  get o S cur (VStr k) = Ok (VStr ("$merge:" ++ k), (cur, [k])) ->
  exists e, p1 o cur fuel S None (VStr ("$merge:" ++ k)) = Err e.
Proof.
  intro H. induction fuel as [|f IH]; [eexists; reflexivity|].
  cbn [p1]. rewrite (has_prefix_app "$merge:" k).
  change 7 with (String.length "$merge:"). rewrite drop_app, H. cbn [bind]. exact IH.
Qed.
