(* RootProofs.v — opening a path through a root handle only ever looks at, and only ever returns the content of, files
   under the root (component-wise), whatever links say. *)
From Coq Require Import String Ascii List Bool.
From Bkl Require Import Model.Value Model.Root.
Import ListNotations.
Local Open Scope string_scope.
Local Open Scope list_scope.

Lemma is_prefix_refl r : is_prefix r r = true.
Proof. induction r as [|x r IH]; [reflexivity|]. cbn. now rewrite String.eqb_refl, IH. Qed.

Lemma is_prefix_app r : forall p c, is_prefix r p = true -> is_prefix r (p ++ [c]) = true.
Proof.
  induction r as [|x r IH]; intros p c H; [reflexivity|].
  destruct p as [|y p]; [discriminate|]. cbn in *. apply andb_prop in H as [H1 H2]. now rewrite H1, (IH p c H2).
Qed.

Section Inside.
  Variable fs : tfs.
  Variable root : cpath.

  (* whatever is returned is the content of a file under the root *)
  Theorem walk_inside : forall fuel cur rest d, is_prefix root cur = true -> walk fuel fs root cur rest = Ok d ->
    exists q, is_prefix root q = true /\ tfs_lookup fs q = Some (TFile (Ok d)).
  Proof.
    induction fuel as [|f IH]; intros cur rest d Hc H; [discriminate|].
    cbn [walk] in H. destruct rest as [|c r].
    - destruct (tfs_lookup fs cur) as [[|dd|a t]|] eqn:L; try discriminate. subst dd. exists cur. auto.
    - pose proof (is_prefix_app root cur c Hc) as Hn.
      destruct (tfs_lookup fs (cur ++ [c])) as [[|dd|a t]|] eqn:L; try discriminate.
      + exact (IH _ _ _ Hn H).
      + destruct r; [|discriminate]. subst dd. exists (cur ++ [c]). auto.
      + destruct a; [discriminate|]. destruct (is_prefix root t); [|discriminate].
        exact (IH _ _ _ (is_prefix_refl root) H).
  Qed.

  Theorem root_open_inside fuel p d : root_open fuel fs root p = Ok d ->
    exists q, is_prefix root q = true /\ tfs_lookup fs q = Some (TFile (Ok d)).
  Proof.
    unfold root_open. destruct (is_prefix root p); [|discriminate]. apply walk_inside. apply is_prefix_refl.
  Qed.

  (* a path that is not under the root is refused without looking at the file system *)
  Theorem root_open_outside fuel p : is_prefix root p = false -> root_open fuel fs root p = Err EOther.
  Proof. intro H. unfold root_open. now rewrite H. Qed.
End Inside.

(* the result is independent of the content, kind and existence of everything that is not under the root *)
Theorem walk_indep root fs1 fs2 : (forall q, is_prefix root q = true -> tfs_lookup fs1 q = tfs_lookup fs2 q) ->
  forall fuel cur rest, is_prefix root cur = true -> walk fuel fs1 root cur rest = walk fuel fs2 root cur rest.
Proof.
  intro Hag. induction fuel as [|f IH]; intros cur rest Hc; [reflexivity|].
  cbn [walk]. destruct rest as [|c r].
  - now rewrite (Hag cur Hc).
  - pose proof (is_prefix_app root cur c Hc) as Hn. rewrite (Hag _ Hn).
    destruct (tfs_lookup fs2 (cur ++ [c])) as [[|dd|a t]|]; try reflexivity.
    + apply IH. exact Hn.
    + destruct a; [reflexivity|]. destruct (is_prefix root t); [|reflexivity]. apply IH. apply is_prefix_refl.
Qed.

Theorem root_open_indep root fs1 fs2 fuel p : (forall q, is_prefix root q = true -> tfs_lookup fs1 q = tfs_lookup fs2 q) ->
  root_open fuel fs1 root p = root_open fuel fs2 root p.
Proof.
  intro Hag. unfold root_open. destruct (is_prefix root p); [|reflexivity]. apply (walk_indep root fs1 fs2 Hag). apply is_prefix_refl.
Qed.

(* a sibling whose name merely extends the root's name is outside *)
Example sibling_prefix_name : is_prefix ["x"; "root"] ["x"; "root2"; "decoy.yaml"] = false.
Proof. reflexivity. Qed.

(* ---- nested SetRoot calls can only narrow ---- *)
Lemma is_prefix_trans a : forall b c, is_prefix a b = true -> is_prefix b c = true -> is_prefix a c = true.
Proof.
  induction a as [|x a IH]; intros b c H1 H2; [reflexivity|].
  destruct b as [|y b]; [discriminate|]. destruct c as [|z c]; [discriminate|].
  cbn in *. apply andb_prop in H1 as [E1 H1]. apply andb_prop in H2 as [E2 H2].
  apply String.eqb_eq in E1. apply String.eqb_eq in E2. subst. rewrite String.eqb_refl. cbn. exact (IH b c H1 H2).
Qed.

Theorem set_roots_narrow ps : forall cur final, set_roots cur ps = Some final -> is_prefix cur final = true.
Proof.
  induction ps as [|p r IH]; intros cur final H; cbn in H.
  - inversion H. apply is_prefix_refl.
  - unfold set_root in H. destruct (is_prefix cur p) eqn:E; [|discriminate].
    apply (is_prefix_trans cur p final E). exact (IH p final H).
Qed.

(* so whatever is opened after any sequence of successful SetRoot calls lies under the FIRST root as well *)
Corollary nested_roots_confine fs first ps final fuel p d :
  set_roots first ps = Some final -> root_open fuel fs final p = Ok d ->
  exists q, is_prefix first q = true /\ tfs_lookup fs q = Some (TFile (Ok d)).
Proof.
  intros Hs Ho. destruct (root_open_inside fs final fuel p d Ho) as (q & Hq & Hl).
  exists q. split; [|exact Hl]. exact (is_prefix_trans first final q (set_roots_narrow ps first final Hs) Hq).
Qed.
