(* main.ml — reads a stream of values (exchange format) on stdin, one case each, and prints
   run_case of each on stdout. No logic of its own beyond parsing and printing.
   Format:  N | T | F | I<dec>; | D<len>:<bytes> | S<len>:<bytes> | L<n>;v* | M<n>;(S<len>:<key> v)*
   whitespace between top-level values is ignored. *)
open Model

let explode (s : string) : char list = List.init (String.length s) (String.get s)
let implode (l : char list) : string =
  let b = Buffer.create 16 in List.iter (Buffer.add_char b) l; Buffer.contents b

let buf = ref ""
let pos = ref 0
let peek () = if !pos < String.length !buf then Some !buf.[!pos] else None
let next () = let c = !buf.[!pos] in incr pos; c
let read_until (stop : char) : string =
  let start = !pos in
  while !buf.[!pos] <> stop do incr pos done;
  let s = String.sub !buf start (!pos - start) in incr pos; s
let read_bytes () : string =
  let n = int_of_string (read_until ':') in
  let s = String.sub !buf !pos n in pos := !pos + n; s

exception Bad of string

let rec parse () : value =
  match next () with
  | 'N' -> VNull
  | 'T' -> VBool true
  | 'F' -> VBool false
  | 'I' -> (match z_of_string (explode (read_until ';')) with Some z -> VInt z | None -> raise (Bad "int"))
  | 'D' -> VFloat (explode (read_bytes ()))
  | 'S' -> VStr (explode (read_bytes ()))
  | 'L' -> let n = int_of_string (read_until ';') in
           let rec go k acc = if k = 0 then List.rev acc else go (k - 1) (parse () :: acc) in
           VList (go n [])
  | 'M' -> let n = int_of_string (read_until ';') in
           let rec go k acc =
             if k = 0 then List.rev acc
             else begin
               (match next () with 'S' -> () | _ -> raise (Bad "key"));
               let key = explode (read_bytes ()) in
               let v = parse () in
               go (k - 1) ((key, v) :: acc)
             end in
           VMap (go n [])
  | c -> raise (Bad (Printf.sprintf "tag %c at %d" c !pos))

let rec print (b : Buffer.t) (v : value) : unit =
  match v with
  | VNull -> Buffer.add_char b 'N'
  | VBool true -> Buffer.add_char b 'T'
  | VBool false -> Buffer.add_char b 'F'
  | VInt z -> Buffer.add_char b 'I'; Buffer.add_string b (implode (z_to_string z)); Buffer.add_char b ';'
  | VFloat g -> let s = implode g in Buffer.add_string b (Printf.sprintf "D%d:" (String.length s)); Buffer.add_string b s
  | VStr g -> let s = implode g in Buffer.add_string b (Printf.sprintf "S%d:" (String.length s)); Buffer.add_string b s
  | VList l -> Buffer.add_string b (Printf.sprintf "L%d;" (List.length l)); List.iter (print b) l
  | VMap m -> Buffer.add_string b (Printf.sprintf "M%d;" (List.length m));
              List.iter (fun (k, x) -> let s = implode k in
                          Buffer.add_string b (Printf.sprintf "S%d:" (String.length s)); Buffer.add_string b s; print b x) m

let () =
  set_binary_mode_in stdin true; set_binary_mode_out stdout true;
  buf := (let b = Buffer.create 65536 in (try while true do Buffer.add_channel b stdin 1 done with End_of_file -> ()); Buffer.contents b);
  let out = Buffer.create 65536 in
  let rec skip () = match peek () with Some (' ' | '\n' | '\t' | '\r') -> incr pos; skip () | _ -> () in
  let rec loop () =
    skip ();
    if !pos < String.length !buf then begin
      let c = parse () in
      (* a case whose maps are not strictly sorted is rejected, not run *)
      let r = if wfb c then run_case c else VList [VStr (explode "notwf")] in
      print out r; Buffer.add_char out '\n';
      loop ()
    end in
  loop ();
  print_string (Buffer.contents out)
