#!/usr/bin/python3
# keep_seed.py <seed-id> <property> <worktree> <checks,comma> "<needs>"
# confirms a seeded change in its scratch worktree (suite passes with it; demo fails with it and
# passes without), runs my checks against it applied to /repo (and reverts), stores it under seeded/<seed-id>/
import json
import os
import shutil
import subprocess
import sys

sid, prop, wt, checks, needs = sys.argv[1:6]
dst = os.path.join("/verif/seeded", sid)
os.makedirs(dst, exist_ok=True)
env = dict(os.environ, GOFLAGS="-mod=mod", GOPROXY="off")


def sh(cmd, cwd=None):
    p = subprocess.run(cmd, shell=True, cwd=cwd, env=env, stdout=subprocess.PIPE, stderr=subprocess.STDOUT, executable="/bin/bash")
    return p.returncode, p.stdout.decode("utf-8", "replace")


patch = os.path.join(wt, "seeded_patch.diff")
ran = []
sh("git checkout -- . ", wt)
rc, out = sh("git apply seeded_patch.diff", wt)
ran.append(("git apply seeded_patch.diff", rc))
demo = "seeded_demo_test.go" if os.path.exists(os.path.join(wt, "seeded_demo_test.go")) else "seeded_demo.sh"
os.rename(os.path.join(wt, demo), "/tmp/keep_demo")
rc_suite, out = sh("go build ./... && go test -vet=off -count=1 ./... 2>&1 | grep -v 'no test files' | tail -2", wt)
ran.append(("suite with change", out.strip()))
os.rename("/tmp/keep_demo", os.path.join(wt, demo))
if demo.endswith(".go"):
    rc_with, o1 = sh("go test -vet=off -count=1 -run 'Seeded|Demo' . 2>&1 | tail -2", wt)
    sh("git apply -R seeded_patch.diff", wt)
    rc_without, o2 = sh("go test -vet=off -count=1 -run 'Seeded|Demo' . 2>&1 | tail -2", wt)
    sh("git apply seeded_patch.diff", wt)
else:
    # demos that use pre-built binaries: rebuild them for each direction
    bindir = os.path.join(os.path.dirname(wt), "bin_" + os.path.basename(wt))
    rebuild = ("go build -o %s/ ./cmd/... ; " % bindir) if os.path.isdir(bindir) else ""
    rc_with, o1 = sh(rebuild + "bash seeded_demo.sh > /tmp/keep_demo.out 2>&1; echo rc=$?", wt)
    sh("git apply -R seeded_patch.diff", wt)
    rc_without, o2 = sh(rebuild + "bash seeded_demo.sh > /tmp/keep_demo.out 2>&1; echo rc=$?", wt)
    sh("git apply seeded_patch.diff", wt)
ran.append(("demo with change", o1.strip()))
ran.append(("demo without change", o2.strip()))
suite_ok = "ok" in ran[1][1] and "FAIL" not in ran[1][1]
with_fails = "FAIL" in o1 or ("rc=" in o1 and "rc=0" not in o1)
without_ok = ("ok" in o2 and "FAIL" not in o2) or "rc=0" in o2
confirmed = suite_ok and with_fails and without_ok
caught = {}
rc, out = sh("git diff --quiet", "/repo")
assert rc == 0, "/repo dirty"
rc, out = sh("git apply %s" % patch, "/repo")
assert rc == 0, "patch does not apply to /repo: " + out
# evidence files must stay those of clean-tree runs
shutil.rmtree("/verif/.work/evidence_keep", ignore_errors=True)
shutil.copytree("/verif/evidence", "/verif/.work/evidence_keep")
try:
    for c in checks.split(","):
        rc, out = sh("./check %s 2>&1 | grep -E 'VIOLATION|tier=' | head -3" % c, "/verif")
        caught[c] = "VIOLATION" in out
        print(c, "CAUGHT" if caught[c] else "missed", out.strip().splitlines()[-1] if out.strip() else "")
finally:
    sh("git checkout -- .", "/repo")
    shutil.rmtree("/verif/evidence", ignore_errors=True)
    shutil.copytree("/verif/.work/evidence_keep", "/verif/evidence")
    shutil.rmtree("/verif/.work/evidence_keep", ignore_errors=True)
shutil.copy(patch, os.path.join(dst, "patch.diff"))
shutil.copy(os.path.join(wt, demo), os.path.join(dst, demo))
if os.path.exists(os.path.join(wt, "seeded_notes.md")):
    shutil.copy(os.path.join(wt, "seeded_notes.md"), os.path.join(dst, "notes.md"))
meta = {"seed": sid, "breaks_property": prop, "needs_to_manifest": needs, "confirmed_by_me": confirmed, "what_i_ran": ran,
        "checks_run_against_it": caught, "caught_by": sorted(k for k, v in caught.items() if v)}
json.dump(meta, open(os.path.join(dst, "meta.json"), "w"), indent=1)
print("confirmed" if confirmed else "NOT CONFIRMED", ran[1:], "->", dst)
