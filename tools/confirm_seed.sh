#!/bin/bash
# usage: confirm_seed.sh <worktree>   confirms: suite passes with change; demo fails with change, passes without
set -u
W="$1"; cd "$W" || exit 2
export GOFLAGS=-mod=mod GOPROXY=off
echo "== with change: build + suite"; go build ./... && go test -vet=off -count=1 . 2>&1 | tail -2
mv seeded_demo_test.go /tmp/$$.demo 2>/dev/null
echo "== suite without demo file"; go test -vet=off -count=1 ./... 2>&1 | grep -v "no test files" | tail -2
mv /tmp/$$.demo seeded_demo_test.go 2>/dev/null
if [ -f seeded_demo_test.go ]; then
  echo "== demo with change (expect FAIL)"; go test -vet=off -count=1 -run 'Seeded|Demo' . 2>&1 | tail -3
  git apply -R seeded_patch.diff ; echo "== demo without change (expect ok)"; go test -vet=off -count=1 -run 'Seeded|Demo' . 2>&1 | tail -3; git apply seeded_patch.diff
elif [ -f seeded_demo.sh ]; then
  echo "== demo.sh with change (expect FAIL)"; bash seeded_demo.sh >/dev/null 2>&1; echo rc=$?
  git apply -R seeded_patch.diff ; echo "== demo.sh without change (expect ok)"; bash seeded_demo.sh > /dev/null 2>&1; echo rc=$?; git apply seeded_patch.diff
fi
