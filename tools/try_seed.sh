#!/bin/bash
# usage: try_seed.sh <patch> <check-id>...   applies the patch to /repo, runs the checks, reverts
set -u
P="$1"; shift
cd /repo || exit 2
git diff --quiet || { echo "/repo dirty"; exit 2; }
git apply "$P" || { echo "patch does not apply"; exit 2; }
mkdir -p /verif/.work; rm -rf /verif/.work/evidence_keep; cp -r /verif/evidence /verif/.work/evidence_keep   # evidence stays that of clean-tree runs
for c in "$@"; do
  ( cd /verif && ./check "$c" 2>&1 | grep -E "VIOLATION|tier=" | head -4 )
done
git checkout -- . ; git status --short | head -3
rm -rf /verif/evidence; mv /verif/.work/evidence_keep /verif/evidence
