#!/bin/bash
# usage: try_tree.sh <tree> [check-id...]   runs the quick checks against another source tree (VERIF_REPO=<tree>),
# without touching /repo; evidence files are restored afterwards (they describe clean-tree runs only).
set -u
T="$1"; shift
IDS="${*:-C01 C02 C03 C04 C05 C06 C07 C08 C09 C10 C11 C12 C13 C14 C15 C16 C17 C18 C19 C20}"
cd /verif || exit 2
mkdir -p .work; rm -rf .work/evidence_keep_tree; cp -r evidence .work/evidence_keep_tree
for c in $IDS; do
  VERIF_REPO="$T" ./check "$c" 2>&1 | grep -E "VIOLATION|tier=" | head -4
done
rm -rf evidence; mv .work/evidence_keep_tree evidence
