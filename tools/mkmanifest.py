#!/usr/bin/python3
# regenerates MANIFEST.json from the table below
import json, os
V = os.path.dirname(os.path.dirname(os.path.abspath(__file__)))
ids = ["C%02d" % i for i in range(1, 21)]
baseline = json.load(open('/root/.vp/BASELINE.json'))['cmd']
TECH = "Coq proof over a hand-written executable model + per-run checked correspondence (differential execution of the real code and the extracted model)"
TECH_BY = {
 "C05": "Coq proof of the stream framing over an executable model (run against yaml.go/toml.go) + round trips through bkl and independent parsers; the codecs are oracles",
 "C08": "Coq proof that every cycle ends in an error and that the model's depth bounds are never what ends a load + execution of all tools in child processes (crash/hang/stdout discipline is a runtime fact)",
 "C09": "Coq proof of order-independence of the map-order loops + repeated, cross-process, reverse-order and concurrent execution (the goroutine half is empirical)",
 "C14": "Coq proof of base64 inversion and the transform equations over an executable model + correspondence with oracle tables from independent implementations",
 "C18": "Coq proof over an executable path-level model of the root handle (run against bkl -r and Parser.SetRoot) + decoy variation and system-call trace; the OS/runtime contract is assumed",
}
NOTE = ("Trusted: Coq 8.16.1 kernel; no axioms (Print Assumptions: closed under the global context); extraction via ExtrOcamlBasic+ExtrOcamlString; "
        "OCaml driver; Go harness; python orchestrator. The model (coq/Model) is hand-written from the Go sources; the tie to /repo is the "
        "correspondence run of this check, which is differential testing bounded by its generators. ")
CLAIMS = {
 "C01": ("14 theorems for all trees: key-by-key characterisation of map merge (C01_map_keywise), reject-iff (C01_map_reject_iff), $replace, scalars, null, list concat/replace/delete, list $match (every matching entry patched in place, rejected when nothing matches), extra keys, type clashes, frame over any number of layers; tied by 2-4 layer chains with directives at any position through MergeDocument, Documents() after every layer, OutputDocuments at the end.", "deepClone's YAML round trip is taken as the identity (whole-valued doubles excluded)."),
 "C02": ("Theorems: the target-selection rule as one equation (C02_targets), independence of every target and untouched others for any target set (C02_independent), order preservation; tied by call histories (base streams, parent links, document-level $match/$invert/null), Documents() compared after every call.", "that Go values behave as values (no aliasing) is what the history correspondence tests."),
 "C06": ("Theorems: identity on plain documents (C06_identity), escape theorem for arbitrary data eval[esc v] = [dn v] (C06_escape), escaped strings are never directives, unescape(escape s) = s; tied by plain, escaped and layered documents compared with the generating tree and the model.", "hypotheses: well-formed tree (sorted maps), nesting depth <= the depth guard of the evaluator."),
 "C07": ("Theorem C07_outputs_valid for every input and every directive: each output document is the unescaping of a tree validation accepted; marker refusal, $required sticks through unmentioning layers; tied by chains with $required and directive-shaped strings injected anywhere, ok/err with error class and outputs compared, outputs scanned.", "unicode.IsLower above ASCII is an oracle table (python unicodedata)."),
 "C09": ("Theorems: order-independence of the two map-order loops whose order is observable (merge entries, validation), evaluation is a function, repeated Output; tied by repeated execution: 4x in-process, 2 fresh processes, different histories concurrently from several goroutines (race detector in thorough), Output bytes held and compared, bkl binary 3x.", "goroutine half is empirical; package-level state checked syntactically."),
 "C10": ("Theorems: $replace/$merge:/$replace: step equations, $replace with a directive-free target evaluates exactly as the target in place, detached evaluation never writes to any document (target intact), string and list forms agree, dangling and ambiguous references are errors; tied by every reference form incl. nested references inside targets, vs model and vs the hand-inlined document.", "yaml.Unmarshal of reference strings is an oracle table (yaml.v3 called directly). $merge 'as if inline' is step equations only; overlapping host/target is order-dependent by design (partial)."),
 "C11": ("Theorems: find_outputs refines strip/marks, filter_output refines hide, the output documents are exactly the marked subtrees in marks order with hidden parts removed (C11_select), no $output key survives in what an output is the unescaping of (C11_no_marker_survives), malformed markers are errors; tied by trees with markers on any subset of maps and lists incl. nested selections.", ""),
 "C12": ("Theorems: $repeat: n = n copies bound 0..n-1, named counts = lexicographic product of the sorted names (C12_doc_named), product size, non-integer counts are errors; tied by documents with $repeat at document level, in lists and maps, vs model and vs the hand-expanded stream.", "nested list/map repeats: correspondence only."),
 "C13": ("Theorems: the scanner splits a template of any number of segments into exactly its literals and references (C13_scan), a missing reference is an error, $env values; tied by templates with a per-case environment.", "known finding F-C13-env-dollar: environment values containing '$'."),
 "C14": ("Theorems: base64 decode inverts encode for every byte string, equations for each transform, flags, stacking is a left fold, bad arguments; tied by a model whose sha256/json/yaml/toml tables come from independent implementations (hashlib, encoding/json, yaml.v3, go-toml, python parsers).", "codecs and sha256 are oracles."),
 "C17": ("Theorems: skeleton (C17_leaves), positions, count, empty-iff, idempotence, and bkl fails with the required-field error iff bklr's output is non-empty (C17_agrees_bkl); tied by the real bklr and bkl binaries on mixed-format layer chains.", ""),
 "C19": ("Theorems: observers leave the state unchanged, repeatable, and for every history dropping the output calls changes neither the final state nor any merge result (C19_history); tied by call histories interleaving merges and every output method, byte-identical repetition and unchanged Documents().", ""),
}
NOT_YET = "check under construction in this round (see DESIGN.md section 6); will be claimed when its correspondence runs"
m = {"version": 1, "setup_cmd": "./setup.sh",
     "hooks": {"guard": "verif", "enable": "none needed: every property is observed through the public API (harness/) and the CLIs; no source hook exists",
               "baseline_off_cmd": baseline, "source_commits": [], "add_only": True},
     "engines": [
        {"name": "coq-model", "path": "coq/", "serves_properties": ids, "kind_free_text": "hand-written executable Gallina model of bkl + theorems (Coq 8.16.1, stdlib only)"},
        {"name": "ocaml-driver", "path": "driver/", "serves_properties": ids, "kind_free_text": "extracted model + parser/printer of the exchange format"},
        {"name": "go-harness", "path": "harness/", "serves_properties": ids, "kind_free_text": "executes the same cases on the real implementation through its public API; CLIs are built from /repo per run"},
        {"name": "orchestrator", "path": "check", "serves_properties": ids, "kind_free_text": "python3: generators, comparison, shrinking, evidence"}],
     "checks": [], "not_applicable": []}
extra = {}
try:
    extra = json.load(open(os.path.join(V, "tools", "claims_extra.json")))
except Exception:
    pass
CLAIMS.update({k: tuple(v) for k, v in extra.items()})
for i in ids:
    if i in CLAIMS and os.path.exists(os.path.join(V, "vlib", "props", i.lower() + ".py")):
        text, note = CLAIMS[i]
        m["checks"].append({"property_id": i, "quick_cmd": "./check %s --tier quick" % i, "thorough_cmd": "./check %s --tier thorough" % i,
                            "evidence_file": "evidence/%s.json" % i, "replay_cmd_template": "./check %s --replay {path}" % i, "engine": "coq-model",
                            "level_claimed": {"category": "proof", "text": text, "design_ref": "DESIGN.md section 6, " + i},
                            "level_note": NOTE + note, "technique": TECH_BY.get(i, TECH)})
    else:
        m["not_applicable"].append({"property_id": i, "reason": NOT_YET})
json.dump(m, open(os.path.join(V, "MANIFEST.json"), "w"), indent=1)
print(len(m["checks"]), "claimed;", len(m["not_applicable"]), "not yet")
