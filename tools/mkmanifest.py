#!/usr/bin/python3
# regenerates MANIFEST.json from the table below
import json, os
V = os.path.dirname(os.path.dirname(os.path.abspath(__file__)))
ids = ["C%02d" % i for i in range(1, 21)]
baseline = json.load(open('/root/.vp/BASELINE.json'))['cmd']
TECH = "Coq proof over a hand-written executable model + per-run checked correspondence (differential execution of the real code and the extracted model)"
NOTE = ("Trusted: Coq 8.16.1 kernel; no axioms (Print Assumptions: closed under the global context); extraction via ExtrOcamlBasic+ExtrOcamlString; "
        "OCaml driver; Go harness; python orchestrator. The model (coq/Model) is hand-written from the Go sources; the tie to /repo is the "
        "correspondence run of this check, which is differential testing bounded by its generators. ")
CLAIMS = {
 "C01": ("Theorems about the model of merge.go/match.go (Properties/C01.v) + correspondence: 2-4 layer chains with directives at any position applied through MergeDocument, Documents() compared after every layer, OutputDocuments at the end.", "third-party YAML round trip inside deepClone is taken as the identity (integral floats excluded)."),
 "C02": ("Theorems about the parser state machine (target selection, order preservation; Properties/C02.v) + correspondence over call histories: base streams, layers with parent links, document-level $match/$invert/null; Documents() compared after every call.", "value semantics of documents (no aliasing) is exactly what the history correspondence tests."),
 "C06": ("Theorem unescape(escape s) = s for all strings and identity lemmas of the evaluator on plain trees (Properties/C06.v) + correspondence: plain, escaped and layered documents over a $-heavy alphabet compared with the generating tree and the model.", ""),
 "C07": ("Theorems that every successful output is the finalisation of a validated tree (Properties/C07.v) + correspondence: $required and directive-shaped strings injected anywhere in layer chains; ok/err with error class and outputs compared; outputs scanned for markers.", "unicode.IsLower above ASCII is an oracle table (python unicodedata, category Ll)."),
 "C09": ("Theorems: evaluation is a function of its inputs, order-independence of the model's traversals (Properties/C09.v) + repeated execution: same input 4x in-process, 2 fresh processes, 8/32 goroutines (race detector in thorough), bkl binary 3x; all identical and equal to the model.", "goroutine half is empirical; package-level state checked syntactically."),
 "C10": ("Theorems about reference resolution in the live-document model (Properties/C10.v) + correspondence: every reference form, same- and cross-document, chains, hidden templates, dangling/ambiguous; compared with the model and with the hand-inlined document.", "yaml.Unmarshal of reference strings is an oracle table computed with yaml.v3 directly. Overlapping host/target: step theorems only (partial)."),
 "C11": ("Theorems about find_outputs/filter_output (Properties/C11.v) + correspondence on trees with $output markers on any subset of maps and lists.", ""),
 "C12": ("Theorems about repeat_gen enumeration (Properties/C12.v) + correspondence: $repeat at document level, in lists, in maps, named counts; compared with the model and with the hand-expanded stream.", ""),
 "C13": ("Theorems about the template scanner and substitution (Properties/C13.v) + correspondence with a controlled environment per case.", "environment values that themselves look like directives are outside the generator (DESIGN.md D18)."),
 "C14": ("Theorems: base64 round trip, transform equations, stacking is a left fold (Properties/C14.v) + correspondence where sha256/json/yaml/toml tables come from independent implementations (hashlib, encoding/json, yaml.v3, go-toml, python parsers).", "codecs and sha256 are oracles."),
 "C17": ("Theorems that required() keeps exactly the $required skeleton: leaves, positions, count, empty-iff, idempotence (Properties/C17.v) + differential run of the real bklr and bkl binaries on generated layer chains in mixed formats.", ""),
 "C19": ("Theorems that observers leave the parser state unchanged and are repeatable (Properties/C19.v) + correspondence on call histories interleaving merges and every output method; implementation-only oracles for byte-identical repetition and unchanged Documents().", ""),
}
NOT_YET = "check under construction in this round (see DESIGN.md section 6); will be claimed when its correspondence runs"
m = {"version": 1, "setup_cmd": "./setup.sh",
     "hooks": {"guard": "verif", "enable": "none needed: every property is observed through the public API (harness/) and the CLIs; no source hook exists",
               "baseline_off_cmd": baseline, "source_commits": [], "add_only": True},
     "engines": [
        {"name": "coq-model", "path": "coq/", "serves_properties": ids, "kind_free_text": "hand-written executable Gallina model of bkl + theorems (Coq 8.16.1, stdlib only)"},
        {"name": "ocaml-driver", "path": "driver/", "serves_properties": ids, "kind_free_text": "extracted model + parser/printer of the exchange format"},
        {"name": "go-harness", "path": "harness/", "serves_properties": ids, "kind_free_text": "executes the same cases on the real implementation through its public API; CLIs are built from /repo per run"},
        {"name": "orchestrator", "path": "check", "serves_properties": ids, "kind_free_text": "python3: generators, comparison, shrinking, evidence"}],
     "checks": [], "not_applicable": []}
extra = {}
try:
    extra = json.load(open(os.path.join(V, "tools", "claims_extra.json")))
except Exception:
    pass
CLAIMS.update({k: tuple(v) for k, v in extra.items()})
for i in ids:
    if i in CLAIMS and os.path.exists(os.path.join(V, "vlib", "props", i.lower() + ".py")):
        text, note = CLAIMS[i]
        m["checks"].append({"property_id": i, "quick_cmd": "./check %s --tier quick" % i, "thorough_cmd": "./check %s --tier thorough" % i,
                            "evidence_file": "evidence/%s.json" % i, "replay_cmd_template": "./check %s --replay {path}" % i, "engine": "coq-model",
                            "level_claimed": {"category": "proof", "text": text, "design_ref": "DESIGN.md section 6, " + i},
                            "level_note": NOTE + note, "technique": TECH})
    else:
        m["not_applicable"].append({"property_id": i, "reason": NOT_YET})
json.dump(m, open(os.path.join(V, "MANIFEST.json"), "w"), indent=1)
print(len(m["checks"]), "claimed;", len(m["not_applicable"]), "not yet")
