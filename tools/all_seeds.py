#!/usr/bin/python3
# all_seeds.py — regression over the kept seeded changes: each is applied to /repo, the checks that are recorded as
# catching it are run (quick tier), /repo is restored; evidence files are kept those of clean-tree runs.
# Writes seeded/REGRESSION.json. /repo must be clean and must not be used by anything else meanwhile.
import glob, json, os, shutil, subprocess, sys, time
V = os.path.dirname(os.path.dirname(os.path.abspath(__file__)))
env = dict(os.environ, GOFLAGS="-mod=mod", GOPROXY="off")
def sh(cmd, cwd=None):
    p = subprocess.run(cmd, shell=True, cwd=cwd, env=env, stdout=subprocess.PIPE, stderr=subprocess.STDOUT, executable="/bin/bash")
    return p.returncode, p.stdout.decode("utf-8", "replace")
assert sh("git diff --quiet", "/repo")[0] == 0, "/repo dirty"
only = sys.argv[1:]
keep = os.path.join(V, ".work", "evidence_keep_all")
shutil.rmtree(keep, ignore_errors=True)
shutil.copytree(os.path.join(V, "evidence"), keep)
res = {}
try:
    for d in sorted(glob.glob(os.path.join(V, "seeded", "S*"))):
        name = os.path.basename(d)
        if only and not any(name.startswith(o) for o in only):
            continue
        meta = json.load(open(os.path.join(d, "meta.json")))
        checks = meta.get("caught_by") or []
        if not checks:
            res[name] = {"status": "not expected to be caught (see meta.json)"}
            continue
        rc, out = sh("git apply %s" % os.path.join(d, "patch.diff"), "/repo")
        if rc != 0:
            res[name] = {"status": "patch no longer applies to the repaired tree", "detail": out[-200:]}
            sh("git checkout -- .", "/repo")
            continue
        t0 = time.time()
        r = {}
        try:
            for c in checks:
                rc, out = sh("./check %s 2>&1 | grep -E 'VIOLATION|tier=' | head -3" % c, V)
                r[c] = "VIOLATION" in out
        finally:
            sh("git checkout -- .", "/repo")
        res[name] = {"status": "caught" if all(r.values()) else ("partly" if any(r.values()) else "MISSED"), "checks": r, "wall_s": round(time.time() - t0)}
        print(name, res[name], flush=True)
finally:
    sh("git checkout -- .", "/repo")
    shutil.rmtree(os.path.join(V, "evidence"), ignore_errors=True)
    shutil.copytree(keep, os.path.join(V, "evidence"))
    shutil.rmtree(keep, ignore_errors=True)
head = subprocess.run(["git", "-C", "/repo", "log", "-1", "--format=%h"], stdout=subprocess.PIPE).stdout.decode().strip()
if not only:
    json.dump({"repo_commit": head, "results": res}, open(os.path.join(V, "seeded", "REGRESSION.json"), "w"), indent=1, sort_keys=True)
print("summary:", {k: sum(1 for v in res.values() if v["status"] == k) for k in sorted({v["status"] for v in res.values()})})
