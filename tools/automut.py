#!/usr/bin/python3
# automut.py [N] [seed] — syntactic mutants of /repo's sources in scratch worktrees (never /repo itself): each mutant that
# still builds and still passes the repository's own tests is run through the checks that cover its file
# (VERIF_REPO=<worktree>); survivors of both are listed for triage in seeded/AUTOMUT.json. A measuring aid, not a check.
import json, os, random, re, subprocess, sys, shutil, time
from concurrent.futures import ThreadPoolExecutor
V = os.path.dirname(os.path.dirname(os.path.abspath(__file__)))
N = int(sys.argv[1]) if len(sys.argv) > 1 else 60
SEED = int(sys.argv[2]) if len(sys.argv) > 2 else 1
WORKERS = 4
env = dict(os.environ, GOFLAGS="-mod=mod", GOPROXY="off")
FILES = {
 "merge.go": "C01 C02 C10", "match.go": "C01 C02 C10", "process1.go": "C10 C08 C09 C06", "get.go": "C10 C13",
 "process2.go": "C12 C13 C14 C06 C07 C10", "repeat.go": "C12", "evalcontext.go": "C12 C13 C09", "output.go": "C11 C19",
 "validate.go": "C07 C06", "finalize.go": "C06 C07 C09", "normalize.go": "C04 C14", "yaml.go": "C04 C05", "toml.go": "C05 C04",
 "json.go": "C05 C04 C14", "parser.go": "C02 C19 C18 C05", "document.go": "C02 C19", "file.go": "C03 C08 C18", "filepath.go": "C03 C20",
 "util.go": "C01 C10 C11 C14 C02", "cmd/bkld/diff.go": "C15 C16", "cmd/bkli/intersect.go": "C16", "cmd/bklr/required.go": "C17",
 "wrapper/wrapper.go": "C20",
}
OPS = [(r"==", "!="), (r"!=", "=="), (r"&&", "||"), (r"\|\|", "&&"), (r"<=", "<"), (r">=", ">"), (r"(?<![<\-=!>])<(?![=<\-])", "<="),
       (r"(?<![>\-=])>(?![=>])", ">="), (r"\btrue\b", "false"), (r"\bfalse\b", "true"), (r"!found\b", "found"), (r"(?<![!\w])found\b(?!\s*:?=)", "!found"),
       (r"!ok\b", "ok"), (r"\+ 1\b", "+ 0"), (r"- 1\b", "- 0"), (r"\bcontinue\b", "break")]


def sh(cmd, cwd=None, timeout=1800):
    p = subprocess.run(cmd, shell=True, cwd=cwd, env=env, stdout=subprocess.PIPE, stderr=subprocess.STDOUT, executable="/bin/bash", timeout=timeout)
    return p.returncode, p.stdout.decode("utf-8", "replace")


DELETE = os.environ.get("AUTOMUT_DELETE") == "1"      # statement deletion instead of token replacement


def sites():
    out = []
    if DELETE:
        for f in FILES:
            src = open(os.path.join("/repo", f)).read().split("\n")
            for ln, line in enumerate(src):
                t = line.strip()
                if re.match(r"^(delete\(|[A-Za-z_][\w\.\[\]\"]*\s*(=|\+=)\s|[a-z][\w\.]*\(.*\)$|continue$|break$)", t) and not t.startswith(("return", "func", "if ", "for ", "case", "defer", "go ")) and ":=" not in t:
                    out.append((f, ln, 0, len(line), "", line))
        return out
    for f in FILES:
        src = open(os.path.join("/repo", f)).read().split("\n")
        infunc = False
        for ln, line in enumerate(src):
            t = line.strip()
            if t.startswith("//") or t.startswith("import") or '"' in t and ("Errorf" in t or "log(" in t):
                continue
            for pat, rep in OPS:
                for m in re.finditer(pat, line):
                    # skip matches inside string literals (rough)
                    if line[:m.start()].count('"') % 2 == 1 or line[:m.start()].count('`') % 2 == 1:
                        continue
                    out.append((f, ln, m.start(), m.end(), rep, line))
    return out


def main():
    rnd = random.Random(SEED)
    all_sites = sites()
    rnd.shuffle(all_sites)
    picks = all_sites[:N]
    pool = []
    for i in range(WORKERS):
        wt = "/tmp/automut/w%d" % i
        shutil.rmtree(wt, ignore_errors=True)
        sh("git -C /repo worktree prune")
        rc, out = sh("git -C /repo worktree add --detach %s HEAD" % wt)
        assert rc == 0, out
        pool.append(wt)
    results = []

    def one(job):
        idx, (f, ln, a, b, rep, line) = job
        wt = pool[idx % WORKERS]
        return idx, f, ln, line, rep, a, b, wt

    # run sequentially per worker: partition
    parts = [[] for _ in range(WORKERS)]
    for idx, s in enumerate(picks):
        parts[idx % WORKERS].append((idx, s))

    def worker(w):
        wt = pool[w]
        res = []
        for idx, (f, ln, a, b, rep, line) in parts[w]:
            sh("git checkout -- .", wt)
            p = os.path.join(wt, f)
            src = open(p).read().split("\n")
            src[ln] = src[ln][:a] + rep + src[ln][b:]
            open(p, "w").write("\n".join(src))
            rec = {"file": f, "line": ln + 1, "from": line.strip(), "to": src[ln].strip()}
            rc, out = sh("go build ./... 2>&1 | tail -3", wt)
            if rc != 0 or "error" in out.lower() or out.strip():
                rc2, _ = sh("go build ./...", wt)
                if rc2 != 0:
                    rec["status"] = "does not build"
                    res.append(rec)
                    continue
            rc, out = sh("go test -vet=off -count=1 ./... 2>&1 | grep -v 'no test files' | tail -2", wt, timeout=1500)
            if "FAIL" in out or "panic" in out or "ok" not in out:
                rec["status"] = "killed by the repository's tests"
                res.append(rec)
                continue
            caught = []
            for c in FILES[f].split():
                rc, out = sh("VERIF_REPO=%s ./check %s 2>&1 | grep -E 'VIOLATION|tier=' | head -3" % (wt, c), V, timeout=3000)
                if "VIOLATION" in out:
                    caught.append(c)
                    break
            rec["status"] = "caught" if caught else "SURVIVED"
            rec["caught_by"] = caught
            rec["checks_run"] = FILES[f].split()
            res.append(rec)
            print(idx, rec["status"], f, ln + 1, rec["to"][:80], caught, flush=True)
        return res
    keep = os.path.join(V, ".work", "evidence_keep_automut")
    shutil.rmtree(keep, ignore_errors=True)
    shutil.copytree(os.path.join(V, "evidence"), keep)
    try:
        with ThreadPoolExecutor(max_workers=WORKERS) as ex:
            for r in ex.map(worker, range(WORKERS)):
                results.extend(r)
    finally:
        for wt in pool:
            sh("git -C /repo worktree remove --force %s" % wt)
        sh("git -C /repo worktree prune")
        shutil.rmtree("/tmp/automut", ignore_errors=True)
        shutil.rmtree(os.path.join(V, "evidence"), ignore_errors=True)
        shutil.copytree(keep, os.path.join(V, "evidence"))
        shutil.rmtree(keep, ignore_errors=True)
    summ = {}
    for r in results:
        summ[r["status"]] = summ.get(r["status"], 0) + 1
    out = {"seed": SEED, "mutants": len(results), "summary": summ, "survivors": [r for r in results if r["status"] == "SURVIVED"],
           "all": results}
    json.dump(out, open(os.path.join(V, "seeded", "AUTOMUT-%d.json" % SEED), "w"), indent=1)
    print("summary:", summ)


main()
