#!/usr/bin/python3
# records the hashes of /repo's non-test Go sources: the tree the checks were last tuned on. When the current tree
# differs, the quick tier spends four times the effort (vlib/core.py: Ctx.scale). Re-run after every fix: commit in /repo.
import json, os, subprocess, sys
sys.path.insert(0, os.path.dirname(os.path.dirname(os.path.abspath(__file__))))
from vlib import core
head = subprocess.run(["git", "-C", core.REPO, "log", "-1", "--format=%h"], stdout=subprocess.PIPE).stdout.decode().strip()
json.dump({"commit": head, "files": core.source_hashes()}, open(os.path.join(core.VERIF, "tools", "source_ref.json"), "w"), indent=1, sort_keys=True)
print("recorded", head)
