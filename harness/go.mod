module verifh

go 1.24.0

require (
	github.com/gopatchy/bkl v0.0.0
	github.com/pelletier/go-toml/v2 v2.2.3
	gopkg.in/yaml.v3 v3.0.1
)

require golang.org/x/exp v0.0.0-20250210185358-939b2ce775ac // indirect

replace github.com/gopatchy/bkl => /repo
