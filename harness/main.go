// verifh — executes correspondence cases against the real bkl implementation (public API only).
// Reads a stream of values on stdin (same exchange format as the model driver), one case each,
// prints one result value per case, terminated by '\n'.
package main

import (
	"bufio"
	"bytes"
	"encoding/json"
	"fmt"
	"io"
	"os"
	"sort"
	"strconv"

	"github.com/gopatchy/bkl"
	"github.com/pelletier/go-toml/v2"
	"gopkg.in/yaml.v3"
)

// ---- exchange format ----

type parser struct {
	b []byte
	p int
}

func (ps *parser) until(stop byte) string {
	s := ps.p
	for ps.b[ps.p] != stop {
		ps.p++
	}
	r := string(ps.b[s:ps.p])
	ps.p++
	return r
}

func (ps *parser) bytes() string {
	n, _ := strconv.Atoi(ps.until(':'))
	r := string(ps.b[ps.p : ps.p+n])
	ps.p += n
	return r
}

func (ps *parser) parse() any {
	c := ps.b[ps.p]
	ps.p++
	switch c {
	case 'N':
		return nil
	case 'T':
		return true
	case 'F':
		return false
	case 'I':
		n, err := strconv.ParseInt(ps.until(';'), 10, 64)
		if err != nil {
			panic(err)
		}
		return int(n)
	case 'D':
		f, err := strconv.ParseFloat(ps.bytes(), 64)
		if err != nil {
			panic(err)
		}
		return f
	case 'S':
		return ps.bytes()
	case 'L':
		n, _ := strconv.Atoi(ps.until(';'))
		l := make([]any, 0, n)
		for i := 0; i < n; i++ {
			l = append(l, ps.parse())
		}
		return l
	case 'M':
		n, _ := strconv.Atoi(ps.until(';'))
		m := make(map[string]any, n)
		for i := 0; i < n; i++ {
			ps.p++ // 'S'
			k := ps.bytes()
			m[k] = ps.parse()
		}
		return m
	}
	panic(fmt.Sprintf("bad tag %c at %d", c, ps.p))
}

func (ps *parser) skip() {
	for ps.p < len(ps.b) && (ps.b[ps.p] == ' ' || ps.b[ps.p] == '\n' || ps.b[ps.p] == '\t' || ps.b[ps.p] == '\r') {
		ps.p++
	}
}

func emit(w *bytes.Buffer, v any) {
	switch x := v.(type) {
	case nil:
		w.WriteByte('N')
	case bool:
		if x {
			w.WriteByte('T')
		} else {
			w.WriteByte('F')
		}
	case int:
		fmt.Fprintf(w, "I%d;", x)
	case int64:
		fmt.Fprintf(w, "K%d;", x)
	case uint64:
		fmt.Fprintf(w, "U%d;", x)
	case float64:
		s := strconv.FormatFloat(x, 'g', -1, 64)
		fmt.Fprintf(w, "D%d:%s", len(s), s)
	case float32:
		s := strconv.FormatFloat(float64(x), 'g', -1, 32)
		fmt.Fprintf(w, "E%d:%s", len(s), s)
	case json.Number:
		fmt.Fprintf(w, "J%d:%s", len(x), string(x))
	case string:
		fmt.Fprintf(w, "S%d:%s", len(x), x)
	case []byte:
		// bytes returned by the library are kept as returned until the case is finished, so that a
		// result that is overwritten by a later call shows
		fmt.Fprintf(w, "S%d:%s", len(x), x)
	case []any:
		fmt.Fprintf(w, "L%d;", len(x))
		for _, e := range x {
			emit(w, e)
		}
	case map[string]any:
		keys := make([]string, 0, len(x))
		for k := range x {
			keys = append(keys, k)
		}
		sort.Strings(keys)
		fmt.Fprintf(w, "M%d;", len(x))
		for _, k := range keys {
			fmt.Fprintf(w, "S%d:%s", len(k), k)
			emit(w, x[k])
		}
	default:
		s := fmt.Sprintf("%T", v)
		fmt.Fprintf(w, "X%d:%s", len(s), s)
	}
}

func ok(v any) any { return []any{"ok", v} }
func errv(err error) any {
	return []any{"err", errClass(err)}
}

func errClass(err error) string {
	switch {
	case errIs(err, bkl.ErrRequiredField):
		return "required"
	case errIs(err, bkl.ErrInvalidDirective):
		return "invaliddirective"
	case errIs(err, bkl.ErrUselessOverride):
		return "useless"
	case errIs(err, bkl.ErrNoMatchFound):
		return "nomatch"
	case errIs(err, bkl.ErrMultiMatch):
		return "multimatch"
	case errIs(err, bkl.ErrInvalidType):
		return "invalidtype"
	case errIs(err, bkl.ErrExtraKeys):
		return "extrakeys"
	case errIs(err, bkl.ErrCircularRef):
		return "circular"
	case errIs(err, bkl.ErrRefNotFound):
		return "refnotfound"
	case errIs(err, bkl.ErrVariableNotFound):
		return "varnotfound"
	case errIs(err, bkl.ErrInvalidRepeat):
		return "invalidrepeat"
	case errIs(err, bkl.ErrInvalidArguments):
		return "invalidargs"
	case errIs(err, bkl.ErrUnknownFormat):
		return "unknownformat"
	case errIs(err, bkl.ErrUnmarshal):
		return "unmarshal"
	case errIs(err, bkl.ErrMissingMatch):
		return "missingmatch"
	}
	return "other"
}

func errIs(err, target error) bool {
	for err != nil {
		if err == target {
			return true
		}
		switch x := err.(type) {
		case interface{ Unwrap() error }:
			err = x.Unwrap()
		case interface{ Unwrap() []error }:
			for _, e := range x.Unwrap() {
				if errIs(e, target) {
					return true
				}
			}
			return false
		default:
			return false
		}
	}
	return false
}

func copyAny(v any) any {
	switch x := v.(type) {
	case map[string]any:
		r := make(map[string]any, len(x))
		for k, e := range x {
			r[k] = copyAny(e)
		}
		return r
	case []any:
		r := make([]any, len(x))
		for i, e := range x {
			r[i] = copyAny(e)
		}
		return r
	}
	return v
}

// ---- operations ----

func setEnv(tables any) {
	cov := os.Getenv("GOCOVERDIR") // measurement aid (VERIF_COVERDIR): kept across the reset
	os.Clearenv()
	if cov != "" {
		os.Setenv("GOCOVERDIR", cov)
	}
	tm, _ := tables.(map[string]any)
	env, _ := tm["env"].(map[string]any)
	for k, v := range env {
		s, _ := v.(string)
		os.Setenv(k, s)
	}
}

func history(args []any) any {
	setEnv(args[0])
	return historyNoEnv(args[1].([]any))
}

func historyNoEnv(ops []any) any {
	p, err := bkl.New()
	if err != nil {
		return []any{"newfailed"}
	}
	docs := []*bkl.Document{}
	outs := []any{}
	failed := false
	for _, o := range ops {
		op := o.([]any)
		if failed {
			outs = append(outs, []any{"skipped"})
			continue
		}
		switch op[0].(string) {
		case "new":
			d := bkl.NewDocumentWithData(op[1].(string), copyAny(op[3]))
			for _, pi := range op[2].([]any) {
				d.AddParents(docs[pi.(int)])
			}
			docs = append(docs, d)
			outs = append(outs, []any{"new", len(docs) - 1})
		case "merge":
			err := p.MergeDocument(docs[op[1].(int)])
			if err != nil {
				failed = true
				outs = append(outs, []any{"merge", errv(err)})
			} else {
				outs = append(outs, []any{"merge", ok(nil)})
			}
		case "mergefile", "mergefileonly":
			// MergeFileLayers (the file and everything it inherits from) / MergeFile (the one file)
			var err error
			if op[0].(string) == "mergefile" {
				err = p.MergeFileLayers(op[1].(string))
			} else {
				err = p.MergeFile(op[1].(string))
			}
			if err != nil {
				failed = true
				outs = append(outs, []any{"merge", errv(err)})
			} else {
				outs = append(outs, []any{"merge", ok(nil)})
			}
		case "docs":
			l := []any{}
			for _, d := range p.Documents() {
				l = append(l, copyAny(d.Data))
			}
			outs = append(outs, []any{"docs", l})
		case "out":
			r, err := p.OutputDocuments()
			if err != nil {
				outs = append(outs, []any{"out", errv(err)})
			} else {
				outs = append(outs, []any{"out", ok(copyAny(r))})
			}
		case "outfmt":
			r, err := p.Output(op[1].(string))
			if err != nil {
				outs = append(outs, []any{"outfmt", errv(err)})
			} else {
				outs = append(outs, []any{"outfmt", ok(r)})
			}
		case "outw":
			buf := &bytes.Buffer{}
			err := p.OutputToWriter(buf, op[1].(string))
			if err != nil {
				outs = append(outs, []any{"outfmt", errv(err)})
			} else {
				outs = append(outs, []any{"outfmt", ok(buf.String())})
			}
		default:
			outs = append(outs, []any{"badop"})
		}
	}
	return outs
}

// concurrent runs several histories at once, each from `reps` goroutines (fresh Parser each), and
// returns, per history, the list of results; the environment is set once, before the goroutines start.
func concurrent(args []any) any {
	setEnv(args[0])
	hs := args[1].([]any)
	reps := args[2].(int)
	res := make([][]any, len(hs))
	done := make(chan int, len(hs)*reps)
	for h := range hs {
		res[h] = make([]any, reps)
		for i := 0; i < reps; i++ {
			go func(h, i int) {
				defer func() {
					if e := recover(); e != nil {
						res[h][i] = []any{"panic", fmt.Sprintf("%v", e)}
					}
					done <- i
				}()
				res[h][i] = historyNoEnv(copyAny(hs[h]).([]any))
			}(h, i)
		}
	}
	for i := 0; i < len(hs)*reps; i++ {
		<-done
	}
	out := make([]any, len(hs))
	for h := range hs {
		out[h] = res[h]
	}
	return out
}

// loadFiles merges the given files (with their layers) and returns the typed dump of Documents().
func loadFiles(dir string, paths []any) any {
	cwd, _ := os.Getwd()
	defer os.Chdir(cwd)
	if err := os.Chdir(dir); err != nil {
		return []any{"err", "chdir"}
	}
	p, err := bkl.New()
	if err != nil {
		return []any{"err", "new"}
	}
	for _, x := range paths {
		if err := p.MergeFileLayers(x.(string)); err != nil {
			return errv(err)
		}
	}
	l := []any{}
	for _, d := range p.Documents() {
		l = append(l, d.Data)
	}
	return ok(l)
}

// setRoot exercises nested SetRoot calls of the library in a scratch directory.
func setRoot(dir string) any {
	os.RemoveAll(dir)
	must := func(err error) {
		if err != nil {
			panic(err)
		}
	}
	must(os.MkdirAll(dir+"/r/a/b", 0o755))
	must(os.MkdirAll(dir+"/out", 0o755))
	must(os.WriteFile(dir+"/out/decoy.yaml", []byte("secret: S1\n"), 0o644))
	must(os.WriteFile(dir+"/r/top.yaml", []byte("top: 1\n"), 0o644))
	must(os.WriteFile(dir+"/r/a/mid.yaml", []byte("mid: 1\n"), 0o644))
	must(os.WriteFile(dir+"/r/a/b/in.yaml", []byte("$parent: ../mid\nx: 1\n"), 0o644))
	must(os.WriteFile(dir+"/r/a/b/up2.yaml", []byte("$parent: ../../top\nx: 1\n"), 0o644))
	must(os.WriteFile(dir+"/r/a/b/esc.yaml", []byte("$parent: ../../../out/decoy\nx: 1\n"), 0o644))
	defer os.RemoveAll(dir)
	cwd, _ := os.Getwd()
	defer os.Chdir(cwd)
	must(os.Chdir(dir))
	res := []any{}
	try := func(roots []string, file string) string {
		p, err := bkl.New()
		must(err)
		for _, r := range roots {
			if err := p.SetRoot(r); err != nil {
				return "setroot-err"
			}
		}
		if err := p.MergeFileLayers(file); err != nil {
			return "err"
		}
		out, err := p.Output("json")
		if err != nil {
			return "err"
		}
		return string(out)
	}
	check := func(name string, got string, wantOK bool) {
		ok := got != "err" && got != "setroot-err"
		if ok != wantOK || (ok && bytes.Contains([]byte(got), []byte("S1"))) {
			res = append(res, name+": "+got)
		}
	}
	check("r then r/a: parent inside", try([]string{"r", "r/a"}, "r/a/b/in.yaml"), true)
	check("r then r/a: parent above the nested root", try([]string{"r", "r/a"}, "r/a/b/up2.yaml"), false)
	check("r: parent two up, still inside", try([]string{"r"}, "r/a/b/up2.yaml"), true)
	check("r then r/a: escape", try([]string{"r", "r/a"}, "r/a/b/esc.yaml"), false)
	check("r: escape", try([]string{"r"}, "r/a/b/esc.yaml"), false)
	check("r/a then r (ancestor of current root)", try([]string{"r/a", "r"}, "r/a/b/in.yaml"), false)
	if len(res) > 0 {
		return []any{"violation", res}
	}
	return []any{"ok", 6}
}

// setRoots: nested SetRoot calls (each relative to the process directory dir), then MergeFileLayers(file) and Output
func setRoots(dir string, roots []any, file string) any {
	cwd, _ := os.Getwd()
	defer os.Chdir(cwd)
	if err := os.Chdir(dir); err != nil {
		return []any{"err", "chdir"}
	}
	p, err := bkl.New()
	if err != nil {
		return []any{"err", "new"}
	}
	for _, r := range roots {
		if err := p.SetRoot(r.(string)); err != nil {
			return []any{"setroot-err"}
		}
	}
	if err := p.MergeFileLayers(file); err != nil {
		return errv(err)
	}
	out, err := p.Output("json")
	if err != nil {
		return errv(err)
	}
	return ok(string(out))
}

// files read by the same parser BEFORE the roots are set must not widen what is readable afterwards
func setRootsAfterReads(dir string, pre []any, roots []any, file string) any {
	cwd, _ := os.Getwd()
	defer os.Chdir(cwd)
	if err := os.Chdir(dir); err != nil {
		return []any{"err", "chdir"}
	}
	p, err := bkl.New()
	if err != nil {
		return []any{"err", "new"}
	}
	for _, f := range pre {
		if err := p.MergeFileLayers(f.(string)); err != nil {
			return []any{"pre-err"}
		}
	}
	for _, r := range roots {
		if err := p.SetRoot(r.(string)); err != nil {
			return []any{"setroot-err"}
		}
	}
	if err := p.MergeFileLayers(file); err != nil {
		return []any{"merge-err"}
	}
	return []any{"merge-ok"}
}

func yamlParse(args []any) any {
	r := map[string]any{}
	for _, a := range args[0].([]any) {
		s := a.(string)
		var v any
		err := yaml.Unmarshal([]byte(s), &v)
		if err != nil {
			r[s] = []any{"err", "yaml"}
		} else {
			r[s] = ok(v)
		}
	}
	return r
}

// direct library encodings, with the settings the bkl documentation promises
func encode(f string, v any) ([]byte, error) {
	switch f {
	case "json", "jsonl":
		buf := &bytes.Buffer{}
		e := json.NewEncoder(buf)
		e.SetEscapeHTML(false)
		err := e.Encode(v)
		return buf.Bytes(), err
	case "json-pretty":
		buf := &bytes.Buffer{}
		e := json.NewEncoder(buf)
		e.SetEscapeHTML(false)
		e.SetIndent("", "  ")
		err := e.Encode(v)
		return buf.Bytes(), err
	case "yaml", "yml":
		if v == nil {
			return []byte{}, nil
		}
		buf := &bytes.Buffer{}
		e := yaml.NewEncoder(buf)
		e.SetIndent(2)
		err := e.Encode(v)
		return buf.Bytes(), err
	case "toml":
		if v == nil {
			return []byte{}, nil
		}
		buf := &bytes.Buffer{}
		err := toml.NewEncoder(buf).Encode(v)
		return buf.Bytes(), err
	}
	return nil, fmt.Errorf("unknown format")
}

func encAll(args []any) any {
	r := []any{}
	for _, a := range args[0].([]any) {
		pair := a.([]any)
		f := pair[0].(string)
		func() {
			defer func() {
				if e := recover(); e != nil {
					r = append(r, []any{f, pair[1], []any{"err", "panic"}})
				}
			}()
			b, err := encode(f, pair[1])
			if err != nil {
				r = append(r, []any{f, pair[1], []any{"err", "marshal"}})
			} else {
				r = append(r, []any{f, pair[1], ok(string(b))})
			}
		}()
	}
	return r
}

// frame exercises bkl's stream framing through the public Format API: the stream bkl writes for the documents, the
// per-document encodings by the libraries called directly, and what bkl reads back from its own stream.
func frame(args []any) any {
	f := args[0].(string)
	docs := args[1].([]any)
	fm, err := bkl.GetFormat(f)
	if err != nil {
		return []any{"err", "format"}
	}
	stream, err := fm.MarshalStream(docs)
	if err != nil {
		return []any{"err", "marshal"}
	}
	parts := []any{}
	for _, d := range docs {
		b, err := encode(f, d)
		if err != nil {
			return []any{"err", "encode"}
		}
		parts = append(parts, string(b))
	}
	back, err := fm.UnmarshalStream(stream)
	if err != nil {
		return []any{"ok", map[string]any{"stream": string(stream), "parts": parts, "read": []any{"err", "unmarshal"}}}
	}
	return []any{"ok", map[string]any{"stream": string(stream), "parts": parts, "read": ok(back)}}
}

// unframe: what bkl reads from a given text in a format (number of documents and their values)
func unframe(args []any) any {
	fm, err := bkl.GetFormat(args[0].(string))
	if err != nil {
		return []any{"err", "format"}
	}
	back, err := fm.UnmarshalStream([]byte(args[1].(string)))
	if err != nil {
		return []any{"err", "unmarshal"}
	}
	return ok(back)
}

func runCase(c any) (res any) {
	defer func() {
		if e := recover(); e != nil {
			res = []any{"panic", fmt.Sprintf("%v", e)}
		}
	}()
	l := c.([]any)
	switch l[0].(string) {
	case "history":
		return history(l[1:])
	case "concurrent":
		return concurrent(l[1:])
	case "loadfiles":
		return loadFiles(l[1].(string), l[2].([]any))
	case "setroot":
		return setRoot(l[1].(string))
	case "setroots":
		return setRoots(l[1].(string), l[2].([]any), l[3].(string))
	case "setroots-after-reads":
		return setRootsAfterReads(l[1].(string), l[2].([]any), l[3].([]any), l[4].(string))
	case "yaml":
		return yamlParse(l[1:])
	case "enc":
		return encAll(l[1:])
	case "frame":
		return frame(l[1:])
	case "unframe":
		return unframe(l[1:])
	}
	return []any{"badcase"}
}

func main() {
	in, err := io.ReadAll(bufio.NewReader(os.Stdin))
	if err != nil {
		panic(err)
	}
	ps := &parser{b: in}
	w := bufio.NewWriter(os.Stdout)
	defer w.Flush()
	for {
		ps.skip()
		if ps.p >= len(ps.b) {
			break
		}
		c := ps.parse()
		buf := &bytes.Buffer{}
		emit(buf, runCase(c))
		buf.WriteByte('\n')
		w.Write(buf.Bytes())
		w.Flush()
	}
}
