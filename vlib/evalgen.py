# evalgen.py — generators of documents that exercise evaluation: plain/escaped data (C06), stray
# directives and $required (C07), references (C10), $output (C11), $repeat (C12),
# interpolation/$env (C13), $encode/$decode (C14).
from . import dgen, gen
from .core import F

# ---------------------------------------------------------------- C06
PLAIN_STRS = ["$FOO", "${X}", "$(cmd)", "$", "a$b", "$1", "$_x", "$ x", "{a}", "a.b", "x:y", "'q'", "\"dq\"", "$É", "$A:b",
              "s", "", "true", "1", "null", "a b", "é$", "$.", "$-", "$[0]", "$\\", "$:"]
DIRECTIVE_STRS = ["$merge:x", "$replace:a.b", "$\"{a}\"", "$\"x\"", "$required", "$delete", "$match", "$output", "$env:HOME", "$repeat",
                  "$value", "$invert", "$encode", "$decode", "$parent", "$replace", "$merge", "$$", "$$x", "$$$", "a$$b", "$é", "$repeat:x",
                  "$\"", "$\"{", "$x", "$$required", "$$$x", "$$$$x"]
PLAIN_KEYS = ["a", "b", "c", "x", "y", "a.b", "$FOO", "${X}", "k:v", "{a}", "$", "$1"]


def plain_tree(rng, depth=3):
    prof = {"keys": PLAIN_KEYS, "strs": PLAIN_STRS, "width": 3}
    return gen.tree(rng, depth, prof, root_map=rng.chance(3, 4))


def any_tree(rng, depth=3):
    prof = {"keys": PLAIN_KEYS + DIRECTIVE_STRS[:22], "strs": PLAIN_STRS + DIRECTIVE_STRS, "width": 3}
    return gen.tree(rng, depth, prof, root_map=rng.chance(3, 4))


def escape_str(s):
    return s.replace("$", "$$")


def escape(v):
    if isinstance(v, str) and not isinstance(v, F):
        return escape_str(v)
    if isinstance(v, dict):
        return {escape_str(k): escape(x) for k, x in v.items()}
    if isinstance(v, list):
        return [escape(x) for x in v]
    return v


def is_plain_str(s):
    if "$$" in s:
        return False
    if len(s) >= 2 and s[0] == "$" and (s[1].islower() or s[1] == '"'):
        return False
    return True


# ---------------------------------------------------------------- C07
STRAY = ["$required", "$delete", "$match", "$replace", "$value", "$invert", "$output", "$encode", "$decode", "$parent", "$repeat",
         "$bogus", "$x", "$merge", "$Merge", "$REQUIRED", "$é", "$É", "$env", "$1x"]


def inject(rng, v, pool, p_num, p_den, depth=0):
    """put directive-shaped strings at random positions (values, list entries, keys)"""
    if isinstance(v, dict):
        r = {}
        for k, x in v.items():
            if rng.chance(p_num, p_den * 3):
                k = rng.pick(pool)
            if rng.chance(p_num, p_den):
                r[k] = rng.pick(pool) if rng.chance(2, 3) else {rng.pick(pool): rng.pick([1, True, "s", None, [1], {"a": 1}])}
            else:
                r[k] = inject(rng, x, pool, p_num, p_den, depth + 1)
        return r
    if isinstance(v, list):
        return [(rng.pick(pool) if rng.chance(p_num, p_den) else inject(rng, x, pool, p_num, p_den, depth + 1)) for x in v]
    return v


def c07_chain(rng):
    n = 1 + rng.below(3)
    base = dgen.base_tree(rng)
    base = inject(rng, base, ["$required"] * 3 + STRAY, 1, 6)
    k = rng.below(11)
    if k == 0:
        base[rng.pick(["h", "t"])] = {"$output": False, "inner": rng.pick(STRAY), "z": 1}
    elif k == 8:
        # a chain of encodings whose first stage only reshapes (values, flatten, tolist, prefix) and whose later stage
        # folds the leaves into one string: the subject is validated before ANY stage runs
        first = rng.pick(["values", "values", "flatten", "tolist:=", "prefix:-"])
        rest = rng.pick([["join:,"], ["join"], ["base64"], ["json"], ["sha256"], ["prefix:p-", "join: "], []])
        m = rng.pick(STRAY + ["ok"])
        if first == "values":
            base["e"] = {"$encode": [first] + rest, "a": "x", "b": m} if rng.chance(2, 3) else \
                {"$encode": [first] + rest, ("$mtach" if m in ("$output", "$encode", "$repeat", "$match", "$replace", "$required", "$value", "$decode", "$merge", "$parent") else m): 1, "b": 2}
        elif first == "flatten":
            base["e"] = [{"$encode": [first] + rest}, ["x", m], "y"]
        elif first == "tolist:=":
            base["e"] = {"$encode": [first] + rest, "a": "x", "b": m}
        else:
            base["e"] = [{"$encode": [first] + rest}, "x", m]
    elif k == 9:
        # a single reshaping encoding over a subject with a marker (the marker would survive into the output)
        first = rng.pick(["values", "flatten", "tolist:=", "prefix:-"])
        m = rng.pick(STRAY + ["ok"])
        if first in ("values", "tolist:="):
            base["e"] = {"$encode": first, "a": "x", "b": m}
        else:
            base["e"] = [{"$encode": first}, "x", m]
    elif k == 1:
        base["e"] = {"$encode": rng.pick(["json", "base64", "yaml"]), "v": rng.pick(STRAY + ["ok"]), "w": 1}
    elif k == 2:
        base["e"] = [rng.pick(STRAY + ["ok"]), 1, {"$encode": "join:,"}]
    elif k == 3:
        # hidden material inside an $encode input: still validated before encoding
        base["e"] = {"$encode": rng.pick(["json", "yaml", "base64"]), "listen": ":80",
                     "base": {"$output": False, "token": rng.pick(STRAY + ["ok"])}}
    elif k == 4:
        base["e"] = [{"$encode": rng.pick(["join:,", "json"])}, {"$output": False}, rng.pick(STRAY + ["ok"]), "x"]
    layers = [base]
    cur = base
    for _ in range(n - 1):
        c = dgen.derive(rng, cur)
        if rng.chance(1, 3) and isinstance(c, dict):
            c = inject(rng, c, STRAY, 1, 8)
        layers.append(c)
        try:
            cur = dgen.py_merge(cur, c)
        except Exception:
            pass
    return layers


# ---------------------------------------------------------------- C11
def output_tree(rng, depth=3, mark_p=(1, 3)):
    prof = {"keys": ["a", "b", "c", "d"], "strs": ["s", "t", "u"], "nulls": False, "width": 3}
    t = gen.tree(rng, depth, prof, root_map=True)

    def mark(v, d):
        if isinstance(v, dict):
            r = {k: mark(x, d + 1) for k, x in v.items()}
            if rng.chance(*mark_p):
                r["$output"] = rng.pick([True, True, False, False, "x", 1]) if rng.chance(1, 8) else rng.chance(1, 2)
            return r
        if isinstance(v, list):
            r = [mark(x, d + 1) for x in v]
            if rng.chance(*mark_p):
                m = {"$output": rng.chance(1, 2)}
                if rng.chance(1, 10):
                    m["extra"] = 1
                r.insert(rng.below(len(r) + 1), m)
            return r
        return v
    t = mark(t, 0)
    if rng.chance(1, 6):
        t.pop("$output", None)
    if rng.chance(1, 4):
        # nested selections around hidden material: the same subtree is then part of two outputs
        hidden = rng.pick([[{"$output": False}, "h1", "h2"], ["h1", {"$output": False}], {"$output": False, "h": 1},
                           [[{"$output": False}, 1], 2], {"deep": [{"$output": False}, "h"]}])
        inner = {"$output": True, "name": "inner", "secret": hidden, "keep": rng.pick([1, [1, 2], {"k": "v"}])}
        outer = rng.pick([{"$output": True, "name": "outer", "svc": inner}, [{"$output": True}, inner, "tail"],
                          {"$output": True, "a": {"$output": True, "b": inner}}])
        t[rng.pick(["n1", "n2"])] = outer
    return t


# ---------------------------------------------------------------- C12
def repeat_body(rng, names, depth=2):
    """body using the indices in values, interpolations and keys"""
    def leaf():
        k = rng.below(8)
        if k == 0 and not names:
            return "$repeat"
        if k == 1:
            ref = "$repeat" if not names else "$repeat:" + rng.pick(names)
            return '$"n-{%s}"' % ref
        if k == 2 and names:
            return '$"{$repeat:%s}/{$repeat:%s}"' % (rng.pick(names), rng.pick(names))
        return rng.pick([1, "s", True, F("0.5"), "t"])
    def node(d):
        if d <= 0 or rng.chance(1, 3):
            return leaf()
        if rng.chance(1, 2):
            r = {}
            for _ in range(1 + rng.below(3)):
                key = rng.pick(["a", "b", "c"])
                if rng.chance(1, 5):
                    key = '$"k{%s}"' % ("$repeat" if not names else "$repeat:" + rng.pick(names))
                r[key] = node(d - 1)
            return r
        return [node(d - 1) for _ in range(1 + rng.below(3))]
    return node(depth)


def repeat_count(rng, allow_bad=True):
    k = rng.below(12)
    if k < 8:
        return rng.below(6)
    if k < 9:
        return -1
    if not allow_bad:
        return 2
    return rng.pick(["2", F("1.5"), None, True, [2]])


def repeat_scopes_doc(rng):
    """two scopes at once: a document-level $repeat (integer, or named) around an entry-level $repeat in a list or as a map
    value, with references to the OUTER index in keys that sort before and after the nested entry, and references to the
    inner index inside it: the inner binding must shadow the outer one only inside the nested entry"""
    named = rng.chance(1, 3)
    outer_ref = "$repeat:x" if named else "$repeat"
    tmpl = lambda pre: '$"%s{%s}"' % (pre, outer_ref)
    inner = {"$repeat": rng.pick([1, 2, 3, 0]), "id": "$repeat", "label": '$"i{$repeat}"'}
    if rng.chance(1, 2):
        inner["o"] = tmpl("o") if named else 1      # the outer index is still visible by name inside the nested entry
    d = {"a_first": rng.pick([outer_ref, tmpl("a")]), "z_last": rng.pick([outer_ref, tmpl("z")])}
    if rng.chance(1, 6):
        d[outer_ref if not named else "$repeat:x"] = "key-is-the-index"      # a key that evaluates to a number: refused
    if rng.chance(1, 4):
        inner = {"$repeat": 2, "$value": None}                                # a nested body that evaluates to null: contributes nothing
    where = rng.below(3)
    if where == 0:
        d["m_list"] = [0, inner, rng.pick([outer_ref, 9])]
    elif where == 1:
        d['$"m{$repeat}"' if not named else "m_map"] = inner
    else:
        d["m_list"] = [inner]
        d["n_map"] = {"k": dict(inner), "after": outer_ref}
    d["$repeat"] = {"x": rng.pick([1, 2, 3])} if named else rng.pick([1, 2, 3])
    return d


def repeat_doc(rng):
    k = rng.below(11)
    if k == 10:
        return repeat_scopes_doc(rng)
    if k < 3:      # document level, integer
        d = repeat_body(rng, [], 2)
        if not isinstance(d, dict):
            d = {"v": d}
        d["$repeat"] = repeat_count(rng)
        return d
    if k < 5:      # document level, named counts
        names = rng.shuffle(["x", "y", "z"])[: 1 + rng.below(3)]
        d = repeat_body(rng, names, 2)
        if not isinstance(d, dict):
            d = {"v": d}
        d["$repeat"] = {n: (rng.below(4) if rng.chance(9, 10) else rng.pick(["2", None, F("1.5")])) for n in names}
        return d
    if k < 6:      # list-rooted document
        return [repeat_body(rng, [], 1), {"$repeat": repeat_count(rng)}]
    # nested in lists / maps
    d = {"keep": 1}
    if rng.chance(1, 2):
        ent = repeat_body(rng, [], 1)
        if not isinstance(ent, dict):
            ent = {"v": ent}
        ent["$repeat"] = repeat_count(rng)
        d["list"] = [0, ent, 9]
    if rng.chance(1, 2):
        ent = repeat_body(rng, [], 1)
        if not isinstance(ent, dict):
            ent = {"v": ent}
        ent["$repeat"] = repeat_count(rng)
        d[rng.pick(['$"item{$repeat}"', "fixed"])] = ent
    return d


# ---------------------------------------------------------------- C13
LITS = ["", "a", " ", "-", "é", "x:y", "}", "::", "http://h/", "%", "ü}", "a b", ".", "#", "'", "[", "{", "\\"]
ENV_VALUES = ["v", "", "1", "true", "null", "a b", "é", "x:y", "{a}", "1.5", "-", "~", "[1]", "{}", "-Dfoo=bar", "dGVzdA==", "a=b=c", "=", "k=v",
              "$required", "$env:V1", "a$$b",
              "$FOO", "$\"{a}\"", "$x"]
ENV_SAFE = [v for v in ENV_VALUES if "$" not in v]


def interp_doc(rng, safe_env=True):
    """a document with scalar leaves, an environment, and templates referring to them"""
    vals = {"a": rng.pick([1, "s", True, F("0.5"), "t u", -3]), "b": {"c": rng.pick([2, "x", False]), "d.e": 5},
            "n": None, "m": {"k": 1}, "l": [1, "s"]}
    envpool = ENV_SAFE if safe_env else ENV_VALUES
    env = {"V%d" % i: rng.pick(envpool) for i in range(1 + rng.below(3))}
    refs = ["a", "b.c", "$env:V0"] + ["$env:" + k for k in env] + ["m", "l", "b"]
    bad = ["nope", "b.zz", "$env:UNSET_Q", "a.b", "", "n"]
    doc = dict(vals)
    for i in range(1 + rng.below(4)):
        nseg = rng.below(5)
        s = rng.pick(LITS)
        for _ in range(nseg):
            r = rng.pick(refs) if rng.chance(7, 8) else rng.pick(bad)
            s += "{" + r + "}" + rng.pick(LITS)
        doc["t%d" % i] = '$"' + s + '"'
    k = rng.below(6)
    if k == 0:
        doc["e1"] = "$env:" + rng.pick(sorted(env))
    elif k == 1:
        doc["$env:" + rng.pick(sorted(env))] = "as-key"
    elif k == 2:
        doc["e2"] = "$env:UNSET_Z"
    elif k == 3:
        doc["chain"] = '$"<{t0}>"'
    elif k == 4:
        doc["lst"] = ["$env:" + rng.pick(sorted(env)), '$"{a}{a}"']
    return doc, env


# ---------------------------------------------------------------- C14
TRANSFORMS = ["base64", "sha256", "json", "json-pretty", "yaml", "toml", "join", "join:,", "join:, ", "prefix:--", "prefix:", "flatten",
              "tolist:=", "tolist::", "values", "flags", "jsonl", "yml"]
BAD_TRANSFORMS = ["base64:x", "join:a:b", "prefix", "tolist", "values:x", "bogus", "sha256:1", "flatten:1", "", "json:x", 5, None, {"a": 1}]


def encode_subject(rng):
    if rng.chance(1, 8):
        # escaped dollars inside what is encoded: the encoder sees the escaped spelling, the output unescapes it exactly once
        d = rng.pick(["$$x", "a$$b", "$$$$y", "$$", "$$pod", "p$$$$q"])
        return rng.pick([d, [d, "b"], {"x": d}, {"k": [d, 1]}, [d], {"x": d, "y": "plain"}])
    k = rng.below(8)
    if k == 0:
        return rng.pick(["s", 1, True, F("0.5"), "", "é", "a b", "<a href=\"x\">&amp;</a>", "a<b>c&d"])
    if k == 1:
        return [rng.pick(["a", 1, True, F("1.5"), ""]) for _ in range(rng.below(4))]
    if k == 2:
        return [[1, 2], 3, ["a"], []]
    if k == 3:
        return {"a": 1, "b": rng.pick(["x", "<x>", "p&q"]), "c": ""}
    if k == 4:
        return rng.pick([{"k": ["v1", "v2"], "e": "", "n": 5}, {"token": "YWJjZA==", "op": "=", "e": "", "l": ["a=", "b:", "="]},
                         {"a": "1=", "b": 2, "c": ":", "d": "x::"}])
    if k == 5:
        return [{"a": 1}, {"b": "", "c": [1, 2]}]
    if k == 6:
        return {"m": {"x": 1, "y": [1, "s"]}, "l": [1, {"z": True}]}
    return {"s": "t", "i": 7}


def encode_doc(rng):
    subj = encode_subject(rng)
    k = rng.below(10)
    if k < 5:
        spec = rng.pick(TRANSFORMS)
    elif k < 8:
        spec = [rng.pick(TRANSFORMS) for _ in range(1 + rng.below(3))]
    elif k < 9:
        spec = rng.pick(BAD_TRANSFORMS)
    else:
        spec = [rng.pick(TRANSFORMS), rng.pick(BAD_TRANSFORMS)]
    if isinstance(subj, dict):
        host = dict(subj)
        host["$encode"] = spec
    elif isinstance(subj, list):
        host = list(subj) + [{"$encode": spec}]
    else:
        host = {"$value": subj, "$encode": spec}
    return {"out": host}, subj, spec


# ---------------------------------------------------------------- C10
def ref_doc(rng):
    """a document with a target subtree and a non-overlapping host referring to it; also the hand-inlined document"""
    prof = {"keys": ["a", "b", "c"], "strs": ["s", "t"], "nulls": False, "width": 2}
    target = gen.tree(rng, 2, prof, root_map=rng.chance(2, 3))
    local = gen.tree(rng, 1, {"keys": ["p", "q", "a"], "strs": ["s", "u"], "nulls": False, "width": 2}, root_map=True)
    tkeys = rng.pick([["tgt"], ["t", "sub"], ["a.b"], ["t", "x.y"]])
    doc = {"other": 1}
    node = doc
    for k in tkeys[:-1]:
        node[k] = {}
        node = node[k]
    node[tkeys[-1]] = target
    dotted = ".".join(tkeys)
    can_dot = all("." not in k for k in tkeys)
    form = rng.below(5)
    if form == 0 and can_dot:
        ref = dotted
    elif form == 1 or not can_dot:
        ref = list(tkeys)
    else:
        ref = dotted
    return doc, tkeys, target, local, ref, can_dot
