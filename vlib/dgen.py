# dgen.py — layers with override directives: "derive the child from the parent" so that most
# children are meaningful (override an existing leaf, delete an existing key, $match an existing
# entry, append), plus misplaced / malformed directives.
from . import gen
from .core import F

PROF = {"strs": ["s", "t", "u", "v w", "1", "$required", "é", ""], "width": 3}
PROF_NONULL = dict(PROF, nulls=False)


def py_merge(d, s):
    """rough plain merge used only to steer generation (never as an oracle)"""
    if isinstance(s, dict) and s.get("$replace") is True:
        return {k: v for k, v in s.items() if k != "$replace"}
    if isinstance(d, dict) and isinstance(s, dict):
        r = dict(d)
        for k, v in s.items():
            if v == "$delete" and not isinstance(v, F):
                r.pop(k, None)
            else:
                r[k] = py_merge(r[k], v) if k in r else v
        return r
    if isinstance(d, list) and isinstance(s, list):
        plain = [x for x in s if not (isinstance(x, dict) and any(k.startswith("$") for k in x))]
        cur = [x for x in d if x != "$required"]
        for x in s:
            # {$match: pat, ...patch}: steer later layers towards what the patch added (rough: subset match, no $invert/$value)
            if isinstance(x, dict) and isinstance(x.get("$match"), dict) and "$value" not in x and "$invert" not in x["$match"]:
                patch = {k: v for k, v in x.items() if k != "$match"}
                try:
                    cur = [py_merge(e, patch) if py_match(e, x["$match"]) else e for e in cur]
                except Exception:
                    pass
        return cur + plain
    return s if s is not None else d


def py_match(e, pat):
    if isinstance(pat, dict):
        return isinstance(e, dict) and all(k in e and py_match(e[k], v) for k, v in pat.items())
    if isinstance(pat, list):
        return isinstance(e, list) and all(any(py_match(x, p) for x in e) for p in pat)
    return type(e) == type(pat) and e == pat


def sub_pattern(rng, entry):
    """a pattern matching `entry` (a subset of it)"""
    if isinstance(entry, dict) and entry:
        ks = rng.shuffle(sorted(entry))[: 1 + rng.below(2)]
        return {k: (sub_pattern(rng, entry[k]) if rng.chance(1, 2) else entry[k]) for k in ks}
    if isinstance(entry, list) and entry:
        return [rng.pick(entry)]
    return entry


def invert_somewhere(rng, pat):
    """$invert at the root of the pattern or nested under one of its keys (possibly a key the entries lack)"""
    pat = dict(pat)
    k = rng.below(4)
    if k < 2:
        pat["$invert"] = True
    elif k == 2 and pat:
        key = rng.pick(sorted(pat))
        sub = pat[key] if isinstance(pat[key], dict) else {"x": 1}
        pat[key] = dict(sub, **{"$invert": True})
    else:
        pat[rng.pick(["missing", "v", "id"])] = {"q": 1, "$invert": True}
    return pat


def list_patch(rng, cur):
    """a child list for parent list `cur`"""
    out = []
    k = rng.below(12)
    maps = [e for e in cur if isinstance(e, dict) and e]
    if k < 3:
        out = [gen.tree(rng, 1, PROF) for _ in range(1 + rng.below(2))]
    elif k < 5 and cur:
        e = rng.pick(cur)
        pat = sub_pattern(rng, e)
        if rng.chance(1, 6):
            pat = {"nope": 1}
        if rng.chance(1, 6):
            pat = {}                 # matches every map entry - except the directive entries
        if rng.chance(1, 4):
            pat = invert_somewhere(rng, pat if isinstance(pat, dict) else {"id": 1})
        out = [{"$delete": pat}]
        if rng.chance(1, 8):
            out[0]["extra"] = 1
        if rng.chance(1, 3):
            # a $delete entry is one entry among others: what stands before and after it is still applied
            more = [gen.scalar(rng, PROF_NONULL), {"added": 1}, {"$delete": {"nope": 2}}]
            out = ([rng.pick(more)] if rng.chance(1, 2) else []) + out + [rng.pick(more) for _ in range(1 + rng.below(2))]
    elif k < 8 and maps:
        e = rng.pick(maps)
        pat = sub_pattern(rng, e)
        if rng.chance(1, 6):
            pat = {"nope": 1}
        if rng.chance(1, 4) and isinstance(pat, dict):
            pat = invert_somewhere(rng, pat)
        if rng.chance(1, 8):
            pat = {}
        if rng.chance(1, 3):
            # a pattern on a pair that SEVERAL entries share
            shared = [(k, v) for k, v in sorted(e.items(), key=lambda kv: kv[0]) if not isinstance(v, (dict, list)) and sum(1 for o in maps if o.get(k) == v and type(o.get(k)) == type(v)) >= 2]
            if shared:
                k0, v0 = rng.pick(shared)
                pat = {k0: v0}
        ent = {"$match": pat}
        r = rng.below(9)
        if r < 3:
            # the patch adds a NEW container (shared by every matched entry if the implementation does not copy it) or edits inside the entry
            if rng.chance(1, 2):
                ent[rng.pick(["labels", "n", "m"])] = gen.tree(rng, 2, PROF_NONULL, root_map=rng.chance(2, 3)) or {"tier": "web"}
            else:
                sub = derive(rng, e, 1)
                if isinstance(sub, dict):
                    ent.update({k: v for k, v in sub.items() if k not in ("$match",)})
        elif r < 5:
            ent["$value"] = gen.tree(rng, 1, PROF)
            if rng.chance(1, 6):
                ent["extra"] = 1
        else:
            ent[rng.pick(["n", "m", "a"])] = gen.scalar(rng, PROF_NONULL)
            if rng.chance(1, 4):
                ent[rng.pick(sorted(e))] = "$delete"
        out = [ent]
        if rng.chance(1, 4):
            out.append(gen.scalar(rng, PROF))
    elif k < 9:
        out = [gen.scalar(rng, PROF), "$replace"] if rng.chance(1, 2) else [{"$replace": True}, gen.scalar(rng, PROF)]
        if rng.chance(1, 6):
            out = [{"$replace": True, "x": 1}]
    elif k < 10 and cur:
        e = rng.pick(cur)
        out = [{"$match": e if rng.chance(1, 2) else None, "$value": gen.scalar(rng, PROF)}]
    elif k < 11:
        out = [{"$value": 1}] if rng.chance(1, 2) else [{"$invert": True, "a": 1}]
    else:
        out = []
    return out


def derive(rng, cur, depth=0):
    """a child layer (same kind as cur at the root unless it decides to clash)"""
    if isinstance(cur, dict):
        child = {}
        keys = sorted(cur)
        for k in rng.shuffle(keys)[: rng.below(3) + (1 if keys else 0)]:
            v = cur[k]
            r = rng.below(14)
            if r < 2:
                child[k] = "$delete"
            elif isinstance(v, dict):
                if r < 9:
                    child[k] = derive(rng, v, depth + 1)
                elif r < 10:
                    c = gen.tree(rng, 1, PROF, root_map=True)
                    c["$replace"] = True if rng.chance(4, 5) else rng.pick([False, "x", 1])
                    child[k] = c
                elif r < 11:
                    child[k] = rng.pick([5, "s", [1]])          # scalar / list over a map
                elif r < 12:
                    child[k] = None
                else:
                    child[k] = {}
            elif isinstance(v, list):
                if r < 3:
                    child[k] = []                                 # an explicit empty list still strips $required
                elif r < 10:
                    child[k] = list_patch(rng, v)
                elif r < 11:
                    child[k] = rng.pick([5, "s", {"a": 1}])      # scalar / map over a list
                else:
                    child[k] = None
            else:
                if r < 9:
                    child[k] = gen.different_scalar(rng, v, PROF)
                elif r < 10:
                    child[k] = v                                  # useless override
                elif r < 11:
                    child[k] = {"n": 1}
                elif r < 12:
                    child[k] = [1]
                else:
                    child[k] = None
        r = rng.below(10)
        if r < 3:
            child[rng.pick(["n", "m", "new"])] = gen.tree(rng, 1, PROF)
        elif r < 4:
            child[rng.pick(["zz", "n"])] = "$delete"              # deletes nothing (usually)
        elif r < 5:
            child[rng.pick(["$match", "$value", "$invert", "$delete", "$replace"])] = rng.pick([1, {"a": 1}, True, "x", None])
        return child
    if isinstance(cur, list):
        return list_patch(rng, cur)
    return gen.different_scalar(rng, cur, PROF)


def base_tree(rng, depth=3):
    t = gen.tree(rng, depth, PROF, root_map=True)
    for _ in range(3):
        if len(t) >= 2:
            break
        t[rng.pick(gen.KEYS)] = gen.tree(rng, depth - 1, PROF)
    # make sure lists of maps exist often (for $match / $delete)
    if rng.chance(1, 2):
        items = [{"id": i, "v": rng.pick([1, "s", [1, 2], {"q": 1}])} for i in range(1 + rng.below(3))]
        if rng.chance(1, 2):     # entries that share a pair, so that one pattern hits several
            for it in items:
                it["kind"] = rng.pick(["svc", "svc", "job"])
        if rng.chance(1, 3):     # mixed lists: maps next to scalars and lists
            items.insert(rng.below(len(items) + 1), rng.pick([1, "foo", [1], None]))
        if rng.chance(1, 5):     # directive entries: a pattern (even {}) must never select them
            items.insert(rng.below(len(items) + 1), rng.pick([{"$merge": "a"}, {"$replace": "b"}, {"$encode": "json"}, {"$merge": "nope", "x": 1}]))
        t[rng.pick(["l", "items"])] = items
    if rng.chance(1, 4):
        t[rng.pick(["req", "hosts"])] = rng.pick([["$required"], ["$required", 1], [1, "$required", {"a": 1}], "$required"])
    return t


def multi_hit_chain(rng):
    """a directed family: a list whose entries share a pair; a layer whose one $match entry hits SEVERAL of them and gives
    each something new (a container, a nested edit, a scalar); then one or two layers that each address ONE of the patched
    entries by its id and edit inside what the earlier layer added. Every patched entry must have received its own copy."""
    n = 2 + rng.below(3)
    kinds = ["svc", "svc", "job"]
    items = [{"id": i, "kind": rng.pick(kinds), "v": rng.pick([1, "s", [1, 2], {"q": 1}])} for i in range(n)]
    if rng.chance(1, 3):
        items.insert(rng.below(len(items) + 1), rng.pick([7, "foo", [1]]))
    where = rng.pick([("items",), ("a", "items"), ()])
    def wrap(lst):
        v = lst
        for k in reversed(where):
            v = {k: v}
        return v if where else {"items": lst}
    base = wrap(items)
    if isinstance(base, dict) and rng.chance(1, 2):
        base.setdefault("other", gen.tree(rng, 1, PROF_NONULL))
    key = rng.pick(["labels", "n", "v"])
    new = rng.pick([{"tier": "web"}, {"tier": "web", "deep": {"a": 1}}, [1], [{"p": 1}], {"l": [1, 2]}])
    first = {"$match": {"kind": rng.pick(["svc", "job"])}, key: new}
    layers = [base, wrap([first])]
    for _ in range(1 + rng.below(2)):
        target = rng.below(n)
        if isinstance(new, dict):
            edit = rng.pick([{"env": "prod"}, {"tier": "db"}, {"tier": "$delete"}, {"deep": {"b": 2}}, {"l": [3]}, {"tier": "web"}])
        else:
            edit = rng.pick([[9], [{"$match": {"p": 1}, "q": 2}], [{"$delete": 1}], []])
        layers.append(wrap([{"$match": {"id": target}, key: edit}]))
    return layers


def chain(rng, n=None):
    if n is None and rng.chance(1, 8):
        return multi_hit_chain(rng)
    n = n or (2 + rng.below(3))
    layers = [base_tree(rng)]
    cur = layers[0]
    for _ in range(n - 1):
        c = derive(rng, cur)
        layers.append(c)
        try:
            cur = py_merge(cur, c)
        except Exception:
            pass
    return layers


DIRECTIVE_TOKENS = ("$delete", "$replace", "$match", "$value", "$invert", "$required")


def has_directive(v):
    if isinstance(v, dict):
        return any(k in DIRECTIVE_TOKENS for k in v) or any(has_directive(x) for x in v.values())
    if isinstance(v, list):
        return any(has_directive(x) for x in v)
    return isinstance(v, str) and not isinstance(v, F) and v in DIRECTIVE_TOKENS
