# histprop.py — common run()/replay() for properties decided on call histories.
import json
import os

from . import core, hist


def load_corpus(prop_id):
    d = os.path.join(core.VERIF, "corpus", prop_id)
    out = []
    if os.path.isdir(d):
        for f in sorted(os.listdir(d)):
            j = json.load(open(os.path.join(d, f)))
            out.append(core.from_jsonable(j["case"]))
    return out


def run_history_property(ctx, prop_id, gen_case, n, rule, nontrivial, env_of=lambda c: {}, extra_enc=None, extra_sha=None,
                         judge=None, extra_oracle=None, dist_fn=None, max_report=5, klass=None, data_ok=lambda d: True, extra_batch=None):
    """gen_case(rng) -> ["history", None, ops]; judge(case, im, mo) -> None | why"""
    rng = core.Rng(ctx.seed)
    corpus = load_corpus(prop_id)
    cases = corpus + [gen_case(rng.fork("case%d" % i)) for i in range(n)]
    im, mo = hist.run_histories(ctx, cases, env_of, extra_enc, extra_sha)

    def default_judge(c, a, b):
        if hist.has_oracle_miss(b):
            return None
        r = hist.compare_outs(a, b)
        return r[1] if r else None
    judge = judge or default_judge
    seen = set()
    nt = 0
    skipped = 0
    dist = {}
    batch_why = extra_batch(ctx, cases, im, mo) if extra_batch else [None] * len(cases)
    for ci, (c, a, b) in enumerate(zip(cases, im, mo)):
        if hist.has_oracle_miss(b):
            skipped += 1
        if dist_fn:
            dist_fn(dist, c, a, b)
        why = judge(c, a, b)
        if why is None and extra_oracle:
            why = extra_oracle(ctx, c, a, b)
        if why is None:
            why = batch_why[ci]
        h = core.vhash(c[2])
        if h not in seen and nontrivial(c, a, b):
            seen.add(h)
            nt += 1
        if why and len(ctx.violations) < max_report:
            small = hist.shrink_history(ctx, c, lambda cc, aa, bb: judge(cc, aa, bb) is not None, env_of, extra_enc, extra_sha, data_ok=data_ok)
            sim, smo = hist.run_histories(ctx, [small], env_of, extra_enc, extra_sha)
            ctx.violations.append({
                "name": "case-" + core.vhash(small[2]),
                "property": prop_id, "kind": "failing-input",
                "why": judge(small, sim[0], smo[0]) or why,
                "case": core.to_jsonable(small),
                "implementation": core.to_jsonable(sim[0]),
                "model": core.to_jsonable(smo[0]),
                "class": klass(small, sim[0], smo[0]) if klass else prop_id.lower() + "-disagreement",
            })
    dist["oracle_missing_skipped"] = skipped
    return {
        "evaluations": len(cases),
        "distinct_nontrivial": nt,
        "rule": rule,
        "samples": [core.to_jsonable(c[2]) for c in cases[len(corpus):len(corpus) + 2]],
        "distribution": dist,
        "disagreements_checked": len(ctx.violations),
    }


def replay_history(ctx, payload, env_of=lambda c: {}, extra_enc=None, extra_sha=None, judge=None):
    c = core.from_jsonable(payload["case"])
    im, mo = hist.run_histories(ctx, [c], env_of, extra_enc, extra_sha)
    r = judge(c, im[0], mo[0]) if judge else (hist.compare_outs(im[0], mo[0]) or (0, None))[1]
    print("implementation:", hist.short(im[0], 2000))
    print("model:         ", hist.short(mo[0], 2000))
    print("verdict:", r or "agrees")
    return 1 if r else 0
