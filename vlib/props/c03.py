# C03 — inheritance chain is resolved from filenames and $parent, base first.
import os
import shutil

from .. import core, gen, hist
from ..core import veq

CLI = ("bkl",)
HARNESS = True
ASSUMPTIONS = [
    "theorems are about Model.Files (load_chain, parents_of, glob_files, bkl_cli) over an abstract single-directory file system; tie to file.go, "
    "filepath.go, parser.go and cmd/bkl is this run's comparison of the real binary on generated directories",
    "file contents reach the model already decoded (the trees the files were emitted from); filepath.Glob/EvalSymlinks/Stat are the OS",
    "one file per layer name (the property's quantifier); names without '/'",
]
RULE = ("directories of 1-6 layer files, filename chains up to depth 4 in any mix of .json/.jsonl/.yaml/.yml/.toml, $parent as name, list, "
        "'*' wildcard, false, null, true and other types, in any document of a file, symlinked layers, missing middle layers, $parent cycles, "
        "1-3 command-line inputs (real or virtual extension), with and without -P and -f; the real bkl binary is compared with the model "
        "(status, chosen format, documents); implementation-only oracle: the same layout with the first name component renamed, and the "
        "filename chain rewritten as $parent directives, prints the same bytes; non-trivial = the resolved chain has >= 2 files; distinct by hash")

EXTS = ["json", "jsonl", "yaml", "yml", "toml"]
PROF = {"keys": ["a", "b", "c", "d"], "strs": ["s", "t", "u"], "nulls": False, "width": 3,
        "scalars": [1, 2, 3, "s", "t", "u", True, False, 7, "w"]}


def layer_docs(rng, level, ndocs):
    docs = []
    for j in range(ndocs):
        d = {"name%d" % level: "L%d_%d" % (level, j), "lvl": level, "shared": "from%d" % level}
        if rng.chance(1, 2):
            d["m"] = {"k%d" % level: level, "common": "c%d" % level}
        if rng.chance(1, 2):
            d["l"] = [level * 10 + j]
        docs.append(d)
    return docs


def gen_layout(rng):
    files = {}     # name -> ("reg", docs) | ("link", target)
    depth = 1 + rng.below(4)
    comps = ["a", "b", "c", "d"]
    names = [".".join(comps[:i + 1]) for i in range(depth)]
    ext_of = {}
    for lvl, n in enumerate(names):
        e = rng.pick(EXTS)
        ext_of[n] = e
        files["%s.%s" % (n, e)] = ("reg", layer_docs(rng, lvl, 1 + (rng.below(2) if lvl == 0 else 0)))
    top = "%s.%s" % (names[-1], ext_of[names[-1]])
    inputs = [top]
    kind = rng.pick(["plain", "plain", "parent_str", "parent_list", "parent_wild", "parent_false", "parent_null", "parent_bad", "symlink",
                     "missing", "cycle", "multi", "virtual", "parent_second_doc", "link_graph", "multi_shared"])
    extra_base = {"x.%s" % rng.pick(EXTS): ("reg", [{"xbase": 1, "shared": "x"}]),
                  "y.%s" % rng.pick(EXTS): ("reg", [{"ybase": 2, "shared": "y"}])}
    topdocs = files[top][1]
    if kind == "parent_str":
        files.update(extra_base)
        topdocs[0]["$parent"] = "x"
    elif kind == "parent_list":
        files.update(extra_base)
        topdocs[0]["$parent"] = rng.pick([["x", "y"], ["y", "x"], ["x"], [], ["x", 5], ["x", "nothere"], ["nothere", "x"], ["x", "nomatch.*"],
                                          ["x", "y", "zz"], ["x", "x"]])
    elif kind == "parent_wild":
        files["w.one.%s" % rng.pick(EXTS)] = ("reg", [{"one": 1, "$parent": False}])
        files["w.two.%s" % rng.pick(EXTS)] = ("reg", [{"two": 2, "$parent": False}])
        files["w.two.deep.yaml"] = ("reg", [{"deep": 3}])
        files["w.three.txt"] = ("reg", [{"txt": 1}])
        topdocs[0]["$parent"] = rng.pick(["w.*", "w.t*", "w.*o", "*.one", "nomatch.*"])
    elif kind == "parent_false":
        topdocs[0]["$parent"] = False
    elif kind == "parent_null":
        topdocs[0]["$parent"] = None
    elif kind == "parent_bad":
        topdocs[0]["$parent"] = rng.pick([True, 5, {"a": 1}, "nothere"])
        if rng.chance(1, 3):
            files.update(extra_base)
            topdocs.append({"$parent": "x"})
            topdocs[0]["$parent"] = False
    elif kind == "parent_second_doc":
        files.update(extra_base)
        topdocs.append({"second": True, "$parent": rng.pick(["x", "y", False, "nothere", "no.*"])})
        if rng.chance(1, 2):
            topdocs[0]["$parent"] = rng.pick(["x", "y"])
    elif kind == "symlink":
        files["lnk.%s" % ext_of[names[-1]]] = ("link", top)
        inputs = ["lnk.%s" % ext_of[names[-1]]]
        if rng.chance(1, 3):
            files["l2.x.y.%s" % ext_of[names[-1]]] = ("link", inputs[0])
            inputs = ["l2.x.y.%s" % ext_of[names[-1]]]
    elif kind == "multi_shared":
        # several command-line inputs that inherit from the SAME base: each input's chain is loaded and applied on its own
        files = {}
        e = {n: rng.pick(EXTS) for n in ("s", "s.x", "s.y", "s.x.deep")}
        files["s.%s" % e["s"]] = ("reg", layer_docs(rng, 0, 1 + rng.below(2)))
        files["s.x.%s" % e["s.x"]] = ("reg", [{"fromx": 1, "shared": "x"}])
        files["s.y.%s" % e["s.y"]] = ("reg", [{"fromy": 2, "shared": "y"}])
        files["s.x.deep.%s" % e["s.x.deep"]] = ("reg", [{"deep": 3}])
        pool = ["s.x.%s" % e["s.x"], "s.y.%s" % e["s.y"], "s.x.deep.%s" % e["s.x.deep"], "s.%s" % e["s"]]
        inputs = [rng.pick(pool) for _ in range(2 + rng.below(2))]
    elif kind == "link_graph":
        # a small directory in which any name may be a regular layer or a link to any other name (also to itself,
        # to its own child layer, to nothing): parents by filename run through the links, cycles included
        files = {}
        pool = rng.shuffle(["a", "a.x", "a.x.y", "b", "b.x", "a.y", "b.x.z"])[: 2 + rng.below(4)]
        e1 = rng.pick(EXTS)      # one extension: a link is read in the format of its own name, the model sees decoded contents
        full = {n: "%s.%s" % (n, e1) for n in pool}
        for n in pool:
            if rng.chance(1, 2):
                files[full[n]] = ("reg", [{n.replace(".", "_"): 1, "shared": n}])
            else:
                files[full[n]] = ("link", rng.pick([full[m] for m in pool] + ["nothere." + e1]))
        inputs = [full[rng.pick(pool)]]
    elif kind == "missing" and depth >= 3:
        mid = names[1 + rng.below(depth - 2)]
        del files["%s.%s" % (mid, ext_of[mid])]
    elif kind == "cycle":
        files["p.yaml"] = ("reg", [{"$parent": "q", "p": 1}])
        files["q.json"] = ("reg", [{"$parent": rng.pick(["p", "q"]), "q": 1}])
        inputs = [rng.pick(["p.yaml", top])]
    elif kind == "multi":
        files.update(extra_base)
        others = [k for k in extra_base] + [top]
        inputs = [rng.pick(others) for _ in range(2 + rng.below(2))]
    elif kind == "virtual":
        inputs = ["%s.%s" % (names[-1], rng.pick(EXTS + ["json-pretty", "txt"]))]
    opts = {"inputs": inputs, "P": rng.chance(1, 5), "f": rng.pick(["json", "json", None, "yaml", "toml", "json-pretty"]), "o": None}
    return {"files": files, "opts": opts, "kind": kind}


def link_corpus():
    """fixed layouts in which parents by filename run through symbolic links: cycles must end in an error, the rest load"""
    def lay(files, inp):
        return {"files": files, "opts": {"inputs": [inp], "P": False, "f": "json", "o": None}, "kind": "link_corpus"}
    reg = lambda k: ("reg", [{k: 1}])
    return [
        lay({"a.x.yaml": reg("ax"), "a.yaml": ("link", "a.x.yaml")}, "a.x.yaml"),                      # the base is a link to its own child
        lay({"a.x.yaml": reg("ax"), "a.yaml": ("link", "a.x.yaml")}, "a.yaml"),
        lay({"a.x.yaml": reg("ax"), "a.yaml": ("link", "b.x.yaml"), "b.x.yaml": ("link", "a.x.yaml")}, "a.x.yaml"),
        lay({"a.yaml": ("link", "a.yaml")}, "a.yaml"),                                                  # a link to itself
        lay({"a.yaml": ("link", "b.yaml"), "b.yaml": ("link", "a.yaml")}, "a.yaml"),
        lay({"a.x.y.yaml": reg("axy"), "a.x.yaml": ("link", "a.x.y.yaml"), "a.yaml": reg("a")}, "a.x.y.yaml"),
        lay({"a.x.yaml": reg("ax"), "b.yaml": reg("b"), "a.yaml": ("link", "b.yaml")}, "a.x.yaml"),     # no cycle: a is b
        lay({"a.x.yaml": reg("ax"), "b.q.yaml": reg("bq"), "b.yaml": reg("b"), "a.yaml": ("link", "b.q.yaml")}, "a.x.yaml"),  # the link's parents come from its target's name
        lay({"a.x.json": reg("ax"), "a.json": ("link", "a.x.json")}, "a.x.json"),
        lay({"p.yaml": ("reg", [{"$parent": "l", "p": 1}]), "l.yaml": ("link", "p.yaml")}, "p.yaml"),  # $parent names a link back to the file
        lay({"p.yaml": ("reg", [{"$parent": "l", "p": 1}]), "l.yaml": ("link", "p.yaml")}, "l.yaml"),
    ]


def toml_safe(docs):
    return all(gen.toml_ok(d) for d in docs)


def write_layout(d, lay, rng):
    shutil.rmtree(d, ignore_errors=True)
    os.makedirs(d)
    for n, (k, x) in sorted(lay["files"].items()):
        p = os.path.join(d, n)
        if k == "link":
            os.symlink(x, p)
        else:
            e = n.rsplit(".", 1)[1]
            if e == "toml" and not toml_safe(x):
                # TOML cannot carry null/bool-false $parent? (it can carry false; null it cannot)
                raise ValueError("toml cannot express")
            f = {"jsonl": "json", "yml": "yaml", "txt": "json"}.get(e, e)
            open(p, "w").write(gen.emit(f, x, rng))


def fix_toml(lay):
    """rename .toml files whose documents TOML cannot express (null) to .yaml"""
    files = {}
    ren = {}
    for n, (k, x) in lay["files"].items():
        if k == "reg" and n.endswith(".toml") and not toml_safe(x):
            nn = n[:-5] + ".yaml"
            ren[n] = nn
            files[nn] = (k, x)
        else:
            files[n] = (k, x)
    for n, (k, x) in list(files.items()):
        if k == "link" and x in ren:
            files[n] = (k, ren[x])
    lay["files"] = files
    lay["opts"]["inputs"] = [ren.get(i, i) for i in lay["opts"]["inputs"]]
    return lay


def run_bkl(ctx, d, opts):
    args = []
    if opts.get("P"):
        args.append("-P")
    if opts.get("f"):
        args += ["-f", opts["f"]]
    args += opts["inputs"]
    return core.cli(os.path.join(ctx.bindir, "bkl"), args, d)


def model_case(lay, fmts):
    fsv = []
    for n, (k, x) in sorted(lay["files"].items()):
        if k == "link":
            fsv.append([n, ["link", x]])
        else:
            fsv.append([n, ["reg", ["ok", x]]])
    o = lay["opts"]
    return ["cli", {"fmts": fmts, "env": {}, "yaml": {}, "enc": [], "dec": [], "sha": {}, "lower": []}, fsv,
            {"f": o.get("f"), "o": o.get("o"), "P": bool(o.get("P")), "inputs": o["inputs"]}]


def fill_tables(ctx, mcases):
    """oracle tables (yaml reference strings, $decode texts, lower-case runes) for 'cli' cases"""
    def docs_of(c):
        out = []
        for e in c[2]:
            if e[1][0] == "reg" and e[1][1][0] == "ok":
                out.extend(e[1][1][1])
        return out
    hist.collect_tables(ctx, mcases, lambda c: {}, docs_of)
    return mcases


def parse_out(fmt, out):
    r = hist.py_decode(fmt, out.decode("utf-8", "replace"))
    if r is None or r[0] != "ok":
        return None
    docs = r[1]
    if fmt in ("yaml", "yml", "toml") and out == b"":
        return []
    return docs


def judge(lay, res, mo):
    rc, out, err = res
    if rc == -9 and err == "TIMEOUT":
        return "bkl did not terminate within 30 s on this layout (the model: %s)" % (mo[:2],)
    if isinstance(mo, list) and mo[:1] == ["err"] and mo[1] == "oracle":
        return None
    if mo[0] == "err":
        if rc == 0:
            return "bkl succeeded where the model reports an error (%s)" % mo[1]
        if out:
            return "bkl failed but wrote to stdout"
        return None
    if rc != 0:
        return "bkl failed (%s) where the model evaluates" % err.strip()[-200:]
    fmt, docs = mo[1]
    got = parse_out(fmt, out)
    if got is None:
        return "stdout is not parseable as the format the model selects (%s)" % fmt
    if not veq(got, docs):
        return "output differs from the model: %s vs %s" % (hist.short(got), hist.short(docs))
    return None


def rename_variant(lay):
    """the same layout with the first name component of every layer renamed (injectively)"""
    def ren(n):
        head, _, rest = n.partition(".")
        return "r" + head + ("." + rest if rest else "")
    def ren_parent(v):
        if isinstance(v, str):
            return ren(v)
        if isinstance(v, list):
            return [ren(x) if isinstance(x, str) else x for x in v]
        return v
    files = {}
    for n, (k, x) in lay["files"].items():
        if k == "link":
            files[ren(n)] = (k, ren(x))
        else:
            files[ren(n)] = (k, [dict(d, **({"$parent": ren_parent(d["$parent"])} if isinstance(d, dict) and "$parent" in d else {})) for d in x])
    return {"files": files, "opts": dict(lay["opts"], inputs=[ren(i) for i in lay["opts"]["inputs"]]), "kind": lay["kind"]}


def parent_variant(lay):
    """the same chain expressed with $parent instead of filenames: every layer gets an unrelated two-part name and names its
    parent explicitly; only for pure filename chains (no directive, no link, one input, no -P) whose documents are maps"""
    if lay["kind"] not in ("plain",) or len(lay["opts"]["inputs"]) != 1 or lay["opts"].get("P"):
        return None
    names = sorted(lay["files"], key=lambda n: n.count("."))
    if any(k != "reg" for k, _ in lay["files"].values()):
        return None
    if any((not x) or not isinstance(x[0], dict) or any(isinstance(d, dict) and "$parent" in d for d in x) for _, x in lay["files"].values()):
        return None
    bases = [n.rsplit(".", 1)[0] for n in names]
    if any(bases[i + 1].rsplit(".", 1)[0] != bases[i] for i in range(len(bases) - 1)):
        return None          # not one straight chain
    new = {}
    files = {}
    for i, n in enumerate(names):
        new[n] = "q%d.%s" % (i, n.rsplit(".", 1)[1])
    for i, n in enumerate(names):
        docs = [dict(d) if isinstance(d, dict) else d for d in lay["files"][n][1]]
        if i > 0:
            docs[0]["$parent"] = "q%d" % (i - 1)
        files[new[n]] = ("reg", docs)
    return {"files": files, "opts": dict(lay["opts"], inputs=[new[lay["opts"]["inputs"][0]]]), "kind": "parent_variant"}


def crossdir_pass(ctx, rng, n, dist):
    """implementation only (the file model is single-directory): a layer that is a symbolic link into ANOTHER directory
    inherits from its target's name, looked up next to the target - so the tree must evaluate exactly like the flat
    directory in which the link is replaced by the file it points to; a file next to the link that happens to carry the
    parent's name must be ignored"""
    bkl = os.path.join(ctx.bindir, "bkl")
    done = 0
    for i in range(n):
        r = rng.fork("x%d" % i)
        base = os.path.join(ctx.work, "xd%d" % i)
        shutil.rmtree(base, ignore_errors=True)
        os.makedirs(os.path.join(base, "t", "shared"))
        os.makedirs(os.path.join(base, "t", "envs", "prod"))
        os.makedirs(os.path.join(base, "flat"))
        ext = r.pick(["yaml", "json"])
        docs = {"app": [{"a": 1, "shared": "base"}], "app.web": [{"b": r.pick([2, "w", [1]]), "shared": "web"}], "top": [{"c": 3, "shared": "top"}]}
        same_name = r.chance(1, 2)
        link_base = "app.web" if same_name else r.pick(["svc.web", "x.y", "svc"])
        for d in ("t/shared", "flat"):
            open(os.path.join(base, d, "app." + ext), "w").write(gen.emit(ext, docs["app"]))
            open(os.path.join(base, d, "app.web." + ext), "w").write(gen.emit(ext, docs["app.web"]))
        link_target = r.pick(["../../shared/app.web." + ext, "../../shared/app.web." + ext, os.path.join(base, "t", "shared", "app.web." + ext)])
        os.symlink(link_target, os.path.join(base, "t", "envs", "prod", link_base + "." + ext))
        open(os.path.join(base, "t", "envs", "prod", link_base + ".prod." + ext), "w").write(gen.emit(ext, docs["top"]))
        open(os.path.join(base, "flat", "app.web.prod." + ext), "w").write(gen.emit(ext, docs["top"]))
        decoy = r.chance(1, 2)
        if decoy:
            # next to the link: a file with the name the parent WOULD have if the link's own directory were searched
            pname = link_base.rsplit(".", 1)[0] if "." in link_base else None
            if pname:
                open(os.path.join(base, "t", "envs", "prod", pname + "." + ext), "w").write(gen.emit(ext, [{"z": 9, "shared": "decoy"}]))
        a = core.cli(bkl, ["-f", "json", link_base + ".prod." + ext], os.path.join(base, "t", "envs", "prod"))
        b = core.cli(bkl, ["-f", "json", "app.web.prod." + ext], os.path.join(base, "flat"))
        done += 1
        k = "crossdir_" + ("same_name" if same_name else "other_name") + ("_decoy" if decoy else "")
        dist[k] = dist.get(k, 0) + 1
        known_shape = os.path.isabs(link_target) and "path escapes from parent" in a[2]
        room = (sum(1 for v in ctx.violations if v.get("abs_link") and "path escapes" in v.get("stderr", "")) < 1) if known_shape else \
               (sum(1 for v in ctx.violations if not (v.get("abs_link") and "path escapes" in v.get("stderr", ""))) < 5)
        if (a[0], a[1]) != (b[0], b[1]) and room:
            ctx.violations.append({"name": "crossdir-%d" % i, "property": "C03", "kind": "failing-input",
                                   "why": "a link into another directory (%s -> shared/app.web.%s%s) does not inherit from its target's name: rc %d/%d, %r vs the flat layout's %r; %s"
                                          % (link_base + "." + ext, ext, ", with a decoy next to the link" if decoy else "", a[0], b[0], a[1][:200], b[1][:200], a[2][-150:]),
                                   "abs_link": os.path.isabs(link_target), "stderr": a[2][-200:], "class": "c03-crossdir-link"})
        shutil.rmtree(base, ignore_errors=True)
    return done


def check_known(ctx, k):
    """replays the witness of a recorded finding; True while it still fails"""
    if k.get("class") == "absolute-symlink-layer":
        d = os.path.join(ctx.work, "known_abs")
        shutil.rmtree(d, ignore_errors=True)
        os.makedirs(d)
        open(os.path.join(d, "base.yaml"), "w").write("a: 1\n")
        os.symlink(os.path.join(d, "base.yaml"), os.path.join(d, "labs.yaml"))
        os.symlink("base.yaml", os.path.join(d, "lrel.yaml"))
        bkl = os.path.join(ctx.bindir, "bkl")
        ra = core.cli(bkl, ["-f", "json", "labs.yaml"], d)
        rr = core.cli(bkl, ["-f", "json", "lrel.yaml"], d)
        return rr[0] == 0 and ra[0] != 0
    return None


def run(ctx):
    n = ctx.n(400, 8000)
    rng = core.Rng(ctx.seed)
    fmts, _ = hist.formats_from_source()
    lays = link_corpus() + [fix_toml(gen_layout(rng.fork("case%d" % i))) for i in range(n)]
    n = len(lays)

    def one(i):
        d = os.path.join(ctx.work, "lay%d" % i)
        r2 = rng.fork("emit%d" % i)
        write_layout(d, lays[i], r2)
        res = run_bkl(ctx, d, lays[i]["opts"])
        # renamed variant must print the same bytes
        lv = rename_variant(lays[i])
        d2 = os.path.join(ctx.work, "layr%d" % i)
        write_layout(d2, lv, rng.fork("emit%d" % i))
        res2 = run_bkl(ctx, d2, lv["opts"])
        # the same chain expressed with $parent instead of filenames must print the same bytes too
        pv = parent_variant(lays[i])
        res3 = None
        if pv is not None:
            d3 = os.path.join(ctx.work, "layp%d" % i)
            write_layout(d3, pv, rng.fork("emit%d" % i))
            res3 = run_bkl(ctx, d3, pv["opts"])
        return res, res2, res3
    results = core.pmap(one, range(n))
    mo = ctx.model(fill_tables(ctx, [model_case(l, fmts) for l in lays]))
    seen, nt = set(), 0
    dist = {}
    for lay, (res, res2, res3), m in zip(lays, results, mo):
        why = judge(lay, res, m)
        if why is None and (res[0], res[1]) != (res2[0], res2[1]):
            why = "renaming the chain changes the output: rc %d/%d" % (res[0], res2[0])
        if res3 is not None:
            dist["expressed_with_parent"] = dist.get("expressed_with_parent", 0) + 1
            if why is None and (res[0], res[1]) != (res3[0], res3[1]):
                why = "the chain expressed with $parent instead of filenames gives another result: rc %d/%d %r vs %r" % (res[0], res3[0], res[1][:200], res3[1][:200])
        k = lay["kind"] + ("_ok" if m[0] == "ok" else "_err_" + m[1])
        dist[k] = dist.get(k, 0) + 1
        h = core.vhash([sorted((a, b[0], b[1]) for a, b in lay["files"].items()), lay["opts"]])
        if h not in seen and m[0] == "ok" and len(lay["files"]) >= 2:
            seen.add(h)
            nt += 1
        if why and len(ctx.violations) < 5:
            ctx.violations.append({"name": "case-" + h, "property": "C03", "kind": "failing-input", "why": why,
                                   "layout": {a: [b[0], core.to_jsonable(b[1])] for a, b in lay["files"].items()}, "opts": lay["opts"],
                                   "implementation": {"rc": res[0], "stdout": res[1].decode("utf-8", "replace")[:1000], "stderr": res[2][-300:]},
                                   "model": core.to_jsonable(m), "class": "c03-disagreement"})
    nx = crossdir_pass(ctx, core.Rng(ctx.seed + 5), ctx.n(24, 400), dist)
    return {"evaluations": n * 2 + nx * 2, "distinct_nontrivial": nt, "rule": RULE,
            "samples": [{"files": {a: [b[0], core.to_jsonable(b[1])] for a, b in l["files"].items()}, "opts": l["opts"]} for l in lays[:2]],
            "distribution": dist, "disagreements_checked": len(ctx.violations)}


def replay(ctx, payload):
    fmts, _ = hist.formats_from_source()
    lay = {"files": {a: (b[0], core.from_jsonable(b[1])) for a, b in payload["layout"].items()}, "opts": payload["opts"], "kind": "replay"}
    d = os.path.join(ctx.work, "replay")
    write_layout(d, lay, core.Rng(1))
    res = run_bkl(ctx, d, lay["opts"])
    mo = ctx.model(fill_tables(ctx, [model_case(lay, fmts)]))
    why = judge(lay, res, mo[0])
    print("implementation:", res)
    print("model:", mo[0])
    print("verdict:", why or "agrees")
    return 1 if why else 0


def matches_known(k, v):
    # only the recorded shape: a layer reached through a link with an ABSOLUTE target is refused by the root handle
    if k.get("class") == "absolute-symlink-layer":
        return v.get("class") == "c03-crossdir-link" and v.get("abs_link") is True and "path escapes from parent" in v.get("stderr", "")
    return False
