# C14 — $encode produces the named standard encodings and $decode inverts them.
import base64
import hashlib

from .. import core, evalgen, gen, hist, histprop
from ..core import F, veq

CLI = ()
HARNESS = True
ASSUMPTIONS = [
    "theorems are about Model.Eval.encode_one/encode_any and Model.Str.b64_encode/b64_decode; tie to process2.go is this run's comparison",
    "sha256 comes from python hashlib; json/yaml/toml text from encoding/json, yaml.v3 and go-toml called directly by the harness (not through bkl); "
    "$decode tables from python json / PyYAML / tomllib: the model is parametrised by these independent implementations",
]
RULE = ("scalars, flat and nested maps and lists (list-valued and empty-string entries) under $encode with every transform, stacks of up to 3, "
        "valid and invalid arguments, in map, list and $value hosts; $decode of text produced by the independent encoders and of malformed / "
        "multi-document text; compared with the model whose codec/sha tables are computed independently; non-trivial = the transform stack is "
        "accepted by the model; distinct by hash")


MALFORMED = [
    {"out": {"$decode": 5, "$value": "1"}}, {"out": {"$decode": "json", "$value": "1", "extra": 1}}, {"out": {"$decode": "json"}},
    {"out": {"$decode": "json", "$value": 5}}, {"out": {"$value": 1, "extra": 2}}, {"out": {"$value": {"a": 1}}}, {"out": {"$value": None}},
    {"out": [1, {"$encode": "json", "extra": 1}]}, {"out": [1, {"$encode": "json"}, {"$encode": "yaml"}]}, {"out": [{"$encode": 5}]},
    {"out": {"$encode": "json", "$value": {"$encode": "base64", "$value": "x"}}}, {"out": {"$decode": "yaml", "$value": "a: [1, 2]"}},
    {"out": {"$decode": ["json"], "$value": "1"}}, {"out": {"$encode": [], "a": 1}}, {"out": {"$encode": ["json", 5], "a": 1}},
]


def gen_case(rng):
    if rng.chance(1, 12):
        c = ["history", None, hist.stream_history([rng.pick(MALFORMED)])]
        c.append({"kind": "malformed"})
        return c
    if rng.chance(1, 4):
        return gen_decode(rng)
    doc, subj, spec = evalgen.encode_doc(rng)
    c = ["history", None, hist.stream_history([doc])]
    c.append({"subj": subj, "spec": spec})
    return c


def gen_decode(rng):
    v = rng.pick([{"a": 1, "b": "x"}, {"k": [1, 2], "s": "t"}, [1, "a"], "s", 5, {"n": {"m": F("0.5")}}, {"big": 9007199254740993},
                  {"t": True, "e": ""}])
    f = rng.pick(["json", "yaml", "toml", "json-pretty", "yml", "jsonl", "bogus"])
    k = rng.below(8)
    c = ["history", None, None]
    meta = {"decode_of": [f, v]}
    if k == 0:
        meta = {"text": rng.pick(["{", "a: [", "x = ", "{} {}", "1\n---\n2\n", "a = 1\n---\nb = 2\n", ""])}
        if rng.chance(1, 2):
            # empty and comment-only texts, per format: TOML denotes {}, YAML an empty document
            meta = {"text": rng.pick(["", "\n", "# only a comment\n", "  \n"]), "fmt": rng.pick(["toml", "yaml", "json", "yml"])}
    c.append(meta)
    return c


def enc_completion(ctx, cases):
    """fill text for decode cases, and the enc/sha tables for encode cases, from independent implementations"""
    # decode cases: produce the text with the independent encoders
    q = []
    for c in cases:
        m = c[3] if len(c) > 3 else {}
        if "decode_of" in m:
            q.append([m["decode_of"][0], m["decode_of"][1]])
    texts = {}
    if q:
        r = ctx.impl([["enc", q]])
        for f, v, res in r[0]:
            texts[(f, repr(core.canon(v)))] = res
    for c in cases:
        m = c[3] if len(c) > 3 else {}
        if c[2] is None:
            if "decode_of" in m:
                f, v = m["decode_of"]
                res = texts.get((f, repr(core.canon(v))))
                text = res[1] if res and res[0] == "ok" else "unencodable"
            else:
                f, text = "json", m.get("text", "")
                if "fmt" in m:
                    f = m["fmt"]
                elif "=" in text:
                    f = "toml"
                elif ":" in text or "---" in text:
                    f = "yaml"
            c[2] = hist.stream_history([{"out": {"$decode": f, "$value": text}}])
    # encode cases: iterate "which oracle entry is needed next" with the model
    pending = {i: {"enc": [], "sha": {}} for i, c in enumerate(cases) if len(c) > 3 and "spec" in c[3]}
    fmts, _ = hist.formats_from_source()
    for _round in range(5):
        idx = sorted(pending)
        if not idx:
            break
        qs = []
        for i in idx:
            m = cases[i][3]
            t = {"fmts": list(fmts), "enc": pending[i]["enc"], "sha": pending[i]["sha"]}
            qs.append(["encq", t, gen.drop_nulls(m["subj"]), m["spec"]])
        ans = ctx.model(qs)
        encq = []
        for i, a in zip(idx, ans):
            if isinstance(a, list) and a and a[0] == "sha":
                pending[i]["sha"][a[1]] = hashlib.sha256(a[1].encode("utf-8", "surrogateescape")).hexdigest()
            elif isinstance(a, list) and a and a[0] == "enc":
                encq.append((i, a[1], a[2]))
            else:
                cases[i][3]["enc_table"] = pending[i]["enc"]
                cases[i][3]["sha_table"] = pending[i]["sha"]
                del pending[i]
        if encq:
            r = ctx.impl([["enc", [[f, v] for _, f, v in encq]]])
            for (i, f, v), (f2, v2, res) in zip(encq, r[0]):
                pending[i]["enc"].append([f, v, res])
    for i in pending:
        cases[i][3]["enc_table"] = pending[i]["enc"]
        cases[i][3]["sha_table"] = pending[i]["sha"]


def run_with_tables(ctx, cases):
    enc_completion(ctx, cases)
    hist.collect_tables(ctx, cases, lambda c: {}, hist.docs_of_history)
    for c in cases:
        m = c[3] if len(c) > 3 else {}
        c[1]["enc"] = m.get("enc_table", [])
        c[1]["sha"] = m.get("sha_table", {})
    return ctx.impl(cases), ctx.model(cases)


def judge(c, a, b):
    if hist.has_oracle_miss(b):
        return None
    r = hist.compare_outs(a, b)
    if r:
        return r[1]
    m = c[3] if len(c) > 3 else {}
    # independent spot checks of the model's own base64 and of the decode round trip
    if isinstance(a, list) and a and a[-1][0] == "out" and a[-1][1][0] == "ok":
        outs = a[-1][1][1]
        if m.get("spec") == "base64" and isinstance(m.get("subj"), str) and not isinstance(m.get("subj"), F):
            want = base64.b64encode(m["subj"].encode("utf-8", "surrogateescape")).decode()
            if not veq(outs, [{"out": want}]):
                return "base64 differs from python's base64"
        if "decode_of" in m:
            f, v = m["decode_of"]
            if not veq(outs, [{"out": gen.drop_nulls(v)}]):
                return "$decode of the %s encoding of a value is not that value: %s" % (f, hist.short(outs))
    return None


def nontrivial(c, a, b):
    return isinstance(b, list) and b and b[-1][0] == "out" and b[-1][1][0] == "ok"


def dist_fn(dist, c, a, b):
    m = c[3] if len(c) > 3 else {}
    kind = "malformed" if m.get("kind") == "malformed" else ("decode" if ("decode_of" in m or "text" in m) else "encode")
    if isinstance(b, list) and b and b[-1][0] == "out":
        r = b[-1][1]
        k = kind + ("_ok" if r[0] == "ok" else "_err_" + r[1])
        dist[k] = dist.get(k, 0) + 1
    if kind == "encode":
        for t in ([m["spec"]] if not isinstance(m["spec"], list) else m["spec"]):
            if isinstance(t, str):
                k = "t_" + t.split(":")[0]
                dist[k] = dist.get(k, 0) + 1


def run(ctx):
    n = ctx.n(1500, 30000)
    rng = core.Rng(ctx.seed)
    cases = [gen_case(rng.fork("case%d" % i)) for i in range(n)]
    im, mo = run_with_tables(ctx, cases)
    seen, nt, dist, skipped = set(), 0, {}, 0
    for c, a, b in zip(cases, im, mo):
        if hist.has_oracle_miss(b):
            skipped += 1
        dist_fn(dist, c, a, b)
        why = judge(c, a, b)
        h = core.vhash(c[2])
        if h not in seen and nontrivial(c, a, b):
            seen.add(h)
            nt += 1
        if why and len(ctx.violations) < 5:
            ctx.violations.append({"name": "case-" + h, "property": "C14", "kind": "failing-input", "why": why,
                                   "case": core.to_jsonable(c), "implementation": core.to_jsonable(a), "model": core.to_jsonable(b),
                                   "class": "c14-disagreement"})
    dist["oracle_missing_skipped"] = skipped
    # the model's own base64 pair (C14_base64_inverse is about it) against python's: encode and the spec-side decode
    strs = ["", "a", "ab", "abc", "abcd", "é", "\x00\x01\xff".encode("latin-1").decode("latin-1"), "line\nbreak", " " * 7] + \
           ["".join(chr(32 + rng.below(95)) for _ in range(rng.below(40))) for _ in range(60)]
    strs = [x for x in strs if all(ord(ch) < 128 for ch in x)]
    mb = ctx.model([["b64", x] for x in strs])
    for x, r in zip(strs, mb):
        want = base64.b64encode(x.encode()).decode()
        if not (isinstance(r, list) and len(r) == 2 and r[0] == want and r[1] == x) and len(ctx.violations) < 5:
            ctx.violations.append({"name": "b64-" + core.vhash(x), "property": "C14", "kind": "no-failing-input-found",
                                   "theorem": "C14_base64_inverse (Properties/C14.v) is about Model.Str.b64_encode/b64_decode",
                                   "why": "the model's base64 of %r is %r (python: %r)" % (x, r, want), "class": "c14-b64-model"})
    dist["model_base64_pairs"] = len(strs)
    return {"evaluations": len(cases) + len(strs), "distinct_nontrivial": nt, "rule": RULE,
            "samples": [core.to_jsonable(c[2]) for c in cases[:3]], "distribution": dist, "disagreements_checked": len(ctx.violations)}


def replay(ctx, payload):
    c = core.from_jsonable(payload["case"])
    im, mo = ctx.impl([c]), ctx.model([c])
    why = judge(c, im[0], mo[0])
    print("implementation:", hist.short(im[0], 2000))
    print("model:         ", hist.short(mo[0], 2000))
    print("verdict:", why or "agrees")
    return 1 if why else 0


def matches_known(k, v):
    return False
