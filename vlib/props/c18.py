# C18 — with a root directory set, nothing outside it is ever read.
import os
import re
import shutil
import subprocess

from .. import core, gen, hist
from ..core import veq

CLI = ("bkl",)
HARNESS = True
ASSUMPTIONS = [
    "that a path cannot escape an os.Root is the Go runtime's contract (assumed); bkl's logic is that every content read goes through that handle "
    "and that probes bypassing it (Stat, Glob, EvalSymlinks) only decide between two failures",
    "theorems are about Model.Root (reads only through root_read; independence of everything outside); tie to parser.go/file.go/filepath.go is "
    "this run: status/stdout while decoys vary, and the system-call trace",
]
RULE = ("directory trees with a root and decoy layer files outside it (in a sibling directory named outside, or root2/root-old/roots/rootsub: names that extend the root's); inputs inside the root reach for the decoys through $parent with .., "
        "absolute paths, wildcards, filename chains, relative/absolute/chained symlinks and directory symlinks; root spellings sub, ., .., nested "
        "SetRoot (library), and / (control: then the decoy is legitimately readable); each layout run with 3 decoy variants (original, rewritten, "
        "removed): exit status and stdout must be identical, and strace must show no successful open of a decoy file; where the outcome is "
        "exactly whether the input path can be opened through the root (links inside and outside, relative/absolute/chained/directory links, inputs "
        "outside) the directory tree is snapshotted and Model.Root.root_open must agree with bkl -r on success and on the content read; non-trivial = the input "
        "actually reaches for a decoy; also: files merged by the same parser before SetRoot never turn a refused merge into an accepted one; distinct by hash")

ATTACKS = ["parent_dotdot", "parent_abs", "parent_wild", "symlink_rel", "symlink_abs", "symlink_chain", "dir_symlink", "filename_chain_link",
           "input_outside", "input_dotdot", "benign", "benign_chain", "parent_list",
           "link_inside_rel", "link_inside_abs", "link_inside_chain", "dir_link_inside"]
# attacks whose outcome is exactly "can the input path be opened through the root": compared with Model.Root.root_open
DIRECT = {"symlink_rel", "symlink_abs", "symlink_chain", "dir_symlink", "input_outside", "input_dotdot",
          "link_inside_rel", "link_inside_abs", "link_inside_chain", "dir_link_inside"}


OUTNAMES = ["outside", "root2", "root-old", "roots", "rootsub"]


def build(base, attack, rng, variant, outname="outside"):
    """creates base/root, base/outside; returns (cwd, args, reaches)"""
    shutil.rmtree(base, ignore_errors=True)
    root = os.path.join(base, "root")
    out = os.path.join(base, outname)
    os.makedirs(os.path.join(root, "sub"))
    os.makedirs(out)
    secret = {"original": {"secret": "S1", "n": 1}, "rewritten": {"secret": "CHANGED", "n": 2, "more": [1]}}.get(variant)
    if secret is not None:
        open(os.path.join(out, "decoy.yaml"), "w").write(gen.emit("yaml", [secret]))
        open(os.path.join(out, "decoy.child.yaml"), "w").write(gen.emit("yaml", [{"c": 1 if variant == "original" else 2}]))
        open(os.path.join(out, "decoy2.json"), "w").write(gen.emit("json", [{"d2": variant}]))
    open(os.path.join(root, "base.yaml"), "w").write(gen.emit("yaml", [{"base": 1}]))
    open(os.path.join(root, "base.top.yaml"), "w").write(gen.emit("yaml", [{"top": 2}]))
    inp = os.path.join(root, "in.yaml")
    reaches = True
    target = "in.yaml"
    if attack == "parent_dotdot":
        open(inp, "w").write(gen.emit("yaml", [{"$parent": "../%s/decoy" % outname, "x": 1}]))
    elif attack == "parent_abs":
        open(inp, "w").write(gen.emit("yaml", [{"$parent": os.path.join(out, "decoy"), "x": 1}]))
    elif attack == "parent_wild":
        open(inp, "w").write(gen.emit("yaml", [{"$parent": "../%s/dec*" % outname, "x": 1}]))
    elif attack == "parent_list":
        open(inp, "w").write(gen.emit("yaml", [{"$parent": ["base", "../%s/decoy2" % outname], "x": 1}]))
    elif attack == "symlink_rel":
        os.symlink("../%s/decoy.yaml" % outname, inp)
    elif attack == "symlink_abs":
        os.symlink(os.path.join(out, "decoy.yaml"), inp)
    elif attack == "symlink_chain":
        os.symlink("hop.yaml", inp)
        os.symlink("../%s/decoy.yaml" % outname, os.path.join(root, "hop.yaml"))
    elif attack == "dir_symlink":
        os.symlink("../" + outname, os.path.join(root, "d"))
        target = "d/decoy.yaml"
    elif attack == "filename_chain_link":
        # in.child.yaml inherits from in.* by filename; in.yaml is a link that leaves the root
        os.symlink("../%s/decoy.yaml" % outname, inp)
        open(os.path.join(root, "in.child.yaml"), "w").write(gen.emit("yaml", [{"child": 1}]))
        target = "in.child.yaml"
    elif attack == "input_outside":
        target = os.path.join(out, "decoy.yaml")
    elif attack == "input_dotdot":
        target = "../%s/decoy.yaml" % outname
    elif attack == "link_inside_rel":
        os.symlink("base.yaml", inp)
        reaches = False
    elif attack == "link_inside_abs":
        os.symlink(os.path.join(root, "base.yaml"), inp)      # spelled absolute, although it stays inside
        reaches = None                                          # the model decides (os.Root refuses absolute targets)
    elif attack == "link_inside_chain":
        os.symlink("hop.yaml", inp)
        os.symlink("sub/../base.yaml", os.path.join(root, "hop.yaml"))
        reaches = False
    elif attack == "dir_link_inside":
        open(os.path.join(root, "sub", "x.yaml"), "w").write(gen.emit("yaml", [{"subx": 1}]))
        os.symlink("sub", os.path.join(root, "dl"))
        target = "dl/x.yaml"
        reaches = False
    elif attack == "benign":
        open(inp, "w").write(gen.emit("yaml", [{"$parent": "base", "x": 1}]))
        reaches = False
    elif attack == "benign_chain":
        target = "base.top.yaml"
        reaches = False
    return root, out, target, reaches


def invocations(root, out, target, spelling):
    """(cwd, argv) for one root spelling"""
    abs_target = target if os.path.isabs(target) else os.path.join(root, target)
    if spelling == "sub_from_parent":
        return os.path.dirname(root), ["-r", "root", os.path.relpath(abs_target, os.path.dirname(root))]
    if spelling == "dot":
        return root, ["-r", ".", os.path.relpath(abs_target, root)]
    if spelling == "dotdot":
        return os.path.join(root, "sub"), ["-r", "..", os.path.relpath(abs_target, os.path.join(root, "sub"))]
    if spelling == "abs":
        return root, ["-r", root, abs_target]
    raise ValueError(spelling)


def comps(p):
    return [c for c in os.path.normpath(p).split("/") if c]


def snapshot_fs(base):
    """the directory tree as Model.Root's table: path components -> dir | file content | link (spelled absolute?, target)"""
    out = []
    for dirpath, dirnames, filenames in os.walk(base, followlinks=False):
        for n in list(dirnames) + list(filenames):
            p = os.path.join(dirpath, n)
            if os.path.islink(p):
                t = os.readlink(p)
                out.append([comps(p), ["link", os.path.isabs(t), comps(t if os.path.isabs(t) else os.path.join(dirpath, t))]])
            elif os.path.isdir(p):
                out.append([comps(p), ["dir"]])
            else:
                out.append([comps(p), ["file", open(p, errors="replace").read()]])
    out.append([comps(base), ["dir"]])
    return out


DECOY_RE = re.compile(r'open(?:at)?\((?:[^,]*, )?"([^"]*decoy[^"]*)"[^)]*\)\s*=\s*(-?\d+)')


def traced(ctx, cwd, args):
    tr = os.path.join(cwd, "..", "trace.txt") if False else os.path.join(ctx.work, "trace-%d.txt" % (hash((cwd, tuple(args))) % 10**9))
    cmd = ["strace", "-f", "-e", "trace=open,openat", "-o", tr, os.path.join(ctx.bindir, "bkl"), "-f", "json"] + args
    env = core.cover_env({"PATH": "/usr/bin:/bin", "HOME": cwd, "TMPDIR": ctx.work})
    try:
        p = subprocess.run(cmd, cwd=cwd, env=env, stdout=subprocess.PIPE, stderr=subprocess.PIPE, timeout=60)
        rc, out, err = p.returncode, p.stdout, p.stderr.decode("utf-8", "replace")
    except subprocess.TimeoutExpired:
        return -9, b"", "TIMEOUT", []
    opened = []
    try:
        for line in open(tr, errors="replace"):
            m = DECOY_RE.search(line)
            if m and int(m.group(2)) >= 0 and "O_DIRECTORY" not in line:
                opened.append(m.group(1))
        os.unlink(tr)
    except FileNotFoundError:
        pass
    return rc, out, err, opened


def nested_roots_pass(ctx, rng, n, dist):
    """a tree r/a/b with files at every level and a decoy next to r; 1-3 SetRoot calls (narrowing, widening, sideways,
    repeated), then one file merged: the library must refuse exactly where Model.Root.set_roots does, and what it reads
    must be what root_open under the final root returns"""
    import yaml
    base = os.path.join(ctx.work, "nested")
    shutil.rmtree(base, ignore_errors=True)
    os.makedirs(os.path.join(base, "r", "a", "b"))
    os.makedirs(os.path.join(base, "r2"))
    files = {"r/top.yaml": {"top": 1}, "r/a/mid.yaml": {"mid": 1}, "r/a/b/in.yaml": {"in": 1}, "r2/decoy.yaml": {"secret": "S1"}, "r/a/b/deep.yaml": {"deep": 1}}
    for rel, doc in files.items():
        open(os.path.join(base, rel), "w").write(gen.emit("yaml", [doc]))
    os.symlink("../top.yaml", os.path.join(base, "r", "a", "uplink.yaml"))       # a link that leaves r/a but stays in r
    fsv = snapshot_fs(base)
    roots_pool = ["r", "r/a", "r/a/b", ".", "r2", "r/a/..", "r/", "./r/a"]
    file_pool = ["r/top.yaml", "r/a/mid.yaml", "r/a/b/in.yaml", "r/a/b/deep.yaml", "r2/decoy.yaml", "r/a/uplink.yaml"]
    cases, mcases = [], []
    for i in range(n):
        r = rng.fork("n%d" % i)
        roots = [r.pick(roots_pool) for _ in range(1 + r.below(3))]
        f = r.pick(file_pool)
        cases.append(["setroots", base, roots, f])
        mcases.append(["setroots", fsv, comps(base), [comps(os.path.join(base, x)) for x in roots], comps(os.path.join(base, f))])
    im = ctx.impl(cases)
    mo = ctx.model(mcases)
    for c, a, m in zip(cases, im, mo):
        ma = "setroot-err" if (isinstance(m, list) and m and m[0] == "setroot-err") else ("ok" if m[0] == "ok" else "err")
        aa = "setroot-err" if (isinstance(a, list) and a and a[0] == "setroot-err") else ("ok" if isinstance(a, list) and a and a[0] == "ok" else "err")
        k = "nested_" + ma
        dist[k] = dist.get(k, 0) + 1
        why = None
        # a leak: the library read a file that is not under the FIRST root that was set (or the decoy), where the model refuses
        first = comps(os.path.join(base, c[2][0]))
        under_first = comps(os.path.join(base, c[3]))[:len(first)] == first
        leak = aa == "ok" and ma != "ok" and (("S1" in str(a[1])) or not under_first)
        if leak:
            why = "after SetRoot %r the library read %s, which is outside the first root (the model: %s)" % (c[2], c[3], ma)
        elif aa != ma:
            why = "SetRoot %r then %s: library %s, Model.Root %s" % (c[2], c[3], aa, ma)
        elif aa == "ok":
            want = [d for d in yaml.safe_load_all(m[1])]
            got = core.parse_json_docs(a[1])
            if not veq(got, want):
                why = "SetRoot %r then %s: library reads %s, the model %s" % (c[2], c[3], hist.short(got), hist.short(want))
        if why and len(ctx.violations) < 5:
            ctx.violations.append({"name": "nested-" + core.vhash(c[2:]), "property": "C18", "kind": "failing-input" if leak else "no-failing-input-found",
                                   "theorem": "C18_nested_roots (Properties/C18.v) is about Model.Root.set_roots/root_open; correspondence with Parser.SetRoot broke",
                                   "why": why, "roots": c[2], "file": c[3], "class": "c18-nested-roots"})
    return n


def reads_before_roots_pass(ctx, rng, n, dist):
    """implementation only: files merged by the same parser BEFORE SetRoot (a decoy outside the later root among them) must not
    change what is refused afterwards - the final merge of a file whose $parent leaves the root succeeds or fails exactly as
    on a parser that read nothing before (that case is the one compared with Model.Root in nested_roots_pass)"""
    base = os.path.join(ctx.work, "prereads")
    shutil.rmtree(base, ignore_errors=True)
    os.makedirs(os.path.join(base, "r", "a", "b"))
    os.makedirs(os.path.join(base, "r2"))
    files = {"r/top.yaml": {"top": 1}, "r/a/mid.yaml": {"mid": 1}, "r2/decoy.yaml": {"secret": "S1"},
             "r/a/esc.yaml": {"$parent": "../../r2/decoy", "e": 1}, "r/a/b/up.yaml": {"$parent": "../../top", "u": 1},
             "r/a/b/side.yaml": {"$parent": "../mid", "s": 1}, "r/a/b/in.yaml": {"in": 1}}
    for rel, doc in files.items():
        open(os.path.join(base, rel), "w").write(gen.emit("yaml", [doc]))
    pre_pool = [["r2/decoy.yaml"], ["r/top.yaml"], ["r2/decoy.yaml", "r/top.yaml"], ["r/a/mid.yaml"], ["r/a/esc.yaml"], ["r/a/b/up.yaml"]]
    cases = []
    for i in range(n):
        r = rng.fork("p%d" % i)
        roots = [r.pick(["r", "r/a", "r/a/b", "."]) for _ in range(1 + r.below(2))]
        f = r.pick(["r/a/esc.yaml", "r/a/b/up.yaml", "r/a/b/side.yaml", "r/a/b/in.yaml"])
        pre = r.pick(pre_pool)
        cases.append(["setroots-after-reads", base, pre, roots, f])
        cases.append(["setroots-after-reads", base, [], roots, f])
    im = ctx.impl(cases)
    for j in range(0, len(cases), 2):
        c, a, b = cases[j], im[j], im[j + 1]
        k = "prereads_" + (b[0] if isinstance(b, list) and b else "?")
        dist[k] = dist.get(k, 0) + 1
        if isinstance(a, list) and a and a[0] == "pre-err":
            continue
        # only the widening direction is a leak: documents already in the parser may make the final merge fail for reasons of
        # their own (the same file merged twice, say), which is no concern of this property
        if a == ["merge-ok"] and b == ["merge-err"] and len(ctx.violations) < 5:
            ctx.violations.append({"name": "prereads-" + core.vhash(c[2:]), "property": "C18", "kind": "failing-input",
                                   "why": "after reading %r and then SetRoot %r, merging %s gives %s; a parser that read nothing before gives %s"
                                          % (c[2], c[3], c[4], a, b), "pre": c[2], "roots": c[3], "file": c[4], "class": "c18-reads-before-roots"})
    return n


def run(ctx):
    n = ctx.n(40, 400)
    rng = core.Rng(ctx.seed)
    combos = []
    for a in ATTACKS:
        for s in ["sub_from_parent", "dot", "dotdot", "abs"]:
            combos.append((a, s))
    picks = combos if ctx.tier == "thorough" else rng.shuffle(combos)[:n]
    # always include every attack at least once
    have = {a for a, _ in picks}
    for a in ATTACKS:
        if a not in have:
            picks.append((a, "sub_from_parent"))
    strace_ok = shutil.which("strace") is not None
    dist = {"strace": strace_ok}
    evals = 0
    seen = set()

    def outname_of(i):
        # the directory outside the root: half the time its name extends the root's name (root2, root-old, roots, rootsub)
        return OUTNAMES[0] if i % 2 == 0 else OUTNAMES[1 + (i // 2) % (len(OUTNAMES) - 1)]

    def one(i):
        a, s = picks[i]
        base = os.path.join(ctx.work, "t%d" % i)
        res = []
        for variant in ("original", "rewritten", "removed"):
            root, out, target, reaches = build(base, a, rng, variant, outname_of(i))
            cwd, args = invocations(root, out, target, s)
            res.append(traced(ctx, cwd, args))
        # control: with the whole file system as root the decoy may be read (shows the attack is real)
        root, out, target, reaches = build(base, a, rng, "original", outname_of(i))
        cwd, args = invocations(root, out, target, s)
        mcase = None
        if a in DIRECT:
            mcase = ["rootopen", snapshot_fs(base), comps(os.path.join(cwd, args[1])), comps(os.path.join(cwd, args[2]))]
        ctl = core.cli(os.path.join(ctx.bindir, "bkl"), ["-f", "json"] + args[2:], cwd)
        shutil.rmtree(base, ignore_errors=True)
        return a, s, reaches, res, ctl, outname_of(i), mcase
    results = core.pmap(one, range(len(picks)), workers=8)
    midx = [k for k, r in enumerate(results) if r[6] is not None]
    mres = dict(zip(midx, ctx.model([results[k][6] for k in midx]))) if midx else {}
    dist["compared_with_root_model"] = len(midx)
    for ri, (a, s, reaches, res, ctl, outname, mcase) in enumerate(results):
        dist["outside_named_" + outname] = dist.get("outside_named_" + outname, 0) + 1
        evals += 4
        k = a + ("_ok" if res[0][0] == 0 else "_refused")
        dist[k] = dist.get(k, 0) + 1
        why = None
        st = {(r[0], r[1]) for r in res}
        if len(st) != 1:
            why = "status/stdout depend on files outside the root: " + "; ".join("rc=%d out=%r" % (r[0], r[1][:80]) for r in res)
        for r in res:
            if r[3]:
                why = "a file outside the root was opened: %r" % r[3][:3]
        if ri in mres:
            m = mres[ri]
            mok = isinstance(m, list) and m and m[0] == "ok"
            dist["root_model_" + ("opens" if mok else "refuses")] = dist.get("root_model_" + ("opens" if mok else "refuses"), 0) + 1
            model_why = None
            if mok != (res[0][0] == 0):
                model_why = "bkl -r %s where Model.Root.root_open %s (%s)" % ("succeeds" if res[0][0] == 0 else "fails: " + res[0][2].strip()[-120:], "opens the path" if mok else "refuses it", m[:2])
            elif mok:
                import yaml
                want = [d for d in yaml.safe_load_all(m[1])]
                got = core.parse_json_docs(res[0][1].decode("utf-8", "replace"))
                if not veq(got, want):
                    model_why = "bkl -r prints %s, the file the model opens holds %s" % (hist.short(got), hist.short(want))
            if model_why and why is None and len(ctx.violations) < 5:
                # the sandbox model and the code differ; whether anything outside the root was read is judged by the oracles below
                ctx.violations.append({"name": "rootmodel-%s-%s-%s" % (a, s, outname), "property": "C18", "kind": "no-failing-input-found",
                                       "theorem": "C18_reads_only_inside / C18_outside_irrelevant (Properties/C18.v) are about Model.Root.root_open; its correspondence with bkl -r broke",
                                       "why": model_why, "attack": a, "root_spelling": s, "outside_name": outname, "class": "c18-root-model"})
        if reaches and res[0][0] == 0 and b"S1" in res[0][1]:
            why = "decoy content appears in the output"
        if reaches is True and res[0][0] == 0 and a not in ("benign", "benign_chain"):
            why = why or "an escape attempt succeeded (rc=0): stdout %r" % res[0][1][:100]
        if reaches is False and res[0][0] != 0:
            why = "a layout that stays inside the root was refused: " + res[0][2][-200:]
        if ctl[0] == 0 and reaches and b"S1" in ctl[1]:
            dist["control_reads_decoy_without_root"] = dist.get("control_reads_decoy_without_root", 0) + 1
        if reaches:
            seen.add((a, s))
        if why and len(ctx.violations) < 5:
            ctx.violations.append({"name": "case-%s-%s-%s" % (a, s, outname), "property": "C18", "kind": "failing-input", "why": why, "attack": a, "root_spelling": s, "outside_name": outname,
                                   "runs": [{"rc": r[0], "stdout": r[1].decode("utf-8", "replace")[:300], "stderr": r[2][-200:], "opened": r[3]} for r in res],
                                   "class": "c18-escape"})
    # library: sequences of nested SetRoot calls, then a file, against Model.Root.set_roots / root_open
    evals += nested_roots_pass(ctx, rng.fork("nested"), ctx.n(40, 400), dist)
    evals += reads_before_roots_pass(ctx, rng.fork("prereads"), ctx.n(30, 300), dist)
    # library: nested SetRoot through the harness (fixed scenarios)
    lib = ctx.impl([["setroot", os.path.join(ctx.work, "lib")]])
    dist["nested_setroot"] = core.to_jsonable(lib[0])
    if isinstance(lib[0], list) and lib[0] and lib[0][0] == "violation" and len(ctx.violations) < 5:
        ctx.violations.append({"name": "lib-setroot", "property": "C18", "kind": "failing-input", "why": "nested SetRoot: %r" % (lib[0],), "class": "c18-escape"})
    return {"evaluations": evals, "distinct_nontrivial": len(seen), "rule": RULE, "samples": [list(p) for p in picks[:4]],
            "distribution": dist, "disagreements_checked": len(ctx.violations)}


def replay(ctx, payload):
    a, s = payload["attack"], payload["root_spelling"]
    base = os.path.join(ctx.work, "replay")
    rng = core.Rng(1)
    bad = 0
    outs = []
    for variant in ("original", "rewritten", "removed"):
        root, out, target, reaches = build(base, a, rng, variant, payload.get("outside_name", "outside"))
        cwd, args = invocations(root, out, target, s)
        r = traced(ctx, cwd, args)
        print(variant, r)
        outs.append((r[0], r[1]))
        bad += 1 if r[3] else 0
    return 1 if bad or len(set(outs)) != 1 else 0


def matches_known(k, v):
    return False
