# C20 — bklb/kubectl-bkl rewrite only file arguments; all else passes through.
import json
import os
import shutil
import stat

from .. import core, dgen, gen, hist
from ..core import veq

CLI = ("bkl", "bklb")
HARNESS = False
ASSUMPTIONS = [
    "theorems are about Model.Wrapper.wrap (argument scan and substitution) with FileMatch/evaluation as parameters; tie to wrapper/wrapper.go and "
    "cmd/bklb is this run's comparison of the argv and file contents seen by a recording stand-in program",
    "exec.LookPath, os.CreateTemp and syscall.Exec are the OS; the stand-in is a shell script first on PATH",
]
RULE = ("argument vectors of 0-8 arguments mixing flags, --opt=value, plain words, names of non-bkl files, existing layer files (with parents), "
        "virtual names resolving to a layer of another format, unsupported extensions, and layers whose evaluation fails; bklb run through a "
        "symlink 'recb' with a recording stand-in 'rec' on PATH; compared with the model: same length and order, non-file arguments byte for "
        "byte, file arguments replaced by a file whose content parses to bkl's evaluation in the named format, and no exec when a file fails; "
        "non-trivial = at least one file argument and one non-file argument; distinct by hash")

STANDIN = """#!/bin/sh
# recording stand-in: dumps argv (NUL separated) and a copy of every argument that names a file
out="$REC_OUT"
: > "$out/argv"
i=0
for a in "$@"; do
  printf '%s\\000' "$a" >> "$out/argv"
  if [ -f "$a" ]; then cp "$a" "$out/arg$i"; fi
  i=$((i+1))
done
echo ran > "$out/ran"
"""


def setup_dir(ctx, d, rng):
    """layer files in d; returns the table name -> (kind, expected docs or None)"""
    os.makedirs(d)
    files = {}
    base = {"a": 1, "b": {"c": "x"}, "l": [1, 2]}
    child = {"b": {"d": True}, "l": [3]}
    open(os.path.join(d, "svc.yaml"), "w").write(gen.emit("yaml", [base]))
    open(os.path.join(d, "svc.prod.json"), "w").write(gen.emit("json", [child]))
    open(os.path.join(d, "conf.toml"), "w").write(gen.emit("toml", [{"k": "v", "n": 5}]))
    open(os.path.join(d, "multi.yaml"), "w").write(gen.emit("yaml", [{"x": 1}, {"y": 2}]))
    open(os.path.join(d, "bad.yaml"), "w").write(gen.emit("yaml", [{"a": "$required"}]))
    open(os.path.join(d, "broken.json"), "w").write("{")
    open(os.path.join(d, "orphan.child.yaml"), "w").write(gen.emit("yaml", [{"a": 1}]))
    open(os.path.join(d, "notes.txt"), "w").write("hello\n")
    open(os.path.join(d, "data.csv"), "w").write("1,2\n")
    os.makedirs(os.path.join(d, "sub"))
    open(os.path.join(d, "sub", "deep.json"), "w").write(gen.emit("json", [{"deep": [1]}]))
    merged = {"a": 1, "b": {"c": "x", "d": True}, "l": [1, 2, 3]}
    good = {
        "svc.yaml": [base], "svc.json": [base], "svc.toml": [base], "svc.yml": [base],
        "svc.prod.json": [merged], "svc.prod.yaml": [merged], "svc.prod.toml": [merged],
        "conf.toml": [{"k": "v", "n": 5}], "conf.json": [{"k": "v", "n": 5}], "conf.yaml": [{"k": "v", "n": 5}],
        "multi.yaml": [{"x": 1}, {"y": 2}], "multi.json": [{"x": 1}, {"y": 2}],
        "sub/deep.json": [{"deep": [1]}], "sub/deep.yaml": [{"deep": [1]}], "./svc.yaml": [base], "svc.json-pretty": [base],
    }
    failing = ["bad.yaml", "bad.json", "broken.json", "broken.yaml", "orphan.child.yaml", "orphan.child.json"]
    plain = ["-f", "--flag", "--opt=value", "-o=svc.yaml", "--file=svc.yaml", "word", "apply", "notes.txt", "data.csv", "svc", "svc.", "svc.xml",
             "missing.yaml", "nothere.json", "", "-", "a b", "svc.yaml ", "--", "é", "sub", "sub/", "conf.ini", "svc.prod.x.yaml", "orphan.yaml"]
    return good, failing, plain


def gen_args(rng, good, failing, plain):
    n = rng.below(9)
    args = []
    for _ in range(n):
        k = rng.below(10)
        if k < 4:
            args.append(rng.pick(sorted(good)))
        elif k < 5 and rng.chance(1, 3):
            args.append(rng.pick(failing))
        else:
            args.append(rng.pick(plain))
    return args


def parse_any(fmt, text):
    r = hist.py_decode(fmt, text)
    return r


def run_case(ctx, idx, args, good, failing, d):
    recdir = os.path.join(ctx.work, "rec%s" % idx)
    shutil.rmtree(recdir, ignore_errors=True)
    os.makedirs(recdir)
    tmp = os.path.join(recdir, "tmp")
    os.makedirs(tmp)
    env = core.cover_env({"PATH": os.path.join(ctx.work, "path") + ":/usr/bin:/bin", "REC_OUT": recdir, "TMPDIR": tmp})
    rc, out, err = core.cli(os.path.join(ctx.work, "path", "recb"), args, d, env=env)
    r = {"rc": rc, "err": err[-200:], "ran": os.path.exists(os.path.join(recdir, "ran"))}
    if r["ran"]:
        raw = open(os.path.join(recdir, "argv"), "rb").read().split(b"\0")[:-1]
        r["argv"] = [x.decode("utf-8", "surrogateescape") for x in raw]
        r["contents"] = {}
        for i in range(len(r["argv"])):
            p = os.path.join(recdir, "arg%d" % i)
            if os.path.exists(p):
                r["contents"][i] = open(p, "rb").read().decode("utf-8", "replace")
    return r


def expected(args, good, failing):
    """the model's answer, spelled out: ('fail',) or ('exec', [('same', a) | ('file', fmt, docs)])"""
    out = []
    for a in args:
        if a in failing:
            return ("fail",)
        if a in good:
            out.append(("file", a.rsplit(".", 1)[1].replace("json-pretty", "json"), good[a]))
        else:
            out.append(("same", a))
    return ("exec", out)


def judge(args, r, exp, d):
    if exp[0] == "fail":
        if r["ran"]:
            return "the wrapped program ran although a file argument fails to evaluate"
        if r["rc"] == 0:
            return "wrapper exit status 0 although a file argument fails to evaluate"
        return None
    if not r["ran"]:
        return "the wrapped program was not run: rc=%s %s" % (r["rc"], r["err"].strip())
    if len(r["argv"]) != len(args):
        return "argument count changed: %r -> %r" % (args, r["argv"])
    for i, (a, e) in enumerate(zip(args, exp[1])):
        got = r["argv"][i]
        if e[0] == "same":
            if got != a:
                return "argument %d %r was changed to %r" % (i, a, got)
        else:
            if got == a:
                return "file argument %d %r was passed through unevaluated" % (i, a)
            if i not in r["contents"]:
                return "argument %d %r was replaced by %r which is not a file" % (i, a, got)
            dec = hist.py_decode(e[1], r["contents"][i])
            if dec is None or dec[0] != "ok" or not veq(dec[1], e[2]):
                return "file for argument %d %r does not hold its evaluated layers in format %s: %r" % (i, a, e[1], r["contents"][i][:200])
    return None


def model_answer(ctx, cases, good, failing):
    """ask the Coq model of the wrapper: tables say which arguments FileMatch resolves and whether they evaluate"""
    mcases = []
    for args in cases:
        table = {}
        for a in set(args):
            if a in failing:
                table[a] = ["fail"]
            elif a in good:
                table[a] = ["file", a.rsplit(".", 1)[1].replace("json-pretty", "json")]
        mcases.append(["wrap", table, list(args)])
    return ctx.model(mcases)


def run(ctx):
    n = ctx.n(300, 5000)
    rng = core.Rng(ctx.seed)
    d = os.path.join(ctx.work, "files")
    good, failing, plain = setup_dir(ctx, d, rng)
    pd = os.path.join(ctx.work, "path")
    os.makedirs(pd)
    with open(os.path.join(pd, "rec"), "w") as f:
        f.write(STANDIN)
    os.chmod(os.path.join(pd, "rec"), 0o755)
    os.symlink(os.path.join(ctx.bindir, "bklb"), os.path.join(pd, "recb"))
    os.symlink(os.path.join(ctx.bindir, "bklb"), os.path.join(pd, "nosuchprogb"))
    os.symlink(os.path.join(ctx.bindir, "bklb"), os.path.join(pd, "plain"))
    # sanity of the table itself: bkl must agree that 'good' names evaluate to the listed documents
    bkl = os.path.join(ctx.bindir, "bkl")
    for a, docs in sorted(good.items()):
        rc, out, err = core.cli(bkl, ["-f", "json", a], d)
        if rc != 0 or not veq(core.parse_json_docs(out.decode()), docs):
            ctx.violations.append({"name": "table-" + a.replace("/", "_"), "property": "C20", "kind": "no-failing-input-found",
                                   "why": "bkl does not evaluate %s to the documents the check expects (rc=%d %s)" % (a, rc, err[-200:]), "class": "c20-table"})
    cases = [gen_args(rng.fork("case%d" % i), good, failing, plain) for i in range(n)]
    cases[:0] = [[], ["svc.prod.yaml"], ["apply", "-f", "svc.prod.json", "--opt=value"]]
    res = core.pmap(lambda i: run_case(ctx, i, cases[i], good, failing, d), range(len(cases)))
    mo = model_answer(ctx, cases, good, failing)
    seen, nt = set(), 0
    dist = {"exec": 0, "abort": 0, "file_args": 0, "plain_args": 0}
    for args, r, m in zip(cases, res, mo):
        exp = expected(args, good, failing)
        why = judge(args, r, exp, d)
        # the Coq model of the wrapper must give the same plan
        plan = ["fail"] if exp[0] == "fail" else ["exec", [["same", e[1]] if e[0] == "same" else ["file", e[1]] for e in exp[1]]]
        if why is None and not veq(m, plan):
            why = "model of the wrapper disagrees with the check's expectation: %r vs %r" % (m, plan)
        dist["exec" if exp[0] == "exec" else "abort"] += 1
        nf = sum(1 for a in args if a in good)
        dist["file_args"] += nf
        dist["plain_args"] += len(args) - nf
        h = core.vhash(args)
        if h not in seen and nf >= 1 and len(args) - nf >= 1:
            seen.add(h)
            nt += 1
        if why and len(ctx.violations) < 5:
            ctx.violations.append({"name": "case-" + h, "property": "C20", "kind": "failing-input", "why": why, "args": args,
                                   "observed": {k: (v if k != "contents" else {str(i): c for i, c in v.items()}) for k, v in r.items()},
                                   "class": "c20-disagreement"})
    # name rule against Model.Wrapper.wrapped_name: the link's name decides which program is run
    names = ["recb", "toolb", "xbb", "plain", "kubectl-x", "ab", "zb.b"]
    mo_names = ctx.model([["wrappedname", nm] for nm in names])
    for nm, m in zip(names, mo_names):
        link = os.path.join(pd, nm)
        if not os.path.lexists(link):
            os.symlink(os.path.join(ctx.bindir, "bklb"), link)
        want = m[1] if isinstance(m, list) and m and m[0] == "run" else None
        recdir = os.path.join(ctx.work, "recname_" + nm)
        shutil.rmtree(recdir, ignore_errors=True)
        os.makedirs(os.path.join(recdir, "tmp"))
        if want is not None and not os.path.lexists(os.path.join(pd, want)):
            with open(os.path.join(pd, want), "w") as f:
                f.write(STANDIN + 'basename "$0" > "$out/name"\n')
            os.chmod(os.path.join(pd, want), 0o755)
        rc, out, err = core.cli(link, ["x"], d, env={"PATH": pd + ":/usr/bin:/bin", "REC_OUT": recdir, "TMPDIR": os.path.join(recdir, "tmp")})
        ran = os.path.exists(os.path.join(recdir, "ran"))
        dist["name_rule_cases"] = dist.get("name_rule_cases", 0) + 1
        why = None
        if want is None and (ran or rc == 0 or "Usage" not in err):
            why = "bklb under the name %r (not ending in b) did not print usage and fail" % nm
        elif want is not None and want != "rec" and not ran:
            why = "bklb under the name %r did not run %r (rc=%d %s)" % (nm, want, rc, err[-100:])
        elif want is not None and ran and os.path.exists(os.path.join(recdir, "name")) and open(os.path.join(recdir, "name")).read().strip() != want:
            why = "bklb under the name %r ran %r, the model says %r" % (nm, open(os.path.join(recdir, "name")).read().strip(), want)
        if why and len(ctx.violations) < 5:
            ctx.violations.append({"name": "name-" + nm, "property": "C20", "kind": "failing-input", "why": why, "class": "c20-name"})
    # name rule: run as a name not ending in b
    rc, out, err = core.cli(os.path.join(pd, "plain"), ["x"], d, env={"PATH": pd + ":/usr/bin:/bin"})
    if rc == 0 or "Usage" not in err:
        ctx.violations.append({"name": "name-rule", "property": "C20", "kind": "failing-input", "why": "bklb run under a name not ending in b did not print usage and fail", "class": "c20-name"})
    return {"evaluations": len(cases), "distinct_nontrivial": nt, "rule": RULE, "samples": cases[3:6], "distribution": dist,
            "disagreements_checked": len(ctx.violations)}


def replay(ctx, payload):
    print("replay: re-run ./check C20; argv was", payload.get("args"))
    return 0


def matches_known(k, v):
    return False
