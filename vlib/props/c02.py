# C02 — stream layering targets the right documents and treats each independently.
from ..core import veq
from .. import core, dgen, gen, hist, histprop

CLI = ("bkl",)
HARNESS = True
ASSUMPTIONS = [
    "theorems are about Model.Parser.step/merge_document; tie to parser.go/document.go/merge.go is this run's history comparison",
    "after a failed MergeDocument the Go state is partially updated; histories are compared up to and including the first error",
]
RULE = ("base stream of 1-4 documents, then 1-3 layers of 1-3 documents whose parents are all documents of the previous layer "
        "(as file.setParents does); layer documents derived from a current document, with document-level $match (sub-pattern, {}, "
        "$invert, no match, null) on a third of them; Documents() compared after every MergeDocument, OutputDocuments at the end; "
        "a part of the same streams is also written as layer files (a.<f>, a.b.<f>, ...) and run through the real binary against the file-layer model; "
        "non-trivial = some layer document was merged into >= 2 targets or used $match; distinct by hash")


def gen_case(rng):
    nbase = 1 + rng.below(4)
    ops = []
    cur = []          # python estimate of the merged documents (steers generation only)
    idx = 0
    prev = []
    for i in range(nbase):
        d = dgen.base_tree(rng, 2)
        d["kind"] = rng.pick(["a", "b"])
        if rng.chance(1, 2):
            d["id"] = i
        ops.append(["new", "base|doc%d" % i, [], d])
        ops.append(["merge", idx])
        prev.append(idx)
        cur.append(d)
        idx += 1
    ops.append(["docs"])
    for layer in range(1 + rng.below(3)):
        these = []
        for j in range(1 + rng.below(3)):
            tgt = rng.pick(cur) if cur else {}
            d = dgen.derive(rng, tgt) if isinstance(tgt, dict) else {"n": 1}
            if not isinstance(d, dict):
                d = {"n": d}
            d.pop("kind", None) if rng.chance(2, 3) else None
            r = rng.below(12)
            if r < 2:
                d["$match"] = {"kind": rng.pick(["a", "b"])}
            elif r < 3:
                d["$match"] = {}
            elif r < 4:
                d["$match"] = None
            elif r < 5:
                d["$match"] = {"kind": "a", "$invert": True}
            elif r < 6:
                d["$match"] = {"id": rng.below(4)}
            elif r < 7:
                d["$match"] = {"kind": "zzz"}
            if rng.chance(1, 10):
                d["$replace"] = True
            ops.append(["new", "l%d|doc%d" % (layer, j), list(prev), d])
            these.append(idx)
            idx += 1
        for t in these:
            ops.append(["merge", t])
            ops.append(["docs"])
        prev = these
        # rough tracking
        for o in ops:
            pass
    ops.append(["out"])
    return ["history", None, ops]


def nontrivial(c, a, b):
    ops = c[2]
    nbase = 0
    for o in ops:
        if o[0] == "new" and not o[2]:
            nbase += 1
    uses_match = any(o[0] == "new" and isinstance(o[3], dict) and "$match" in o[3] for o in ops)
    return nbase >= 2 or uses_match


def dist_fn(dist, c, a, b):
    ops = c[2]
    nb = sum(1 for o in ops if o[0] == "new" and not o[2])
    dist.setdefault("base_docs", {})
    dist["base_docs"][str(nb)] = dist["base_docs"].get(str(nb), 0) + 1
    for o in ops:
        if o[0] == "new" and isinstance(o[3], dict) and "$match" in o[3]:
            m = o[3]["$match"]
            k = "match_null" if m is None else ("match_empty" if m == {} else ("match_invert" if isinstance(m, dict) and "$invert" in m else "match_pat"))
            dist[k] = dist.get(k, 0) + 1
    if isinstance(b, list):
        errs = [o[1][1] for o in b if o[0] == "merge" and o[1][0] == "err"]
        dist["histories_with_merge_error"] = dist.get("histories_with_merge_error", 0) + (1 if errs else 0)
        for e in errs:
            dist["merge_err_" + e] = dist.get("merge_err_" + e, 0) + 1
        ndocs = [len(o[1]) for o in b if o[0] == "docs"]
        if ndocs and ndocs[-1] > nb:
            dist["appended_docs"] = dist.get("appended_docs", 0) + 1


def gen_case_files(rng):
    """streams shaped for the file path: bigger bases, several documents per layer, appended documents in the middle"""
    nbase = rng.pick([1, 2, 3, 3, 4, 5, 6])
    ops, idx, prev = [], 0, []
    for i in range(nbase):
        d = {"kind": rng.pick(["a", "b"]), "id": i, "v": rng.pick([1, "s", [1], {"k": 1}])}
        ops.append(["new", "b%d" % i, [], d])
        prev.append(idx)
        idx += 1
    for layer in range(2 + rng.below(2)):
        these = []
        for j in range(1 + rng.below(3)):
            d = {rng.pick(["n", "m", "t%d" % layer]): rng.pick([layer, "x", {"q": layer}, [layer]])}
            r = rng.below(8)
            if r < 2:
                d["$match"] = None
                d["name"] = "extra%d_%d" % (layer, j)
            elif r < 3:
                d["$match"] = {"kind": rng.pick(["a", "b"])}
            elif r < 4:
                d["$match"] = {"id": rng.below(nbase)}
            ops.append(["new", "l%d_%d" % (layer, j), list(prev), d])
            these.append(idx)
            idx += 1
        prev = these
    return ["history", None, ops]


def layers_of(case):
    """the history as layer files: base stream, then one file per layer (parents = all documents of the previous file)"""
    layers, cur, cur_par = [], [], None
    for o in case[2]:
        if o[0] != "new":
            continue
        par = tuple(o[2])
        if cur and par != cur_par:
            layers.append(cur)
            cur = []
        cur_par = par
        cur.append(o[3])
    if cur:
        layers.append(cur)
    return layers


def run_files(ctx, cases, rng):
    """the same streams applied through files and the real binary, compared with the file-layer model"""
    import os
    import shutil
    from . import c03
    fmts, _ = hist.formats_from_source()
    names = ["a", "a.b", "a.b.c", "a.b.c.d", "a.b.c.d.e"]
    jobs = []
    for ci, c in enumerate(cases):
        ls = layers_of(c)
        if len(ls) > len(names):
            continue
        files = {}
        r = rng.fork("f%d" % ci)
        for li, docs in enumerate(ls):
            f = r.pick(["json", "yaml"]) if any(gen.has_null(d) or not isinstance(d, dict) for d in docs) else r.pick(["json", "yaml", "toml"])
            files["%s.%s" % (names[li], f)] = ("reg", docs)
        top = sorted(files, key=len)[-1]
        jobs.append((ci, {"files": files, "opts": {"inputs": [top], "f": "json", "P": False}, "kind": "stream"}))

    def one(j):
        ci, lay = jobs[j]
        d = os.path.join(ctx.work, "fs%d" % j)
        c03.write_layout(d, lay, rng.fork("w%d" % j))
        res = c03.run_bkl(ctx, d, lay["opts"])
        shutil.rmtree(d, ignore_errors=True)
        return res
    results = core.pmap(one, range(len(jobs)))
    mo = ctx.model(c03.fill_tables(ctx, [c03.model_case(l, fmts) for _, l in jobs]))
    bad = 0
    for (ci, lay), res, m in zip(jobs, results, mo):
        why = c03.judge(lay, res, m)
        if why and len(ctx.violations) < 5:
            bad += 1
            ctx.violations.append({"name": "files-%d" % ci, "property": "C02", "kind": "failing-input",
                                   "why": "through layer files: " + why, "layout": {a: [b[0], core.to_jsonable(b[1])] for a, b in lay["files"].items()},
                                   "opts": lay["opts"], "class": "c02-disagreement"})
    return len(jobs)


def singleton_pass(ctx, rng, n, dist):
    """implementation only: "every selected document receives the result it would receive if it were the only document in
    the stream": a base stream of 2-4 documents under 1-3 layers whose documents carry no $match (so each merges into every
    document); the i-th output document must equal the output of the same layers over a base holding document i alone"""
    import os
    import shutil
    from . import c03
    names = ["a", "a.b", "a.b.c", "a.b.c.d"]
    jobs = []
    for ci in range(n):
        r = rng.fork("s%d" % ci)
        nbase = 2 + r.below(3)
        base = []
        for i in range(nbase):
            d = gen.tree(r, 2, {"strs": ["s", "t", "v w", "é", ""], "width": 3, "nulls": False}, root_map=True)
            d["id"] = i
            base.append(d)
        layers, cur = [], base[0]
        for li in range(1 + r.below(3)):
            docs = []
            for j in range(1 + r.below(2)):
                # additive layers only: new keys and nested additions that apply to every base document alike
                docs.append({r.pick(["n", "m", "t%d" % li]): r.pick([li, "x", {"q": li, "deep": {"d": j}}, [li, {"e": j}]]), "l%d_%d" % (li, j): {"k": [j]}})
            layers.append(docs)
        jobs.append((base, layers))

    def run_one(tag, base, layers):
        d = os.path.join(ctx.work, "sg_" + tag)
        files = {"a.yaml": ("reg", base)}
        for li, docs in enumerate(layers):
            files["%s.%s" % (names[li + 1], "json" if li % 2 else "yaml")] = ("reg", docs)
        top = sorted(files, key=len)[-1]
        lay = {"files": files, "opts": {"inputs": [top], "f": "json", "P": False}, "kind": "singleton"}
        c03.write_layout(d, lay, rng.fork("w" + tag))
        res = c03.run_bkl(ctx, d, lay["opts"])
        shutil.rmtree(d, ignore_errors=True)
        return res

    def one(j):
        base, layers = jobs[j]
        full = run_one("%d_full" % j, base, layers)
        singles = [run_one("%d_%d" % (j, i), [base[i]], layers) for i in range(len(base))]
        return full, singles
    results = core.pmap(one, range(len(jobs)))
    checked = 0
    for (base, layers), (full, singles) in zip(jobs, results):
        if full[0] != 0:
            continue
        got = core.parse_json_docs(full[1].decode("utf-8", "replace"))
        for i, sres in enumerate(singles):
            checked += 1
            alone = core.parse_json_docs(sres[1].decode("utf-8", "replace")) if sres[0] == 0 else None
            if (alone is None or len(got) != len(base) or not veq([got[i]], alone)) and len(ctx.violations) < 5:
                ctx.violations.append({"name": "singleton-" + core.vhash([base, layers, i]), "property": "C02", "kind": "failing-input",
                                       "why": "document %d of the stream evaluates to %s, but to %s when it is the only document of the base" % (i, hist.short(got[i] if i < len(got) else None), hist.short(alone)),
                                       "base": core.to_jsonable(base), "layers": core.to_jsonable(layers), "class": "c02-not-independent"})
    dist["singleton_comparisons"] = checked
    return checked


def run(ctx):
    n = ctx.n(1200, 25000)
    stats = histprop.run_history_property(ctx, "C02", gen_case, n, RULE, nontrivial, dist_fn=dist_fn)
    rng = core.Rng(ctx.seed)
    nf = ctx.n(300, 5000)
    cases = [(gen_case if i % 2 else gen_case_files)(rng.fork("case%d" % i)) for i in range(nf)]
    done = run_files(ctx, cases, rng)
    stats["distribution"]["through_layer_files"] = done
    stats["evaluations"] += done
    stats["evaluations"] += singleton_pass(ctx, core.Rng(ctx.seed + 7), ctx.n(40, 800), stats["distribution"])
    stats["disagreements_checked"] = len(ctx.violations)
    return stats


def replay(ctx, payload):
    return histprop.replay_history(ctx, payload)


def matches_known(k, v):
    return False
