# C04 — results do not depend on which format (JSON/YAML/TOML) a layer is written in.
import itertools
import os
import shutil

from .. import core, dgen, gen, hist, ynodes
from ..core import F, X, veq
from . import c03

CLI = ("bkl",)
HARNESS = True
ASSUMPTIONS = [
    "theorem: normalize(arrives f v) = v for every format f (Model.Normalize); the table 'arrives' (which Go type each decoder produces) is an "
    "assumption about encoding/json, yaml.v3 and go-toml, validated on every run by the typed dump of Parser.Documents()",
    "files are written by the harness's own emitters (block/flow YAML with anchors and merge keys, TOML with tables and dotted keys), not by bkl",
    "theorems C04_yaml_*: about Model.Yaml.ytranslate over node trees; that yaml.v3 builds the node tree vlib/ynodes.py says a text denotes is "
    "checked per run by loading the text with bkl (typed dump) and translating the tree with the model; PyYAML referees a disagreement",
]
RULE = ("1-3 layers x 1-2 documents of map-rooted trees over printable strings, 64-bit integers (incl. +-2^31, 2^53+1, +-(2^63-1)), doubles "
        "(0.1, 1e-07, 1e+21, 5e-324, max), bools, nested maps/lists; upper layers compare numbers ($match / $delete patterns, same-value "
        "overrides, $repeat counts); every assignment of JSON/YAML/TOML to the layers (3^n) must give the same status and bytes; the typed dump "
        "after loading must contain only canonical Go types and equal the generating trees; YAML anchors/merge keys and TOML tables/dotted keys "
        "against their expanded form; generated yaml.v3 node trees (1-3 anchored nodes, aliases, merge keys: alias / list of aliases / inline map / rejected "
        "scalar sources, at any position among the entries; scalars of every tag, odd keys) loaded vs Model.Yaml; 2-3 document streams with the boundary spelled bare / with blanks / with a comment / CRLF / ... end markers / "
        "leading / content on the marker line; non-trivial = a number is compared or carried across formats; distinct by hash")

NUMS = [0, 1, 2, -1, 7, 2147483647, 2147483648, -2147483648, -2147483649, 9007199254740993, 9223372036854775807, -9223372036854775807,
        F("0.1"), F("1e-07"), F("1e+21"), F("5e-324"), F("1.7976931348623157e+308"), F("0.5"), F("-2.25"), F("123456.789"),
        F("3"), F("2"), F("1000"), F("-1")]          # whole-valued doubles: must stay doubles, in every format
STRS = ["s", "t", "é", "a b", "x:y", "#c", "1", "true", "~", "- x", "'q'", "\"dq\"", "tab\tx", "nl\nx", "", "end\n", "two\n\n", "a\nb\n"]


def base_doc(rng):
    d = {"id": rng.pick(NUMS[:8] + NUMS[-4:]), "n": rng.pick(NUMS), "f": rng.pick(NUMS[12:]), "s": rng.pick(STRS), "b": rng.chance(1, 2),
         "m": {"k": rng.pick(NUMS), "deep": {"z": rng.pick(NUMS), "l": [rng.pick(NUMS), rng.pick(STRS)]}},
         "items": [{"id": (i if rng.chance(2, 3) else F(str(i + 2))), "v": rng.pick(NUMS)} for i in range(1 + rng.below(3))],
         "nums": [rng.pick(NUMS) for _ in range(rng.below(4))]}
    if rng.chance(1, 4):
        d["e"] = {}
        d["el"] = []
    return d


def child_doc(rng, cur):
    c = {}
    k = rng.below(9)
    if k == 0:
        c["n"] = cur.get("n")                               # same value: useless override whatever the formats
    elif k == 1:
        c["n"] = rng.pick(NUMS)
    elif k == 2 and cur.get("items"):
        e = rng.pick(cur["items"])
        c["items"] = [{"$match": {"id": e["id"]}, "v": rng.pick(STRS)}]
    elif k == 3 and cur.get("items"):
        e = rng.pick(cur["items"])
        c["items"] = [{"$delete": {"v": e["v"]}}]
    elif k == 4 and cur.get("nums"):
        c["nums"] = [{"$delete": rng.pick(cur["nums"])}]
    elif k == 5:
        c["$match"] = {"id": cur.get("id")}
        c["extra"] = rng.pick(NUMS)
    elif k == 6:
        c["rep"] = [{"$repeat": rng.below(4), "i": "$repeat"}]
    elif k == 7:
        c["m"] = {"k": cur["m"]["k"], "new": 1} if rng.chance(1, 2) else {"deep": {"z": rng.pick(NUMS)}}
    else:
        c["f"] = rng.pick(NUMS[12:])
    return c


def gen_content(rng):
    nl = 1 + rng.below(3)
    layers = [[base_doc(rng) for _ in range(1 + rng.below(2))]]
    for _ in range(nl - 1):
        cur = layers[0][0]
        layers.append([child_doc(rng, cur) for _ in range(1 + (rng.below(2) if rng.chance(1, 3) else 0))])
    return layers


# ---- alternative spellings: YAML anchors / merge keys, TOML tables / dotted keys ----
def yaml_anchor_text(doc):
    """a YAML text using an anchor, an alias and a merge key, and the tree it denotes"""
    shared = {"p": 1, "q": "x"}
    text = "base: &b\n  p: 1\n  q: \"x\"\ncopy: *b\nmerged:\n  <<: *b\n  q: \"local\"\n  r: 2.5\nmulti:\n  <<: [*b, {p: 9, z: 0}]\n"
    tree = {"base": dict(shared), "copy": dict(shared), "merged": {"p": 1, "q": "local", "r": F("2.5")}, "multi": {"p": 1, "q": "x", "z": 0}}
    return text, tree


def yaml_merge_cases(rng, n):
    """generated YAML texts with anchors and merge keys (single and list form, explicit nulls in sources),
    each with the tree it denotes: local keys win, earlier sources win, a null in an earlier source still wins"""
    out = []
    for _ in range(n):
        def src():
            return {k: rng.pick([1, "s", None, True, 2.5 if False else 7, "x y"]) for k in rng.shuffle(["p", "q", "r", "t"])[: 1 + rng.below(3)]}
        a, b = src(), src()
        local = {k: rng.pick([9, "loc", None]) for k in rng.shuffle(["q", "t", "z"])[: rng.below(3)]}
        form = rng.pick(["single", "list", "list_rev"])
        def flow(m):
            return "{" + ", ".join("%s: %s" % (k, gen._json_tok(v)) for k, v in sorted(m.items())) + "}"
        text = "a: &a %s\nb: &b %s\nsvc:\n" % (flow(a), flow(b))
        if form == "single":
            text += "  <<: *a\n"
            merged = dict(a)
        elif form == "list":
            text += "  <<: [*a, *b]\n"
            merged = dict(b)
            merged.update(a)
        else:
            text += "  <<: [*b, *a]\n"
            merged = dict(a)
            merged.update(b)
        for k, v in sorted(local.items()):
            text += "  %s: %s\n" % (k, gen._json_tok(v))
        merged.update(local)
        tree = {"a": a, "b": b, "svc": merged}
        out.append((text, gen.drop_nulls(tree)))
    return out


def yaml_stream_spellings(rng, n):
    """one stream of 2-3 map documents written as YAML with every standard spelling of the document boundary:
    a bare ---, trailing blanks, a trailing comment, CRLF line ends, a leading --- , an explicit end marker (...),
    the next document's content starting on the marker line; each with the stream it denotes"""
    out = []
    seps = [("bare", "---\n"), ("blank", "--- \n"), ("blanks", "---   \n"), ("comment", "--- # next\n"), ("end_marker", "...\n---\n"),
            ("end_comment", "... # done\n---\n")]
    for i in range(n):
        docs = [{k: rng.pick([1, "s", True, "x y", 7]) for k in rng.shuffle(["p", "q", "r"])[: 1 + rng.below(2)]} for _ in range(2 + rng.below(2))]
        def body(d):
            return "".join("%s: %s\n" % (k, gen._json_tok(v)) for k, v in sorted(d.items()))
        kind = rng.pick(["sep", "sep", "crlf", "inline", "leading", "mixed"])
        if kind == "sep":
            name, sep = rng.pick(seps)
            text = sep.join(body(d) for d in docs)
        elif kind == "crlf":
            name, text = "crlf", "---\n".join(body(d) for d in docs).replace("\n", "\r\n")
        elif kind == "inline":
            name = "content_on_marker_line"
            text = body(docs[0]) + "".join("--- " + gen._json_tok(d) + "\n" for d in docs[1:])
        elif kind == "leading":
            name, sep = rng.pick(seps[:4])
            text = sep + sep.join(body(d) for d in docs)
        else:
            name = "mixed"
            text = body(docs[0]) + "".join(rng.pick(seps)[1] + body(d) for d in docs[1:])
        out.append((name, text, docs))
    return out


def toml_table_text():
    text = "a.b = 1\na.c = \"x\"\n[t]\nk = 2\n[t.u]\nv = [1, 2]\n[[arr]]\nid = 1\n[[arr]]\nid = 2\nw = 0.1\n"
    tree = {"a": {"b": 1, "c": "x"}, "t": {"k": 2, "u": {"v": [1, 2]}}, "arr": [{"id": 1}, {"id": 2, "w": F("0.1")}]}
    return text, tree


def numeric_canon(v):
    """JSON output prints a whole-valued double like the integer; compare such numbers by value"""
    if isinstance(v, F):
        try:
            x = float(str(v))
            if x == int(x) and abs(x) < 2 ** 53:
                return int(x)
        except Exception:
            pass
        return v
    if isinstance(v, dict):
        return {k: numeric_canon(x) for k, x in v.items()}
    if isinstance(v, list):
        return [numeric_canon(x) for x in v]
    return v


def has_bad_types(v):
    if isinstance(v, X):
        return True
    if isinstance(v, dict):
        return any(has_bad_types(x) for x in v.values())
    if isinstance(v, list):
        return any(has_bad_types(x) for x in v)
    return False


def run(ctx):
    n = ctx.n(60, 1500)
    rng = core.Rng(ctx.seed)
    fmts, _ = hist.formats_from_source()
    contents = [gen_content(rng.fork("c%d" % i)) for i in range(n)]
    names = ["a", "a.b", "a.b.c"]
    jobs = []
    for ci, layers in enumerate(contents):
        for assign in itertools.product(["json", "yaml", "toml"], repeat=len(layers)):
            jobs.append((ci, assign))

    def one(j):
        ci, assign = jobs[j]
        layers = contents[ci]
        d = os.path.join(ctx.work, "c%d_%s" % (ci, "".join(a[0] for a in assign)))
        shutil.rmtree(d, ignore_errors=True)
        os.makedirs(d)
        r = rng.fork("emit%d" % j)
        top = None
        for li, docs in enumerate(layers):
            top = "%s.%s" % (names[li], assign[li])
            open(os.path.join(d, top), "w").write(gen.emit(assign[li], docs, r))
        res = core.cli(os.path.join(ctx.bindir, "bkl"), ["-f", "json", top], d)
        return d, top, res
    results = core.pmap(one, range(len(jobs)))
    # typed dumps of the loaded (merged) documents, per assignment
    typed = ctx.impl([["loadfiles", results[j][0], [results[j][1]]] for j in range(len(jobs))])
    # model on the logical trees
    mcases = []
    for layers in contents:
        files = {"%s.json" % names[li]: ("reg", docs) for li, docs in enumerate(layers)}
        mcases.append(c03.model_case({"files": files, "opts": {"inputs": ["%s.json" % names[len(layers) - 1]], "f": "json", "P": False}}, fmts))
    mo = ctx.model(c03.fill_tables(ctx, mcases))
    by_content = {}
    for j, (ci, assign) in enumerate(jobs):
        by_content.setdefault(ci, []).append((assign, results[j][2], typed[j]))
    seen, nt = set(), 0
    dist = {"assignments": len(jobs), "accepted": 0, "rejected": 0}
    for ci, runs in sorted(by_content.items()):
        why = None
        ref = runs[0]
        for assign, res, ty in runs:
            if (res[0], res[1]) != (ref[1][0], ref[1][1]):
                why = "formats %s and %s give different results: rc %d/%d, %r vs %r" % (ref[0], assign, ref[1][0], res[0], ref[1][1][:200], res[1][:200])
                break
            if isinstance(ty, list) and ty[0] == "ok" and has_bad_types(ty[1]):
                why = "after loading %s the documents contain non-canonical Go types: %s" % (assign, hist.short(ty[1]))
                break
        m = mo[ci]
        if why is None and not (m[0] == "err" and m[1] == "oracle"):
            rc, out, err = ref[1]
            if (m[0] == "ok") != (rc == 0):
                why = "bkl %s but the model %s" % ("succeeds" if rc == 0 else "fails (%s)" % err.strip()[-150:], "evaluates" if m[0] == "ok" else "reports " + m[1])
            elif m[0] == "ok":
                got = core.parse_json_docs(out.decode("utf-8", "replace"))
                if not veq(numeric_canon(got), numeric_canon(m[1][1])):
                    why = "numbers or values changed: output %s, model %s" % (hist.short(got), hist.short(m[1][1]))
        dist["accepted" if ref[1][0] == 0 else "rejected"] += 1
        h = core.vhash(contents[ci])
        if h not in seen:
            seen.add(h)
            nt += 1
        if why and len(ctx.violations) < 5:
            ctx.violations.append({"name": "case-" + h, "property": "C04", "kind": "failing-input", "why": why, "layers": core.to_jsonable(contents[ci]),
                                   "class": "c04-format-dependence"})
    # alternative spellings against their expanded form
    d = os.path.join(ctx.work, "alt")
    os.makedirs(d)
    ytext, ytree = yaml_anchor_text(None)
    ttext, ttree = toml_table_text()
    open(os.path.join(d, "y.yaml"), "w").write(ytext)
    open(os.path.join(d, "t.toml"), "w").write(ttext)
    for fn, tree in (("y.yaml", ytree), ("t.toml", ttree)):
        rc, out, err = core.cli(os.path.join(ctx.bindir, "bkl"), ["-f", "json", fn], d)
        got = core.parse_json_docs(out.decode("utf-8", "replace")) if rc == 0 else None
        dist["alt_" + fn] = "ok" if rc == 0 and veq(got, [tree]) else "differs"
        if not (rc == 0 and veq(got, [tree])) and len(ctx.violations) < 5:
            ctx.violations.append({"name": "alt-" + fn, "property": "C04", "kind": "failing-input",
                                   "why": "%s (anchors/merge keys resp. tables/dotted keys) does not evaluate to its expanded form: rc=%d %s %s" % (fn, rc, err[-200:], hist.short(got)),
                                   "class": "c04-format-dependence"})
    # generated anchors / merge keys
    ycases = yaml_merge_cases(rng.fork("ymerge"), ctx.n(40, 600))
    for yi, (text, tree) in enumerate(ycases):
        fn = "ym%d.yaml" % yi
        open(os.path.join(d, fn), "w").write(text)
    yres = core.pmap(lambda yi: core.cli(os.path.join(ctx.bindir, "bkl"), ["-f", "json", "ym%d.yaml" % yi], d), range(len(ycases)))
    dist["yaml_merge_cases"] = len(ycases)
    for (text, tree), (rc, out, err) in zip(ycases, yres):
        got = core.parse_json_docs(out.decode("utf-8", "replace")) if rc == 0 else None
        if not (rc == 0 and veq(got, [tree])) and len(ctx.violations) < 5:
            ctx.violations.append({"name": "ymerge-" + core.vhash(text), "property": "C04", "kind": "failing-input",
                                   "why": "YAML with anchors/merge keys does not evaluate to its expanded form: rc=%d %s got %s want %s" % (rc, err[-150:], hist.short(got), hist.short([tree])),
                                   "yaml": text, "class": "c04-format-dependence"})
    # every standard spelling of a YAML document boundary denotes the same stream
    scases = yaml_stream_spellings(rng.fork("ystream"), ctx.n(60, 1500))
    for si, (name, text, docs) in enumerate(scases):
        open(os.path.join(d, "ys%d.yaml" % si), "wb").write(text.encode("utf-8"))
    sres = core.pmap(lambda si: core.cli(os.path.join(ctx.bindir, "bkl"), ["-f", "json", "ys%d.yaml" % si], d), range(len(scases)))
    for (name, text, docs), (rc, out, err) in zip(scases, sres):
        dist["ystream_" + name] = dist.get("ystream_" + name, 0) + 1
        got = core.parse_json_docs(out.decode("utf-8", "replace")) if rc == 0 else None
        if not (rc == 0 and veq(got, docs)) and len([v for v in ctx.violations if v.get("class") == "c04-yaml-stream-boundary"]) < 2:
            ref = None
            try:
                import yaml
                ref = list(yaml.safe_load_all(text))
            except Exception:
                pass
            ctx.violations.append({"name": "ystream-" + core.vhash(text), "property": "C04", "kind": "failing-input",
                                   "why": "a YAML stream of %d documents (boundary spelling: %s) does not evaluate to those documents: rc=%d %s got %s; PyYAML reads %s"
                                          % (len(docs), name, rc, err[-150:], hist.short(got), hist.short(ref)),
                                   "yaml": text, "boundary": name, "class": "c04-yaml-stream-boundary"})
    # the same layer read from a file and from standard input (-.<ext>): the result depends on the content only
    sjobs = []
    for ci, layers in enumerate(contents[: ctx.n(40, 600)]):
        for f in ("json", "yaml", "toml"):
            docs = layers[0]
            if f == "toml" and not all(gen.toml_ok(x) for x in docs):
                continue
            sjobs.append((ci, f, gen.emit(f, docs, None)))

    def stdin_one(j):
        ci, f, text = sjobs[j]
        sd = os.path.join(ctx.work, "stdin%d" % j)
        os.makedirs(sd, exist_ok=True)
        open(os.path.join(sd, "only." + f), "w").write(text)
        a = core.cli(os.path.join(ctx.bindir, "bkl"), ["-f", "json", "only." + f], sd)
        b = core.cli(os.path.join(ctx.bindir, "bkl"), ["-f", "json", "--", "-." + f], sd, inp=text.encode("utf-8"))
        shutil.rmtree(sd, ignore_errors=True)
        return a, b
    sres = core.pmap(stdin_one, range(len(sjobs)))
    dist["file_vs_stdin"] = len(sjobs)
    for (ci, f, text), (a, b) in zip(sjobs, sres):
        if (a[0], a[1]) != (b[0], b[1]) and len([v for v in ctx.violations if v.get("class") == "c04-stdin"]) < 2:
            ctx.violations.append({"name": "stdin-%d-%s" % (ci, f), "property": "C04", "kind": "failing-input",
                                   "why": "the same %s text gives rc %d %r from a file and rc %d %r from standard input (%s)" % (f, a[0], a[1][:150], b[0], b[1][:150], b[2][-150:]),
                                   "text": text, "class": "c04-stdin"})
    ny = ynode_pass(ctx, rng.fork("ynodes"), ctx.n(150, 4000), dist)
    ny += normalize_pass(ctx, contents, rng.fork("norm"), dist)
    return {"evaluations": len(jobs) * 2 + len(ycases) + len(scases) + ny, "distinct_nontrivial": nt, "rule": RULE, "samples": [core.to_jsonable(c) for c in contents[:1]],
            "distribution": dist, "disagreements_checked": len(ctx.violations)}


def pyyaml_view(text):
    """what an independent YAML implementation (PyYAML, with timestamps and a bare << left as strings) makes of the
    text; None when it cannot say"""
    try:
        import yaml

        class L(yaml.SafeLoader):
            pass
        L.yaml_implicit_resolvers = {k: [(t, r) for t, r in v if t != "tag:yaml.org,2002:timestamp"] for k, v in yaml.SafeLoader.yaml_implicit_resolvers.items()}
        L.add_constructor("tag:yaml.org,2002:merge", lambda loader, node: node.value)

        def conv(v):
            if isinstance(v, bool) or v is None or isinstance(v, str):
                return v
            if isinstance(v, int):
                return v
            if isinstance(v, float):
                return F(core.go_g(v))
            if isinstance(v, list):
                return [conv(x) for x in v]
            if isinstance(v, dict):
                return {("null" if k is None else str(k).lower() if isinstance(k, bool) else str(k)): conv(x) for k, x in v.items()}
            raise ValueError
        return conv(yaml.load(text, Loader=L))
    except Exception:
        return None


def raw_enc(v):
    """a typed value of the harness (X = Go-only dynamic types) as the plain encoding Model/Driver.v's dec_raw reads"""
    import re as _re
    if v is None:
        return ["nil"]
    if isinstance(v, bool):
        return ["bool", v]
    if isinstance(v, X):
        if v.tag == "K":
            return ["int64", v.payload]
        if v.tag == "J":
            t = v.payload
            if _re.fullmatch(r"-?[0-9]+", t) and -2 ** 63 <= int(t) < 2 ** 63:
                return ["jsonint", int(t)]
            return ["jsonfloat", F(core.go_g(float(t)))]
        return ["other", v.tag]
    if isinstance(v, F):
        return ["float", v]
    if isinstance(v, int):
        return ["int", v]
    if isinstance(v, str):
        return ["str", v]
    if isinstance(v, list):
        return ["list", [raw_enc(x) for x in v]]
    if isinstance(v, dict):
        return ["map", [[k, raw_enc(v[k])] for k in sorted(v, key=lambda s: s.encode("utf-8", "surrogateescape"))]]
    return ["other", repr(v)]


def normalize_pass(ctx, contents, rng, dist):
    """the tie of Model/Normalize.v (the C04 theorems are about it) to the code: each document of the generated contents is
    written in each format by the framework's emitters, read by bkl's UnmarshalStream through the public Format API - the Go
    values BEFORE normalisation, typed - and (1) they must be what the model's table 'arrives' says the decoder hands over,
    (2) the model's normalize of them must be the logical value, which is also what bkl holds after loading"""
    cases, meta = [], []
    for ci, layers in enumerate(contents):
        for docs in layers:
            for f in ("json", "yaml", "toml"):
                if f == "toml" and not all(gen.toml_ok(d) for d in docs):
                    continue
                try:
                    text = gen.emit(f, docs, None)
                except Exception:
                    continue
                cases.append(["unframe", f, text])
                meta.append((f, docs))
    res = ctx.impl(cases)
    q_arr, q_norm, keep = [], [], []
    for (f, docs), r in zip(meta, res):
        if not (isinstance(r, list) and r and r[0] == "ok") or len(r[1]) != len(docs):
            continue
        for d, rawd in zip(docs, r[1]):
            q_arr.append(["arrives", f, d])
            q_norm.append(["normalize", raw_enc(rawd)])
            keep.append((f, d, rawd))
    ma = ctx.model(q_arr) if q_arr else []
    mn = ctx.model(q_norm) if q_norm else []
    n = 0
    for (f, d, rawd), a, nres in zip(keep, ma, mn):
        n += 1
        why = None
        got = raw_enc(rawd)
        if not veq(got, a):
            why = "from %s the decoder hands over %s, the model's table 'arrives' says %s" % (f, hist.short(got), hist.short(a))
        elif not (isinstance(nres, list) and nres and nres[0] == "ok" and veq(nres[1], d)):
            why = "the model's normalize of what %s delivered is %s, the logical value is %s" % (f, hist.short(nres), hist.short(d))
        if why and len([v for v in ctx.violations if v.get("class") == "c04-normalize-model"]) < 2:
            ctx.violations.append({"name": "normalize-" + core.vhash([f, d]), "property": "C04", "kind": "no-failing-input-found",
                                   "theorem": "C04_numbers_exact / C04_format_independent (Properties/C04.v) are about Model.Normalize.normalize/arrives; their correspondence with the decoders and normalize.go broke",
                                   "why": why, "format": f, "document": core.to_jsonable(d), "class": "c04-normalize-model"})
    dist["normalize_model_documents"] = n
    return n


def ynode_pass(ctx, rng, n, dist):
    """yaml.go's node translation against Model/Yaml.v: generated node trees (anchors, aliases, merge keys in every
    position and form, every scalar tag, odd keys, rejected merge sources) rendered to YAML text by vlib/ynodes.py;
    bkl loads the text, the model translates the tree"""
    d = os.path.join(ctx.work, "yn")
    os.makedirs(d, exist_ok=True)
    cases = []
    for i in range(n):
        tree, text = ynodes.document(rng.fork("d%d" % i), bad=(i % 5 == 4), selfref=(i % 7 == 6))
        fn = "yn%d.yaml" % i
        open(os.path.join(d, fn), "w").write(text)
        cases.append((tree, text, fn))
    impl = ctx.impl([["loadfiles", d, [fn]] for _, _, fn in cases])
    mo = ctx.model([["ynode", tree] for tree, _, _ in cases])
    dist["ynode_cases"] = n
    dist["ynode_rejected"] = sum(1 for m in mo if m[0] == "err")
    dist["ynode_self_referential"] = sum(1 for tree, _, _ in cases if "'aliasup'" in repr(tree))
    dist["ynode_with_merge_key"] = sum(1 for _, text, _ in cases if "<<:" in text)
    for (tree, text, fn), g, m in zip(cases, impl, mo):
        if m[0] == "err" and m[1] == "oracle":
            continue
        why = None
        if g[0] not in ("ok", "err"):
            why = "loading the YAML text ends in %s: %s (the model: %s)" % (g[0], str(g[1:])[:200], m[:2])
        elif (g[0] == "ok") != (m[0] == "ok"):
            why = "bkl %s the YAML text but the model %s its node tree" % ("loads" if g[0] == "ok" else "rejects (%s)" % (g[1:],), "translates" if m[0] == "ok" else "rejects (%s)" % m[1])
        elif g[0] == "ok" and not veq(g[1], [m[1]]):
            why = "bkl loads %s, the node tree denotes %s" % (hist.short(g[1]), hist.short([m[1]]))
        if why and len(ctx.violations) < 5:
            # the model and bkl differ: does an independent YAML implementation also differ from bkl on this text?
            ref = pyyaml_view(text)
            confirmed = (ref is not None and g[0] == "ok" and not veq(g[1], [ref]) and "~:" not in text) or g[0] not in ("ok", "err")
            ctx.violations.append({"name": "ynode-" + core.vhash(text), "property": "C04",
                                   "kind": "failing-input" if confirmed else "no-failing-input-found",
                                   "theorem": "C04_yaml_merge_list / C04_yaml_plain_nodes (Properties/C04.v) are about Model.Yaml.ytranslate; correspondence of yaml.go with it broke",
                                   "why": why + ("; PyYAML reads %s" % hist.short([ref]) if confirmed else "; no independent confirmation that the expanded form is wrong"),
                                   "yaml": text, "class": "c04-yaml-node-translation"})
    return n


def replay(ctx, payload):
    print("replay: layers", payload.get("layers"))
    return 0


def matches_known(k, v):
    return False
