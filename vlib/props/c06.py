# C06 — plain data passes through unchanged; $$ escapes any literal dollar.
from .. import filepass, core, evalgen, gen, hist, histprop
from ..core import veq

CLI = ("bkl",)
HARNESS = True
ASSUMPTIONS = ["theorems are about Model.Eval (eval_docs) and Model.Str (escape/unescape); tie to the Go evaluator is this run's comparison through OutputDocuments"]
RULE = ("three streams: (a) one plain document over an alphabet of $FOO, ${X}, $(cmd), braces, colons, dots, quotes as keys and values; "
        "(b) an arbitrary document incl. every directive name, with every $ doubled; (c) (b) as the child of a plain parent map. "
        "Compared with the model and, for (a)/(b), with the generating tree (only nulls dropped). non-trivial = the tree contains a '$'; distinct by hash")


def gen_case(rng):
    k = rng.below(3)
    if k == 0:
        t = evalgen.plain_tree(rng)
        c = ["history", None, hist.stream_history([t])]
        c.append({"kind": "plain", "orig": t})
    elif k == 1:
        t = evalgen.any_tree(rng)
        c = ["history", None, hist.stream_history([evalgen.escape(t)])]
        c.append({"kind": "escaped", "orig": t})
    else:
        p = evalgen.plain_tree(rng)
        if not isinstance(p, dict):
            p = {"a": p}
        t = evalgen.any_tree(rng)
        if not isinstance(t, dict):
            t = {"b": t}
        c = ["history", None, hist.chain_history([p, evalgen.escape(t)])]
        c.append({"kind": "layered", "orig": t})
    return c


def expected(meta):
    t = meta["orig"]
    if t is None:
        return []
    return [gen.drop_nulls(t)]


def judge(c, a, b):
    if hist.has_oracle_miss(b):
        return None
    r = hist.compare_outs(a, b)
    if r:
        return r[1]
    meta = c[3] if len(c) > 3 else None
    if meta and meta["kind"] in ("plain", "escaped") and isinstance(a, list):
        out = a[-1]
        if out[0] == "out":
            if out[1][0] != "ok":
                return "%s document rejected: %s" % (meta["kind"], out[1][1])
            if not veq(out[1][1], expected(meta)):
                return "%s document did not evaluate to the generating tree: %s" % (meta["kind"], hist.short(out[1][1]))
    return None


def nontrivial(c, a, b):
    return any("$" in s for d in hist.docs_of_history(c) for s in gen.walk_strings(d))


def dist_fn(dist, c, a, b):
    k = c[3]["kind"] if len(c) > 3 else "corpus"
    dist[k] = dist.get(k, 0) + 1
    if isinstance(b, list) and b and b[-1][0] == "out":
        key = "out_" + (b[-1][1][0] if b[-1][1][0] == "ok" else "err_" + b[-1][1][1])
        dist[key] = dist.get(key, 0) + 1


def run(ctx):
    n = ctx.n(2000, 40000)
    stats = histprop.run_history_property(ctx, "C06", gen_case, n, RULE, nontrivial, judge=judge, dist_fn=dist_fn)
    rng = core.Rng(ctx.seed + 1)
    nf = ctx.n(200, 4000)
    cases = [gen_case(rng.fork("fc%d" % i)) for i in range(nf)]
    done = filepass.run_layers_through_files(ctx, [filepass.layers_of_history(c) for c in cases], rng, "C06", "c06-disagreement")
    stats["distribution"]["through_layer_files"] = done
    stats["evaluations"] += done
    stats["evaluations"] += depth_boundary_pass(ctx, stats["distribution"])
    stats["disagreements_checked"] = len(ctx.violations)
    return stats


def depth_boundary_pass(ctx, dist):
    """the identity theorem has the hypothesis height <= 1000 (the evaluator's depth guard refuses deeper documents even
    when plain): documents nested 995..1003 deep, as maps, lists and alternating, must be accepted/refused by the real code
    exactly where the model does"""
    import sys
    old = sys.getrecursionlimit()
    sys.setrecursionlimit(50000)
    try:
        cases, meta = [], []
        for shape in ("maps", "lists", "alternating"):
            for d in range(995, 1004):
                t = 1
                for i in range(d):
                    if shape == "maps" or (shape == "alternating" and i % 2 == 0):
                        t = {"a": t}
                    else:
                        t = [t]
                if not isinstance(t, dict):
                    t = {"r": t}
                cases.append(["history", None, hist.stream_history([t])])
                meta.append((shape, d))
        # the evaluator's second pass has its own guard: reach it with a document that only becomes deep when a $decode unpacks it
        for d in range(994, 1003):
            text = '{"a":' * d + "1" + "}" * d
            cases.append(["history", None, hist.stream_history([{"x": {"$decode": "json", "$value": text}}])])
            meta.append(("decoded", d))
        # the interpolation guard: k0 -> k1 -> ... -> k<d> = "end", each a template naming the next
        for d in (range(996, 1003) if ctx.tier == "thorough" else (999, 1000)):
            doc = {"k%04d" % i: '$"{k%04d}"' % (i + 1) for i in range(d)}
            doc["k%04d" % d] = "end"
            cases.append(["history", None, hist.stream_history([doc])])
            meta.append(("interpolation-chain", d))
        hist.collect_tables(ctx, cases, lambda c: {}, hist.docs_of_history)
        im = ctx.impl(cases)
        mo = ctx.model(cases, sample=False)
        accepted = 0
        for (shape, d), a, b in zip(meta, im, mo):
            oa = a[-1][1][0] if isinstance(a, list) and a and isinstance(a[-1], list) and len(a[-1]) > 1 and isinstance(a[-1][1], list) else str(a)[:40]
            ob = b[-1][1][0] if isinstance(b, list) and b and isinstance(b[-1], list) and len(b[-1]) > 1 and isinstance(b[-1][1], list) else str(b)[:40]
            accepted += 1 if oa == "ok" else 0
            if oa != ob and len(ctx.violations) < 5:
                ctx.violations.append({"name": "depth-%s-%d" % (shape, d), "property": "C06", "kind": "failing-input" if oa not in ("ok", "err") else "no-failing-input-found",
                                       "theorem": "C06_identity / C06_escape have the hypothesis height v <= depth_limit; the model's depth guard and the code's differ here",
                                       "why": "a plain document nested %d deep (%s): implementation %s, model %s" % (d, shape, oa, ob), "class": "c06-depth-boundary"})
        dist["depth_boundary_cases"] = len(cases)
        dist["depth_boundary_accepted"] = accepted
        return len(cases)
    finally:
        sys.setrecursionlimit(old)


def replay(ctx, payload):
    return histprop.replay_history(ctx, payload)


def matches_known(k, v):
    return False
