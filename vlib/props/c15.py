# C15 — bkld round trip: base + bkld(base, target) evaluates to target.
import os

from .. import core, edits, gen, hist
from ..core import veq

CLI = ("bkl", "bkld")
HARNESS = False
ASSUMPTIONS = [
    "theorems are about Model.Tools.diff/diff_doc and Model.Merge.merge; tie to cmd/bkld and bkl is this run's differential comparison of the binaries",
    "domain: map-rooted, null-free, $-free trees (the property's quantifier)",
]
RULE = ("pairs (base, target) with target an arbitrary edit of base (keys added/removed/changed at any depth, list entries added, removed, "
        "reordered, duplicated, removed entries that are sub-maps of kept ones, kind changes both ways), files in mixed formats; real bkld, then "
        "real bkl on the layer named as a child of the base (and with -P); compared: bkld's layer with the model's diff_doc, and bkl's result "
        "with the target; non-trivial = target differs from base; distinct by hash")


def gen_case(rng):
    b = edits.base(rng)
    t = edits.edit(rng, b) if rng.chance(9, 10) else b
    return b, t


def run_impl(ctx, idx, bt, rng):
    b, t = bt
    d = os.path.join(ctx.work, "c%s" % idx)
    import shutil
    shutil.rmtree(d, ignore_errors=True)
    os.makedirs(d)
    bkl, bkld = os.path.join(ctx.bindir, "bkl"), os.path.join(ctx.bindir, "bkld")
    bp = edits.write(d, "base", b, rng)
    tp = edits.write(d, "target", t, rng)
    r = {"files": [bp, tp]}
    rc, out, err = core.cli(bkld, ["-f", "json", bp, tp], d)
    r["bkld_rc"], r["bkld_err"] = rc, err[-300:]
    if rc != 0:
        return r
    try:
        r["layer"] = core.parse_json_docs(out.decode("utf-8", "replace"))
    except Exception as e:
        r["layer"] = "unparsable %r" % (e,)
        return r
    # the layer in a random format, as a child of base by filename
    lf = rng.pick(["json", "yaml", "toml"])
    lp = "base.layer." + lf
    rc, out2, err = core.cli(bkld, ["-o", lp, bp, tp], d)
    r["bkld_o_rc"], r["layer_fmt"] = rc, lf
    if rc != 0:
        r["bkld_o_err"] = err[-300:]
        return r
    rc, out3, err = core.cli(bkl, ["-f", "json", lp], d)
    r["bkl_rc"], r["bkl_err"] = rc, err[-300:]
    if rc == 0:
        try:
            r["bkl_out"] = core.parse_json_docs(out3.decode("utf-8", "replace"))
        except Exception as e:
            r["bkl_out"] = "unparsable %r" % (e,)
    # -P variant for non-empty layers
    if r["layer"] != [None]:
        os.rename(os.path.join(d, lp), os.path.join(d, "lay." + lf))
        rc, out4, err = core.cli(bkl, ["-P", "-f", "json", bp, "lay." + lf], d)
        r["bklP_rc"], r["bklP_err"] = rc, err[-300:]
        if rc == 0:
            try:
                r["bklP_out"] = core.parse_json_docs(out4.decode("utf-8", "replace"))
            except Exception as e:
                r["bklP_out"] = "unparsable %r" % (e,)
    return r


def judge(bt, im, mo):
    b, t = bt
    if im["bkld_rc"] != 0:
        return "bkld failed: " + im["bkld_err"].strip()
    if not isinstance(im.get("layer"), list) or len(im["layer"]) != 1:
        return "bkld output is not one JSON document: %r" % (im.get("layer"),)
    if im.get("bkld_o_rc") != 0:
        return "bkld -o %s failed: %s" % (im.get("layer_fmt"), im.get("bkld_o_err", "").strip())
    if im.get("bkl_rc") != 0:
        return "bkl rejected the layer emitted by bkld: " + im.get("bkl_err", "").strip()
    if not veq(im.get("bkl_out"), [t]):
        return "base + bkld(base, target) evaluates to %s, not to the target" % hist.short(im.get("bkl_out"))
    if "bklP_rc" in im:
        if im["bklP_rc"] != 0:
            return "bkl -P rejected the layer: " + im["bklP_err"].strip()
        if not veq(im.get("bklP_out"), [t]):
            return "bkl -P base layer evaluates to %s, not to the target" % hist.short(im.get("bklP_out"))
    if veq(b, t) and im["layer"] != [None]:
        return "base equals target but the emitted layer is not empty: %s" % hist.short(im["layer"])
    if not veq(im["layer"][0], mo):
        # the round trip holds on this input, but the code no longer matches the model the theorem is about
        return "MODEL-ONLY: bkld's layer differs from the model's diff_doc (the round trip still holds on this input): %s vs %s" % (hist.short(im["layer"][0]), hist.short(mo))
    return None


def run_batch(ctx, cases, rng):
    mo = ctx.model([["diff", t, b] for b, t in cases])
    rngs = [rng.fork("e%d" % i) for i in range(len(cases))]
    im = core.pmap(lambda i: run_impl(ctx, "%d_%d" % (id(cases) % 100000, i), cases[i], rngs[i]), range(len(cases)))
    return im, mo


def shrink(ctx, bt, rng):
    cur = bt
    import time
    deadline = time.time() + 20          # shrinking runs the real tools: bounded, the unshrunk case is a replay too
    for _ in range(40):
        if time.time() > deadline:
            break
        b, t = cur
        cands = []
        for x in gen.shrink_tree(b)[:60]:
            if isinstance(x, dict) and not gen.has_null(x):
                cands.append((x, t))
        for x in gen.shrink_tree(t)[:60]:
            if isinstance(x, dict) and not gen.has_null(x):
                cands.append((b, x))
        if not cands:
            break
        im, mo = run_batch(ctx, cands, rng)
        nxt = None
        for c, a, m in zip(cands, im, mo):
            if judge(c, a, m) is not None:
                nxt = c
                break
        if nxt is None:
            break
        cur = nxt
    return cur


def load_corpus():
    import json
    d = os.path.join(core.VERIF, "corpus", "C15")
    out = []
    if os.path.isdir(d):
        for f in sorted(os.listdir(d)):
            j = json.load(open(os.path.join(d, f)))
            out.append((core.from_jsonable(j["base"]), core.from_jsonable(j["target"])))
    return out


def run(ctx):
    n = ctx.n(500, 10000)
    rng = core.Rng(ctx.seed)
    corpus = load_corpus()
    cases = corpus + [gen_case(rng.fork("case%d" % i)) for i in range(n)]
    im, mo = run_batch(ctx, cases, rng)
    seen, nt = set(), 0
    dist = {"equal": 0, "layer_empty": 0, "layer_has_replace": 0, "layer_has_delete": 0}
    for c, a, m in zip(cases, im, mo):
        why = judge(c, a, m)
        if veq(c[0], c[1]):
            dist["equal"] += 1
        else:
            h = core.vhash(list(c))
            if h not in seen:
                seen.add(h)
                nt += 1
        if m is None:
            dist["layer_empty"] += 1
        else:
            ss = list(gen.walk_strings(m))
            if "$replace" in ss:
                dist["layer_has_replace"] += 1
            if "$delete" in ss:
                dist["layer_has_delete"] += 1
        if why and len(ctx.violations) < 5:
            sb, st = shrink(ctx, c, rng)
            sim, smo = run_batch(ctx, [(sb, st)], rng)
            why2 = judge((sb, st), sim[0], smo[0]) or why
            ctx.violations.append({"name": "case-" + core.vhash([sb, st]), "property": "C15",
                                   "kind": "no-failing-input-found" if why2.startswith("MODEL-ONLY") else "failing-input",
                                   "theorem": "C15_roundtrip (Properties/C15.v) is about Model.Tools.diff; correspondence bkld vs diff_doc broke",
                                   "why": why2, "base": core.to_jsonable(sb), "target": core.to_jsonable(st),
                                   "implementation": {k: core.to_jsonable(v) for k, v in sim[0].items()}, "model": core.to_jsonable(smo[0]),
                                   "class": "c15-disagreement"})
    return {"evaluations": len(cases), "distinct_nontrivial": nt, "rule": RULE,
            "samples": [{"base": core.to_jsonable(b), "target": core.to_jsonable(t)} for b, t in cases[len(corpus):len(corpus) + 2]],
            "distribution": dist, "disagreements_checked": len(ctx.violations)}


def replay(ctx, payload):
    b, t = core.from_jsonable(payload["base"]), core.from_jsonable(payload["target"])
    rng = core.Rng(1)
    im, mo = run_batch(ctx, [(b, t)], rng)
    why = judge((b, t), im[0], mo[0])
    print("implementation:", im[0])
    print("model diff_doc:", mo[0])
    print("verdict:", why or "agrees")
    return 1 if why else 0


def matches_known(k, v):
    return False
