# C10 — $merge and $replace behave as if the referenced subtree were written inline.
import re
from .. import filepass, core, evalgen, gen, hist, histprop
from ..core import F, veq

CLI = ("bkl",)
HARNESS = True
ASSUMPTIONS = [
    "theorems are about Model.Eval.p1/get (live-document semantics, DESIGN.md 4.5); tie to process1.go/get.go is this run's comparison",
    "yaml.Unmarshal of reference strings is an oracle table computed by calling yaml.v3 directly",
]
RULE = ("a random document with a target subtree and a non-overlapping host; the reference written as dotted string, list path, "
        "$merge:/$replace: string, {$match,$path} and [pattern, path...] (2-3 document streams), keys containing dots, chains of references, "
        "targets under $output:false, dangling and ambiguous references; compared with the model and with the hand-inlined document "
        "evaluated by the implementation; non-trivial = the reference resolves in the model; distinct by hash")

PROF = {"keys": ["a", "b", "c"], "strs": ["s", "t"], "nulls": False, "width": 2}
LPROF = {"keys": ["p", "q", "r"], "strs": ["u", "w"], "nulls": False, "width": 2}


def gen_case(rng):
    kind = rng.pick(["merge_map", "merge_map", "replace_map", "merge_str", "replace_str", "merge_list", "replace_list", "chain", "dangling",
                     "nested_ref", "nested_ref", "list_combo", "list_combo"])
    if kind == "nested_ref":
        return gen_nested_ref(rng) if rng.chance(2, 3) else gen_two_hosts(rng)
    if kind == "list_combo":
        return gen_list_combo(rng)
    cross = rng.chance(1, 3)
    tkeys = rng.pick([["tgt"], ["t", "sub"], ["a.b"], ["t", "x.y"], ["tpl", "inner"]])
    can_dot = all("." not in k for k in tkeys)
    if kind in ("merge_list", "replace_list"):
        target = [gen.tree(rng, 1, PROF) for _ in range(1 + rng.below(3))]
    elif kind in ("merge_str", "replace_str"):
        target = gen.tree(rng, 2, PROF, root_map=rng.chance(1, 2))
        if target is None:
            target = 1
    else:
        target = gen.tree(rng, 2, PROF, root_map=True)
    if kind in ("merge_map", "replace_map", "merge_str", "replace_str", "chain") and rng.chance(1, 8):
        target = None          # the referenced key exists and holds null: as if "x: null" were written in place
    local = gen.tree(rng, 1, LPROF, root_map=True)
    tdoc = {"other": 1, "name": "T"}
    node = tdoc
    for k in tkeys[:-1]:
        node[k] = {}
        node = node[k]
    node[tkeys[-1]] = target
    if tkeys[0] == "tpl":
        tdoc["tpl"]["$output"] = False
    # reference forms
    pathl = list(tkeys)
    if cross:
        pat = rng.pick([{"name": "T"}, {"name": "T", "other": 1}])
        if kind == "dangling" and rng.chance(1, 2):
            pat = rng.pick([{"name": "nobody"}, {}])          # none / several documents
        ref = {"$match": pat, "$path": (".".join(tkeys) if can_dot and rng.chance(1, 2) else pathl)} if rng.chance(1, 2) else [pat] + pathl
        str_ok = False
    else:
        if can_dot and rng.chance(1, 2):
            ref = ".".join(tkeys)
        elif all(re.fullmatch(r"[a-z]+", k) for k in tkeys) and rng.chance(1, 3):
            ref = "[" + ", ".join(tkeys) + "]"          # a STRING whose YAML reading is a list: the list-path form written as text
        else:
            ref = pathl
        str_ok = can_dot
    if kind == "dangling" and not cross:
        ref = rng.pick(["nope", "tgt.zz", ["tgt", "zz"], 5, None, {"$path": "tgt"}, "t.sub.deeper.x", [], "", [[]], {"$match": {"name": "T"}},
                        [{"name": "T"}], True])
    if kind in ("merge_str", "replace_str") and not str_ok:
        kind = "replace_map" if kind == "replace_str" else "merge_map"
    # host
    if kind == "merge_map" or kind == "dangling" or kind == "chain":
        host = dict(local)
        host["$merge"] = ref
    elif kind == "replace_map":
        host = dict(local)
        host["$replace"] = ref
    elif kind == "merge_str":
        host = "$merge:" + ".".join(tkeys)
    elif kind == "replace_str":
        host = "$replace:" + ".".join(tkeys)
    elif kind == "merge_list":
        host = [gen.scalar(rng, LPROF) for _ in range(rng.below(3))] + [{"$merge": ref}]
    else:
        host = [9, {"$replace": ref}]
    hdoc = tdoc if not cross else {"name": "H", "z": 2}
    hkey = rng.pick(["host", "zhost", "h.k"])
    hdoc[hkey] = host
    if kind == "chain":
        # a second reference to the first host
        hdoc["second"] = {"$merge": hkey if "." not in hkey else [hkey], "own": 1}
    docs = [tdoc, hdoc] if cross else [hdoc]
    if cross and rng.chance(1, 3):
        docs = [hdoc, tdoc]
    if cross and rng.chance(1, 4):
        docs.append({"name": "third", "x": 1})
    c = ["history", None, hist.stream_history(docs)]
    # hand-inlined variant (only where it is unambiguous)
    inl = None
    if kind in ("replace_map", "replace_str", "replace_list"):
        inl = target
    elif kind == "merge_str":
        inl = target
    elif kind == "merge_map" and isinstance(target, dict) and not (set(target) & set(local)):
        inl = dict(local)
        inl.update(target)
    elif kind == "merge_list":
        inl = host[:-1] + target
    meta = {"kind": kind, "cross": cross}
    if inl is not None and kind != "dangling":
        docs2 = [dict(d) for d in docs]
        for d in docs2:
            if hkey in d:
                d[hkey] = inl
        meta["inlined"] = docs2
    c.append(meta)
    return c


def gen_two_hosts(rng):
    """several hosts refer to ONE target and each merges its own content into the target's nested containers: every host
    must get the target as written plus its own content only, and the target must come out as written"""
    target = {"sub": {"y": 2, "deep": {"d": 1}}, "l": [1, {"k": 1}], "s": "t"}
    if rng.chance(1, 2):
        target["sub"]["l2"] = [7]
    doc = {"tgt": target}
    n = 2 + rng.below(2)
    inl = {"tgt": target}
    names = rng.shuffle(["h1", "h2", "zz", "a0"])[:n]      # hosts sorting before and after the target
    for i, name in enumerate(names):
        own = rng.pick([{"sub": {"x%d" % i: i}}, {"sub": {"deep": {"e%d" % i: i}}}, {"l": [i]}, {"sub": {"l2": [i]}} if "l2" in target["sub"] else {"n": i},
                        {"sub": {"y": "$delete"}}, {"s": "own%d" % i}])
        form = rng.below(3)
        host = dict(own)
        host["$merge"] = rng.pick(["tgt", ["tgt"]])
        doc[name] = host
    c = ["history", None, hist.stream_history([doc])]
    c.append({"kind": "two_hosts", "cross": False})
    return c


def gen_list_combo(rng):
    """lists that combine list-level $merge and $replace entries, and reference entries that arrive through a merged-in list"""
    k = rng.below(6)
    bar = [rng.pick([9, "b", {"z": 1}])]
    doc = {"bar": bar, "lst": [7, 8], "tpl": {"$output": False, "foo": [2, {"$replace": "bar"}], "plain": [3, 4]}}
    if k == 0:
        doc["zig"] = [1, {"$merge": "tpl.foo"}]                       # a $replace entry arrives through the merged list
    elif k == 1:
        doc["zig"] = [1, {"$merge": rng.pick(["nope.nothing", "lst", "tpl.plain"])}, {"$replace": "bar"}]
    elif k == 2:
        doc["zig"] = [{"$replace": "bar"}, {"$merge": "lst"}, 5]
    elif k == 3:
        doc["zig"] = [{"$merge": "lst"}, {"$merge": "tpl.plain"}, 0]
    elif k == 4:
        doc["zig"] = [1, {"$merge": "lst"}, {"$replace": None}, {"$replace": "bar"}]
    else:
        doc["tpl"]["foo"] = [2, {"$merge": "lst"}]
        doc["zig"] = [1, {"$merge": "tpl.foo"}]                       # a $merge entry arrives through the merged list
    if rng.chance(1, 4):
        other = {"kind": "tpl", "foo": doc["tpl"]["foo"], "bar": ["other"]}
        doc["zig2"] = [0, {"$merge": [{"kind": "tpl"}, "foo"]}]
        docs = rng.pick([[doc, other], [other, doc]])
    else:
        docs = [doc]
    c = ["history", None, hist.stream_history(docs)]
    c.append({"kind": "list_combo", "cross": len(docs) > 1})
    return c


def gen_nested_ref(rng):
    """the target itself contains a reference host; both documents define the name it refers to, with different
    values, so evaluating the target in the wrong document's context (or editing it in place) shows"""
    inner_form = rng.pick(["merge_map", "replace_map", "merge_str", "list_merge"])
    def tgt(v):
        if inner_form == "merge_map":
            return {"$merge": "p", "k": 1}
        if inner_form == "replace_map":
            return {"$replace": "p", "ignored": 1}
        if inner_form == "merge_str":
            return {"x": "$merge:p.v", "k": 1}
        return {"l": [0, {"$merge": "pl"}], "k": 1}
    A = {"name": "A", "p": {"v": "fromA"}, "pl": ["a1"]}
    B = {"name": "B", "p": {"v": "fromB"}, "pl": ["b1"], "t": tgt("B")}
    if rng.chance(1, 3):
        del B["p"]
        B.pop("pl")
    outer = rng.pick(["replace_map", "merge_map", "replace_list", "replace_str_same"])
    pat = {"name": "B"}
    ref = rng.pick([{"$match": pat, "$path": "t"}, [pat, "t"], {"$match": pat, "$path": ["t"]}])
    if outer == "replace_map":
        A["out"] = {"$replace": ref}
    elif outer == "merge_map":
        A["out"] = {"$merge": ref, "own": 1}
    elif outer == "replace_list":
        A["out"] = [{"$replace": ref}]
    else:
        A["t"] = tgt("A")
        A["out"] = {"$replace": "t"} if rng.chance(1, 2) else "$replace:t"
    docs = rng.pick([[A, B], [B, A], [A, B, {"name": "C"}]])
    c = ["history", None, hist.stream_history(docs)]
    c.append({"kind": "nested_ref", "cross": True})
    return c


def extra_batch(ctx, cases, im, mo):
    idx = [i for i, c in enumerate(cases) if len(c) > 3 and "inlined" in c[3] and isinstance(im[i], list) and im[i] and im[i][-1][0] == "out"]
    c2s = [["history", None, hist.stream_history(cases[i][3]["inlined"])] for i in idx]
    out = [None] * len(cases)
    if not c2s:
        return out
    im2, _ = hist.run_histories(ctx, c2s)
    for i, r in zip(idx, im2):
        out[i] = compare_inlined(im[i], r)
    return out


def compare_inlined(a, r2):
    o1 = a[-1][1]
    o2 = r2[-1][1] if isinstance(r2, list) and r2 and r2[-1][0] == "out" else None
    if o2 is None:
        return None
    if o1[0] != o2[0]:
        return "referencing document evaluates to %s, hand-inlined document to %s" % (hist.short(o1), hist.short(o2))
    if o1[0] == "ok" and not veq(o1[1], o2[1]):
        return "referencing document differs from the hand-inlined one: %s vs %s" % (hist.short(o1[1]), hist.short(o2[1]))
    return None


def nontrivial(c, a, b):
    return isinstance(b, list) and b and b[-1][0] == "out" and b[-1][1][0] == "ok"


def dist_fn(dist, c, a, b):
    m = c[3] if len(c) > 3 else {"kind": "corpus", "cross": False}
    k = m["kind"] + ("_cross" if m.get("cross") else "")
    if isinstance(b, list) and b and b[-1][0] == "out":
        r = b[-1][1]
        k += "_ok" if r[0] == "ok" else "_err"
        if r[0] != "ok":
            e = "err_" + r[1]
            dist[e] = dist.get(e, 0) + 1
    dist[k] = dist.get(k, 0) + 1
    if "inlined" in m:
        dist["with_inlined_oracle"] = dist.get("with_inlined_oracle", 0) + 1


def run(ctx):
    n = ctx.n(1500, 30000)
    stats = histprop.run_history_property(ctx, "C10", gen_case, n, RULE, nontrivial, extra_batch=extra_batch, dist_fn=dist_fn)
    rng = core.Rng(ctx.seed + 1)
    nf = ctx.n(200, 4000)
    cases = [gen_case(rng.fork("fc%d" % i)) for i in range(nf)]
    done = filepass.run_layers_through_files(ctx, [filepass.layers_of_history(c) for c in cases], rng, "C10", "c10-disagreement")
    stats["distribution"]["through_layer_files"] = done
    stats["evaluations"] += done
    stats["disagreements_checked"] = len(ctx.violations)
    return stats


def replay(ctx, payload):
    return histprop.replay_history(ctx, payload)


def matches_known(k, v):
    return False
