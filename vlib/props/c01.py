# C01 — layer merge follows the documented rules (merge.go, match.go, util.go via MergeDocument).
from .. import filepass, core, dgen, hist, histprop

CLI = ("bkl",)
HARNESS = True
ASSUMPTIONS = [
    "theorems are about Model.Merge.merge/vmatch; the tie to merge.go/match.go/util.go is this run's differential comparison through Parser.MergeDocument/Documents/OutputDocuments",
    "floats with integral values are outside the generator (deepClone's YAML round trip turns them into ints on some paths)",
]
RULE = ("chains of 2-4 layers; each child derived from the merged parent (override/delete/$replace/$match/$value/$invert/$delete entries, "
        "type clashes, misplaced directives); applied by successive MergeDocument calls with parent links; Documents() compared after every "
        "layer and OutputDocuments at the end; non-trivial = some child layer carries a directive or overrides an existing key; distinct by hash")


def gen_case(rng):
    layers = dgen.chain(rng)
    return ["history", None, hist.chain_history(layers)]


def nontrivial(c, a, b):
    docs = hist.docs_of_history(c)
    if len(docs) < 2:
        return False
    base = docs[0]
    for d in docs[1:]:
        if dgen.has_directive(d):
            return True
        if isinstance(d, dict) and isinstance(base, dict) and set(d) & set(base):
            return True
    return False


def dist_fn(dist, c, a, b):
    docs = hist.docs_of_history(c)
    dist.setdefault("layers", {})
    dist["layers"][str(len(docs))] = dist["layers"].get(str(len(docs)), 0) + 1
    merged_ok = all(o[1][0] == "ok" for o in b if o[0] == "merge") if isinstance(b, list) else False
    dist["all_layers_accepted"] = dist.get("all_layers_accepted", 0) + (1 if merged_ok else 0)
    for o in (b if isinstance(b, list) else []):
        if o[0] == "merge" and o[1][0] == "err":
            k = "reject_" + o[1][1]
            dist[k] = dist.get(k, 0) + 1
        if o[0] == "out":
            k = "output_" + (o[1][0] if o[1][0] == "ok" else "err_" + o[1][1])
            dist[k] = dist.get(k, 0) + 1


def run(ctx):
    n = ctx.n(1500, 30000)
    stats = histprop.run_history_property(ctx, "C01", gen_case, n, RULE, nontrivial, dist_fn=dist_fn)
    rng = core.Rng(ctx.seed + 1)
    nf = ctx.n(250, 5000)
    chains = [[[l] for l in dgen.chain(rng.fork("fc%d" % i))] for i in range(nf)]
    done = filepass.run_layers_through_files(ctx, chains, rng, "C01", "c01-disagreement")
    stats["distribution"]["chains_through_layer_files"] = done
    stats["evaluations"] += done
    stats["disagreements_checked"] = len(ctx.violations)
    return stats


def replay(ctx, payload):
    return histprop.replay_history(ctx, payload)


def matches_known(k, v):
    return False
