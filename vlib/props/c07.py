# C07 — no unresolved $required or stray directive ever reaches the output.
from .. import filepass, core, dgen, evalgen, gen, hist, histprop
from ..core import F

CLI = ("bkl",)
HARNESS = True
ASSUMPTIONS = ["theorems are about Model.Eval.validate/outputs_of; tie to validate.go/parser.go is this run's comparison of success/failure (and the required-field / invalid-directive class) and outputs"]
RULE = ("layer chains (1-3 layers) with $required and directive-shaped strings/keys (known, unknown, wrong position, wrong argument type, upper-case and "
        "non-ASCII look-alikes) injected at values, list entries and keys, also under $output:false, inside $encode subtrees (single encodings and chains whose first stage only reshapes: values/flatten/tolist/prefix) and inside YAML anchors reached through aliases and merge keys; compared: "
        "ok/err with error class, outputs; implementation-only oracle: a successful output of an input without '$$' contains no '$required' and no "
        "'$'+lowercase string; non-trivial = an injected marker is present in some layer; distinct by hash")


def gen_case(rng):
    layers = evalgen.c07_chain(rng)
    return ["history", None, hist.chain_history(layers, docs_each=False)]


def bad_strings(v):
    for s in gen.walk_strings(v):
        if s == "$required" or (len(s) >= 2 and s[0] == "$" and s[1].islower() and s[1].isalpha()):
            yield s


def judge(c, a, b):
    if hist.has_oracle_miss(b):
        return None
    r = hist.compare_outs(a, b)
    if r:
        return r[1]
    docs = hist.docs_of_history(c)
    if isinstance(a, list) and a and a[-1][0] == "out" and a[-1][1][0] == "ok":
        if not any("$$" in s for d in docs for s in gen.walk_strings(d)):
            bad = list(bad_strings(a[-1][1][1]))
            if bad:
                return "successful output contains unresolved marker(s) %r" % bad[:3]
    return None


def nontrivial(c, a, b):
    return any(s.startswith("$") for d in hist.docs_of_history(c) for s in gen.walk_strings(d))


def dist_fn(dist, c, a, b):
    if isinstance(b, list) and b:
        last = b[-1]
        if last[0] == "out":
            k = "out_" + (last[1][0] if last[1][0] == "ok" else "err_" + last[1][1])
        else:
            k = "merge_failed"
        dist[k] = dist.get(k, 0) + 1


MARKERS = ["$required", "$delete", "$match", "$replace", "$bogus", "$output", "$merge:nope", "$valeu", "$encode", "$repeat"]


def anchor_doc(rng):
    """(YAML text, the tree it denotes): a marker sits inside an ANCHORED node and reaches other places through an alias or
    a merge key - possibly overridden by a local key, possibly under $output: false"""
    marker = rng.pick(MARKERS)
    shape = rng.below(4)
    if shape == 0:
        inner = {"k": marker, "v": 1}
    elif shape == 1:
        inner = {"k": [1, marker], "v": 1}
    elif shape == 2:
        inner = {"k": {"deep": marker}, "v": 1}
    else:
        inner = {"v": 1, marker if marker not in ("$output", "$encode", "$repeat", "$match", "$replace", "$required") else "$mtach": 2}
    hidden = rng.chance(1, 3)
    tpl = dict(inner)
    if hidden:
        tpl["$output"] = False

    def flow(v):
        if isinstance(v, dict):
            return "{" + ", ".join("%s: %s" % (gen._json_tok(k), flow(x)) for k, x in v.items()) + "}"
        if isinstance(v, list):
            return "[" + ", ".join(flow(x) for x in v) + "]"
        return gen._json_tok(v)
    use = rng.below(5)
    import copy
    tree = {"tpl": copy.deepcopy(tpl), "other": 1}
    text = "other: 1\ntpl: &t %s\n" % flow(tpl)
    if use == 0:
        text += "use: *t\n"
        tree["use"] = copy.deepcopy(tpl)
    elif use == 1:
        text += "use: {<<: *t, extra: 2}\n"
        tree["use"] = dict(copy.deepcopy(tpl), extra=2)
    elif use == 2:
        # the local key overrides the marker that came through the merge key; $output is re-stated so the use is visible
        text += "use: {<<: *t, k: 5, \"$output\": true}\n"
        u = dict(copy.deepcopy(tpl))
        u["k"] = 5
        u["$output"] = True
        tree["use"] = u
    elif use == 3:
        text += "use: [*t, 7]\n"
        tree["use"] = [copy.deepcopy(tpl), 7]
    else:
        text += "use: {inner: *t}\n"
        tree["use"] = {"inner": copy.deepcopy(tpl)}
    return text, tree


def anchor_pass(ctx, rng, n, dist):
    """markers inside YAML anchors: the text (anchors, aliases, merge keys) through the real binary vs the denoted tree through
    the model; a successful output must contain no marker"""
    import os
    d = os.path.join(ctx.work, "anch")
    os.makedirs(d, exist_ok=True)
    docs = [anchor_doc(rng.fork("a%d" % i)) for i in range(n)]
    for i, (text, tree) in enumerate(docs):
        open(os.path.join(d, "an%d.yaml" % i), "w").write(text)
    res = core.pmap(lambda i: core.cli(os.path.join(ctx.bindir, "bkl"), ["-f", "json", "an%d.yaml" % i], d), range(n))
    cases = [["history", None, hist.stream_history([tree])] for _, tree in docs]
    hist.collect_tables(ctx, cases, lambda c: {}, hist.docs_of_history)
    mo = ctx.model(cases)
    ok = 0
    for (text, tree), (rc, out, err), m in zip(docs, res, mo):
        if hist.has_oracle_miss(m):
            continue
        why = None
        mout = m[-1] if isinstance(m, list) and m else None
        mok = bool(mout and mout[0] == "out" and mout[1][0] == "ok")
        if rc == 0:
            ok += 1
            got = core.parse_json_docs(out.decode("utf-8", "replace"))
            bad = list(bad_strings(got))
            if bad:
                why = "a marker inside a YAML anchor reached the output: %r" % bad[:3]
            elif not mok:
                why = "bkl accepts the document, the model refuses the tree it denotes (%s)" % (mout,)
            elif not core.veq(got, mout[1][1]):
                why = "output %s differs from the model's %s" % (hist.short(got), hist.short(mout[1][1]))
        elif mok:
            why = "bkl refuses (%s) a document the model evaluates" % err.strip()[-150:]
        if why and len(ctx.violations) < 5:
            ctx.violations.append({"name": "anchor-" + core.vhash(text), "property": "C07", "kind": "failing-input", "why": why, "yaml": text,
                                   "class": "c07-marker-through-anchor"})
    dist["yaml_anchor_documents"] = n
    dist["yaml_anchor_accepted"] = ok
    return n


def run(ctx):
    n = ctx.n(2000, 40000)
    stats = histprop.run_history_property(ctx, "C07", gen_case, n, RULE, nontrivial, judge=judge, dist_fn=dist_fn)
    rng = core.Rng(ctx.seed + 1)
    nf = ctx.n(200, 4000)
    cases = [gen_case(rng.fork("fc%d" % i)) for i in range(nf)]
    done = filepass.run_layers_through_files(ctx, [filepass.layers_of_history(c) for c in cases], rng, "C07", "c07-disagreement")
    stats["distribution"]["through_layer_files"] = done
    stats["evaluations"] += done
    stats["evaluations"] += anchor_pass(ctx, core.Rng(ctx.seed + 2), ctx.n(120, 3000), stats["distribution"])
    stats["disagreements_checked"] = len(ctx.violations)
    return stats


def replay(ctx, payload):
    return histprop.replay_history(ctx, payload)


def matches_known(k, v):
    return False
