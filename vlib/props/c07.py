# C07 — no unresolved $required or stray directive ever reaches the output.
from .. import filepass, core, dgen, evalgen, gen, hist, histprop
from ..core import F

CLI = ("bkl",)
HARNESS = True
ASSUMPTIONS = ["theorems are about Model.Eval.validate/outputs_of; tie to validate.go/parser.go is this run's comparison of success/failure (and the required-field / invalid-directive class) and outputs"]
RULE = ("layer chains (1-3 layers) with $required and directive-shaped strings/keys (known, unknown, wrong position, wrong argument type, upper-case and "
        "non-ASCII look-alikes) injected at values, list entries and keys, also under $output:false and inside $encode subtrees; compared: "
        "ok/err with error class, outputs; implementation-only oracle: a successful output of an input without '$$' contains no '$required' and no "
        "'$'+lowercase string; non-trivial = an injected marker is present in some layer; distinct by hash")


def gen_case(rng):
    layers = evalgen.c07_chain(rng)
    return ["history", None, hist.chain_history(layers, docs_each=False)]


def bad_strings(v):
    for s in gen.walk_strings(v):
        if s == "$required" or (len(s) >= 2 and s[0] == "$" and s[1].islower() and s[1].isalpha()):
            yield s


def judge(c, a, b):
    if hist.has_oracle_miss(b):
        return None
    r = hist.compare_outs(a, b)
    if r:
        return r[1]
    docs = hist.docs_of_history(c)
    if isinstance(a, list) and a and a[-1][0] == "out" and a[-1][1][0] == "ok":
        if not any("$$" in s for d in docs for s in gen.walk_strings(d)):
            bad = list(bad_strings(a[-1][1][1]))
            if bad:
                return "successful output contains unresolved marker(s) %r" % bad[:3]
    return None


def nontrivial(c, a, b):
    return any(s.startswith("$") for d in hist.docs_of_history(c) for s in gen.walk_strings(d))


def dist_fn(dist, c, a, b):
    if isinstance(b, list) and b:
        last = b[-1]
        if last[0] == "out":
            k = "out_" + (last[1][0] if last[1][0] == "ok" else "err_" + last[1][1])
        else:
            k = "merge_failed"
        dist[k] = dist.get(k, 0) + 1


def run(ctx):
    n = ctx.n(2000, 40000)
    stats = histprop.run_history_property(ctx, "C07", gen_case, n, RULE, nontrivial, judge=judge, dist_fn=dist_fn)
    rng = core.Rng(ctx.seed + 1)
    nf = ctx.n(200, 4000)
    cases = [gen_case(rng.fork("fc%d" % i)) for i in range(nf)]
    done = filepass.run_layers_through_files(ctx, [filepass.layers_of_history(c) for c in cases], rng, "C07", "c07-disagreement")
    stats["distribution"]["through_layer_files"] = done
    stats["evaluations"] += done
    stats["disagreements_checked"] = len(ctx.violations)
    return stats


def replay(ctx, payload):
    return histprop.replay_history(ctx, payload)


def matches_known(k, v):
    return False
