# C17 — bklr keeps exactly the $required skeleton and agrees with bkl on what is missing.
import os

from .. import core, gen
from ..core import F, veq

CLI = ("bkl", "bklr")
HARNESS = False
ASSUMPTIONS = [
    "theorems are about Model.Tools.required / Model.Eval; tie to cmd/bklr and cmd/bkl is this run's differential comparison",
    "layers contain no directive other than $required (the property's quantifier)",
]
REQ = "$required"
PROF = {"strs": ["s", "t", "u", "v w", "1", "é"], "nulls": False, "width": 3}


def py_merge(d, s):
    """plain merge used only to steer generation (never as an oracle)"""
    if isinstance(d, dict) and isinstance(s, dict):
        r = dict(d)
        for k, v in s.items():
            r[k] = py_merge(r[k], v) if k in r else v
        return r
    if isinstance(d, list) and isinstance(s, list):
        return [x for x in d if x != REQ] + s
    return s


def inject_required(rng, v, p_num, p_den):
    if isinstance(v, dict):
        return {k: (REQ if rng.chance(p_num, p_den) else inject_required(rng, x, p_num, p_den)) for k, x in v.items()}
    if isinstance(v, list):
        return [(REQ if rng.chance(p_num, p_den) else inject_required(rng, x, p_num, p_den)) for x in v]
    return v


def derive_child(rng, cur):
    """an upper layer that satisfies some markers, overrides some leaves, adds keys/markers"""
    child = {}
    ps = [p for p in gen.paths(cur) if p and all(isinstance(s, str) for s in p)]
    rng_ps = rng.shuffle(ps)[: 1 + rng.below(4)]
    for p in rng_ps:
        sub = gen.at(cur, p)
        if isinstance(sub, dict):
            new = {rng.pick(["n", "m", "a"]): rng.pick([REQ, 5, "w", {"q": REQ}])}
        elif isinstance(sub, list):
            new = [rng.pick([REQ, 9, "z", {"k": REQ}, [REQ]])] if rng.chance(2, 3) else []
        else:
            new = gen.different_scalar(rng, sub, PROF) if rng.chance(5, 6) else sub   # occasionally a useless override
        # build sparse map along p, unless an ancestor was already replaced by a non-map
        node = child
        ok = True
        for s in p[:-1]:
            if s not in node:
                node[s] = {}
            if not isinstance(node[s], dict):
                ok = False
                break
            node = node[s]
        if ok and p[-1] not in node:
            node[p[-1]] = new
    if rng.chance(1, 3):
        child[rng.pick(["new1", "new2"])] = rng.pick([REQ, 1, {"deep": [REQ, 2]}])
    return child


def gen_case(rng):
    n = 1 + rng.below(3)
    base = gen.tree(rng, 3, PROF, root_map=True)
    base = inject_required(rng, base, 1, 4)
    if not isinstance(base, dict):
        base = {"a": base}
    layers = [base]
    cur = base
    for _ in range(n - 1):
        c = derive_child(rng, cur)
        layers.append(c)
        cur = py_merge(cur, c)
    return layers


def count_req(v):
    if isinstance(v, dict):
        return sum(count_req(x) for x in v.values())
    if isinstance(v, list):
        return sum(count_req(x) for x in v)
    return 1 if v == REQ and not isinstance(v, F) else 0


def write_layers(d, layers, rng):
    os.makedirs(d, exist_ok=True)
    names = ["a", "a.b", "a.b.c"]
    top = None
    fmts = []
    for i, l in enumerate(layers):
        f = gen.pick_format(rng, [l])
        fmts.append(f)
        top = "%s.%s" % (names[i], f)
        with open(os.path.join(d, top), "w") as fh:
            fh.write(gen.emit(f, [l], rng))
    return top, fmts


def run_impl(ctx, idx, layers, rng):
    d = os.path.join(ctx.work, "c%d" % idx)
    top, fmts = write_layers(d, layers, rng)
    bklr = os.path.join(ctx.bindir, "bklr")
    bkl = os.path.join(ctx.bindir, "bkl")
    r = {"fmts": fmts}
    if rng.chance(1, 3):
        # the result written to a file named by -o (its extension selects the format) instead of -f to stdout
        rc, out, err = core.cli(bklr, ["-o", "skel.json", top], d)
        if rc == 0:
            try:
                out = open(os.path.join(d, "skel.json"), "rb").read()
            except OSError:
                out = b"missing output file"
    else:
        rc, out, err = core.cli(bklr, ["-f", "json", top], d)
    r["bklr_rc"], r["bklr_err"] = rc, err[-300:]
    r["bklr_out"] = None
    if rc == 0:
        try:
            docs = core.parse_json_docs(out.decode("utf-8", "replace"))
            r["bklr_out"] = docs
            # idempotence, through a file
            with open(os.path.join(d, "r.json"), "wb") as fh:
                fh.write(out)
            rc2, out2, err2 = core.cli(bklr, ["-f", "json", "r.json"], d)
            r["bklr2_rc"] = rc2
            r["bklr2_out"] = core.parse_json_docs(out2.decode("utf-8", "replace")) if rc2 == 0 else None
        except Exception as e:   # unparsable output
            r["bklr_out"] = "unparsable: %r" % (e,)
    rc, out, err = core.cli(bkl, ["-f", "json", top], d)
    r["bkl_rc"], r["bkl_err"] = rc, err[-300:]
    r["bkl_stdout_len"] = len(out)
    r["bkl_out"] = None
    if rc == 0:
        try:
            r["bkl_out"] = core.parse_json_docs(out.decode("utf-8", "replace"))
        except Exception as e:
            r["bkl_out"] = "unparsable: %r" % (e,)
    return r


def judge(layers, im, mo):
    """returns None or a description of the disagreement / violated clause"""
    if mo[0][0] == "err":
        if im["bklr_rc"] == 0:
            return "layers do not merge in the model (%s) but bklr succeeded" % mo[0][1]
        if im["bkl_rc"] == 0:
            return "layers do not merge in the model (%s) but bkl succeeded" % mo[0][1]
        return None
    merged, req, ev = mo[0][1], mo[1], mo[2]
    if im["bklr_rc"] != 0:
        return "bklr failed (%s) where the model merges" % im["bklr_err"].strip()
    if not isinstance(im["bklr_out"], list) or len(im["bklr_out"]) != 1:
        return "bklr output is not one JSON document: %r" % (im["bklr_out"],)
    out = im["bklr_out"][0]
    if not veq(out, req):
        return "bklr output differs from the $required skeleton of the merged input"
    if count_req(out) != count_req(merged):
        return "marker count differs"
    if im.get("bklr2_rc") != 0 or not isinstance(im.get("bklr2_out"), list) or not veq(im["bklr2_out"], [out]):
        return "bklr is not idempotent on its own output"
    want_fail = req is not None
    if want_fail:
        if im["bkl_rc"] == 0:
            return "bkl evaluated an input with an unresolved $required"
        if "required field not set" not in im["bkl_err"]:
            return "bkl failed with another error than required-field: %s" % im["bkl_err"].strip()
        if im["bkl_stdout_len"] != 0:
            return "bkl wrote to stdout although it failed"
        if not (ev[0] == "err" and ev[1] == "required"):
            return "model evaluation does not fail with the required-field error: %r" % (ev,)
    else:
        if im["bkl_rc"] != 0:
            return "bkl refused an input without $required: %s" % im["bkl_err"].strip()
        if ev[0] != "ok":
            return "model evaluation fails (%s) where bkl succeeds" % ev[1]
        if not isinstance(im["bkl_out"], list) or not veq(im["bkl_out"], ev[1]):
            return "bkl output differs from the model's evaluation"
    return None


def run_batch(ctx, cases, rng):
    mcases = [["c17", {}, layers] for layers in cases]
    mo = ctx.model(mcases)
    rngs = [rng.fork("emit%d" % i) for i in range(len(cases))]
    im = core.pmap(lambda i: run_impl(ctx, i, cases[i], rngs[i]), range(len(cases)))
    return im, mo


def shrink(ctx, layers, rng, why):
    cur = layers
    for _ in range(40):
        cands = []
        if len(cur) > 1:
            cands.append(cur[:-1])
        for i, l in enumerate(cur):
            for t in gen.shrink_tree(l):
                if isinstance(t, dict):
                    cands.append(cur[:i] + [t] + cur[i + 1:])
        cands = cands[:200]
        if not cands:
            break
        im, mo = run_batch(ctx, cands, rng)
        nxt = None
        for c, a, b in zip(cands, im, mo):
            if judge(c, a, b) is not None:
                nxt = c
                break
        if nxt is None:
            break
        cur = nxt
    return cur


def run(ctx):
    n = ctx.n(400, 6000)
    rng = core.Rng(ctx.seed)
    corpus = load_corpus()
    cases = corpus + [gen_case(rng.fork("case%d" % i)) for i in range(n)]
    im, mo = run_batch(ctx, cases, rng)
    seen = set()
    nontrivial = 0
    dist = {"layers": {}, "merge_err": 0, "with_marker": 0, "satisfied": 0, "formats": {}}
    for layers, a, b in zip(cases, im, mo):
        why = judge(layers, a, b)
        dist["layers"][str(len(layers))] = dist["layers"].get(str(len(layers)), 0) + 1
        for f in a["fmts"]:
            dist["formats"][f] = dist["formats"].get(f, 0) + 1
        if b[0][0] == "err":
            dist["merge_err"] += 1
        else:
            total_in = sum(count_req(l) for l in layers)
            left = count_req(b[0][1])
            if left:
                dist["with_marker"] += 1
            if total_in > left:
                dist["satisfied"] += 1
            h = core.vhash(layers)
            if (left or total_in > left) and h not in seen:
                seen.add(h)
                nontrivial += 1
        if why:
            small = shrink(ctx, layers, rng, why)
            sim, smo = run_batch(ctx, [small], rng)
            ctx.violations.append({
                "name": "case-" + core.vhash(small),
                "property": "C17", "kind": "failing-input", "why": judge(small, sim[0], smo[0]) or why,
                "input": {"layers": core.to_jsonable(small)},
                "implementation": {k: core.to_jsonable(v) for k, v in sim[0].items()},
                "model": core.to_jsonable(smo[0]),
                "class": "c17-disagreement",
            })
            if len(ctx.violations) >= 5:
                break
    return {
        "evaluations": len(cases),
        "distinct_nontrivial": nontrivial,
        "rule": "single-document chains of 1-3 layers (JSON/YAML/TOML files, layered by filename) with $required injected at map values and "
                "list entries; upper layers derived from the merged lower ones; non-trivial = merged document still has a marker or an "
                "upper layer satisfied one; distinct by hash of the layers",
        "samples": [core.to_jsonable(c) for c in cases[len(corpus):len(corpus) + 3]],
        "distribution": dist,
        "disagreements_checked": len(ctx.violations),
    }


def load_corpus():
    import json
    d = os.path.join(core.VERIF, "corpus", "C17")
    out = []
    if os.path.isdir(d):
        for f in sorted(os.listdir(d)):
            out.append(core.from_jsonable(json.load(open(os.path.join(d, f)))["layers"]))
    return out


def replay(ctx, payload):
    layers = core.from_jsonable(payload["input"]["layers"])
    rng = core.Rng(1)
    im, mo = run_batch(ctx, [layers], rng)
    why = judge(layers, im[0], mo[0])
    print("implementation:", im[0])
    print("model:", mo[0])
    print("verdict:", why or "agrees")
    return 1 if why else 0


def matches_known(k, v):
    return False
