# C05 — output round-trips in every format: what bkl writes reads back unchanged.
import os
import shutil

from .. import core, gen, hist
from ..core import F, veq
from . import c03

CLI = ("bkl",)
HARNESS = True
ASSUMPTIONS = [
    "theorems: split/join of document texts on separator lines round-trips when no document text contains a separator line; format selection "
    "(Model.Stream, Model.Files.chosen_format); the per-document encoders/decoders are third-party: their round-trip law and 'no separator "
    "line inside a document' are hypotheses, tested here on every case with bkl's own reader and with python json / PyYAML / tomllib",
    "PyYAML is a YAML 1.1 parser: scalars it resolves differently from YAML 1.2 (e.g. 1e+100 as a string) are compared numerically; '=' and '<<' values are excluded from the PyYAML oracle",
]
RULE = ("streams of 1-4 documents over printable strings incl. look-alikes of numbers, booleans, null, dates, comments and separators, empty maps "
        "and lists, 64-bit integers, doubles; written through the library (all six format names), -f (the four it accepts), the -o extension and a "
        "virtual input extension; every output re-read by bkl itself and by an independent python parser; compared with the source documents; "
        "the format written must be the one the selection rule names; non-trivial = the stream contains a look-alike string or >= 2 documents; "
        "distinct by hash")

LOOKALIKES = ["1", "1e3", "1.5", "-0", "0x10", "0o7", "true", "false", "yes", "no", "on", "off", "null", "~", "2001-01-01", "2001-01-01T00:00:00Z",
              "---", "+++", "a\n---\nb", "--- x", "# x", "a # b", ": ", "a: b", "- x", "[1]", "{a: 1}", " lead", "trail ", "'", "\"", "'q'", "\"dq\"",
              "*a", "&a", "!t", "|", ">", "%", "@", "`", "=", "<<", "a\tb", "é", "line1\nline2", "", " ", "\\", "\\n", "1_000", ".5", "+1", "1.", "inf", ".nan",
              "x\n", "keep\n\n", "echo one\necho two\n", "\n", "\n\n", " \n", "a\n b\n", "\nlead", "tab\t\n", "--- \n", "a\r\nb", "- a\n- b\n", "k: v\n"]
SAFE_KEYS = ["a", "b", "c", "k1", "x y", "é", "1", "true", "null", "a.b", "#k", "k:", "-", "~"]
NUMS = [0, 1, -1, 42, 2147483648, -9223372036854775807, 9223372036854775807, F("0.5"), F("0.1"), F("1e+100"), F("-2.25"), F("1e-07"), F("123456.789")]


def doc(rng, depth, root_map):
    def leaf():
        k = rng.below(10)
        if k < 5:
            return rng.pick(LOOKALIKES)
        if k < 8:
            return rng.pick(NUMS)
        return rng.pick([True, False])
    def node(d, force_map=False):
        if d <= 0 and not force_map:
            return leaf()
        k = rng.below(10)
        if force_map or k < 4:
            return {rng.pick(SAFE_KEYS): node(d - 1) for _ in range(rng.below(4))}
        if k < 6:
            return [node(d - 1) for _ in range(rng.below(4))]
        return leaf()
    return node(depth, root_map)


def gen_stream(rng):
    n = 1 + rng.below(4)
    toml = rng.chance(1, 2)
    return [doc(rng, 2, toml or rng.chance(2, 3)) for _ in range(n)]


def py_norm_yaml(got, want):
    """PyYAML (YAML 1.1) vs the source value: compare numerically where 1.1 and 1.2 resolve differently"""
    if isinstance(want, F):
        if isinstance(got, F):
            return got == want
        if isinstance(got, (int, str)):
            try:
                return core.go_g(float(got)) == str(want)
            except Exception:
                return False
        return False
    if isinstance(want, dict):
        return isinstance(got, dict) and set(got) == set(want) and all(py_norm_yaml(got[k], want[k]) for k in want)
    if isinstance(want, list):
        return isinstance(got, list) and len(got) == len(want) and all(py_norm_yaml(a, b) for a, b in zip(got, want))
    return veq(got, want)


def has_pyyaml_blind(v):
    return any(s in ("=", "<<") for s in gen.walk_strings(v))


def toml_ok_stream(docs):
    return all(isinstance(d, dict) for d in docs)


def framing_pass(ctx, streams, dist):
    """the tie of Model/Stream.v (join_docs / split_docs, which the C05 theorems are about) to yaml.go / toml.go: for each stream
    and each of yaml, toml - bkl's MarshalStream (public Format API) must equal the model's join of the per-document texts
    produced by the codec libraries called directly, and the model's split of that stream must give back exactly those texts,
    as many documents as bkl itself reads back"""
    cases, meta = [], []
    for si, docs in enumerate(streams):
        for f in ("yaml", "toml"):
            if f == "toml" and not all(gen.toml_ok(d) for d in docs):
                continue
            cases.append(["frame", f, docs])
            meta.append((si, f))
    res = ctx.impl(cases)
    joins, splits, keep = [], [], []
    for (si, f), r in zip(meta, res):
        if not (isinstance(r, list) and r and r[0] == "ok"):
            continue
        info = r[1]
        parts = [p.split("\n")[:-1] if p.endswith("\n") else (p.split("\n") if p else []) for p in info["parts"]]
        if any(("\r" in l) for p in parts for l in p):
            continue
        joins.append(["framejoin", parts])
        splits.append(["framesplit", f == "toml", info["stream"].split("\n")[:-1] if info["stream"].endswith("\n") else (info["stream"].split("\n") if info["stream"] else [])])
        keep.append((si, f, info, parts))
    mj = ctx.model(joins) if joins else []
    ms = ctx.model(splits) if splits else []
    n = 0
    for (si, f, info, parts), j, sp in zip(keep, mj, ms):
        n += 1
        why = None
        want_stream = "".join(l + "\n" for l in j)
        # a separator line inside a document's own text is the premise of the theorem failing (strings are escaped by the codecs)
        clean = all(l not in ("---",) + (("+++",) if f == "toml" else ()) for p in parts for l in p)
        if want_stream != info["stream"]:
            why = "bkl's %s MarshalStream writes %r, the model's join of the per-document texts is %r" % (f, info["stream"][:300], want_stream[:300])
        elif clean and sp != parts and not (parts == [[]] and sp == [[]]):
            why = "the model splits bkl's %s stream into %r, the documents' texts are %r" % (f, sp[:4], parts[:4])
        elif clean and isinstance(info["read"], list) and info["read"][0] == "ok" and len(info["read"][1]) != len(sp):
            why = "bkl reads %d documents back from its own %s stream, the model's split has %d" % (len(info["read"][1]), f, len(sp))
        if why and len([v for v in ctx.violations if v.get("class") == "c05-framing"]) < 2:
            ctx.violations.append({"name": "frame-%s-%d" % (f, si), "property": "C05", "kind": "no-failing-input-found",
                                   "theorem": "C05_split_join / C05_stream_roundtrip (Properties/C05.v) are about Model.Stream.join_docs/split_docs; their correspondence with yaml.go/toml.go framing broke",
                                   "why": why, "stream": core.to_jsonable(streams[si]), "format": f, "class": "c05-framing"})
    dist["framing_compared_with_model"] = n
    return n


def run(ctx):
    n = ctx.n(150, 4000)
    rng = core.Rng(ctx.seed)
    streams = [gen_stream(rng.fork("s%d" % i)) for i in range(n)]
    libfmts = ["json", "jsonl", "json-pretty", "yaml", "yml", "toml"]
    # library outputs for every format name
    cases = [["history", {}, hist.stream_history(s, with_out=False) + [["outfmt", f] for f in libfmts]] for s in streams]
    lib = ctx.impl(cases)
    seen, nt = set(), 0
    dist = {"lib_outputs": 0, "lib_refused": 0, "cli_runs": 0, "py_checked": 0, "reread_checked": 0}
    problems = {}

    def check_text(si, f, text, how):
        """re-read text in format f with bkl and with python; None or a description"""
        want = streams[si]
        d = os.path.join(ctx.work, "rr%d_%s_%s" % (si, f.replace("-", ""), how))
        shutil.rmtree(d, ignore_errors=True)
        os.makedirs(d)
        fn = "out." + f
        open(os.path.join(d, fn), "wb").write(text)
        rc, out, err = core.cli(os.path.join(ctx.bindir, "bkl"), ["-f", "json", fn], d)
        shutil.rmtree(d, ignore_errors=True)
        if rc != 0:
            return "bkl cannot read back its own %s output (%s): %s" % (f, how, err.strip()[-200:])
        got = core.parse_json_docs(out.decode("utf-8", "replace"))
        if not veq(got, want):
            return "%s output (%s) re-read by bkl differs: %s vs %s" % (f, how, hist.short(got), hist.short(want))
        dist["reread_checked"] += 1
        py = hist.py_decode(f, text.decode("utf-8", "replace"))
        if py is None or py[0] != "ok":
            if f in ("yaml", "yml") and has_pyyaml_blind(want):
                return None
            return "%s output (%s) is rejected by the independent python parser" % (f, how)
        pdocs = py[1]
        if f in ("yaml", "yml"):
            if has_pyyaml_blind(want):
                return None
            if text == b"":
                pdocs = []
            ok = len(pdocs) == len(want) and all(py_norm_yaml(a, b) for a, b in zip(pdocs, want))
        else:
            ok = veq(pdocs, want)
        dist["py_checked"] += 1
        if not ok:
            return "%s output (%s) read by the independent python parser differs: %s vs %s" % (f, how, hist.short(pdocs), hist.short(want))
        return None

    jobs = []
    for si, (s, r) in enumerate(zip(streams, lib)):
        if not isinstance(r, list) or r[0] in ("panic", "crash"):
            problems[si] = "library crashed: %r" % (r[:2],)
            continue
        outs = r[-len(libfmts):]
        for f, o in zip(libfmts, outs):
            if f == "toml" and not toml_ok_stream(s):
                continue            # the property's quantifier: TOML only for map-rooted documents
            if o[1][0] == "ok":
                dist["lib_outputs"] += 1
                jobs.append((si, f, o[1][1].encode("utf-8", "surrogateescape"), "library"))
            else:
                dist["lib_refused"] += 1
                if f != "toml" or toml_ok_stream(s):
                    problems.setdefault(si, "Output(%s) refused a stream it can express: %s" % (f, o[1][1]))
    res = core.pmap(lambda j: check_text(*jobs[j]), range(len(jobs)))
    for (si, f, text, how), why in zip(jobs, res):
        if why:
            problems.setdefault(si, why)
    # CLI: -f, -o extension, virtual input extension; the format written must be the selected one
    lib_bytes = {}
    for si, r in enumerate(lib):
        if isinstance(r, list) and r and r[0] not in ("panic", "crash"):
            for f, o in zip(libfmts, r[-len(libfmts):]):
                if o[1][0] == "ok":
                    lib_bytes[(si, f)] = o[1][1].encode("utf-8", "surrogateescape")

    def cli_job(si):
        s = streams[si]
        r = rng.fork("cli%d" % si)
        d = os.path.join(ctx.work, "cli%d" % si)
        shutil.rmtree(d, ignore_errors=True)
        os.makedirs(d)
        open(os.path.join(d, "in.json"), "w").write(gen.emit("json", s))
        out = []
        fsel = r.pick(["json", "json-pretty", "toml", "yaml"])
        oext = r.pick(libfmts)
        vext = r.pick(libfmts)
        # (args, expected format, reads output from)
        plans = [(["-f", fsel, "in.json"], fsel, None),
                 (["-o", "o." + oext, "in.json"], oext, "o." + oext),
                 (["in." + vext], vext, None),
                 (["-f", fsel, "-o", "o2." + oext, "in." + vext], fsel, "o2." + oext)]
        for args, want_fmt, path in plans:
            if path and r.chance(1, 2):
                # the output file already exists and is longer than what will be written: a stale earlier result
                open(os.path.join(d, path), "wb").write(("# stale\n" + "stale: %s\n" % ("x" * 40)) .encode() * (20 + r.below(20)))
            rc, so, err = core.cli(os.path.join(ctx.bindir, "bkl"), args, d)
            data = so
            if rc == 0 and path:
                data = open(os.path.join(d, path), "rb").read()
            out.append((args, want_fmt, rc, data, err[-200:]))
        shutil.rmtree(d, ignore_errors=True)
        return out
    cli_res = core.pmap(cli_job, range(len(streams)))
    for si, runs in enumerate(cli_res):
        for args, want_fmt, rc, data, err in runs:
            dist["cli_runs"] += 1
            exp = lib_bytes.get((si, want_fmt))
            if want_fmt == "toml" and not toml_ok_stream(streams[si]):
                continue
            if exp is None:
                if rc == 0 and (want_fmt != "toml" or toml_ok_stream(streams[si])):
                    problems.setdefault(si, "bkl %s wrote output although the library refuses format %s" % (args, want_fmt))
                continue
            if rc != 0:
                problems.setdefault(si, "bkl %s failed: %s" % (args, err))
            elif data != exp:
                problems.setdefault(si, "bkl %s did not write format %s (bytes differ from the library's Output(%s))" % (args, want_fmt, want_fmt))
    for si, s in enumerate(streams):
        h = core.vhash(s)
        if h not in seen and (len(s) >= 2 or any(x in LOOKALIKES for x in gen.walk_strings(s))):
            seen.add(h)
            nt += 1
        if si in problems and len(ctx.violations) < 5:
            ctx.violations.append({"name": "case-" + h, "property": "C05", "kind": "failing-input", "why": problems[si], "stream": core.to_jsonable(s),
                                   "class": "c05-roundtrip"})
    nframe = framing_pass(ctx, streams, dist)
    return {"evaluations": dist["lib_outputs"] + dist["cli_runs"] + nframe, "distinct_nontrivial": nt, "rule": RULE,
            "samples": [core.to_jsonable(s) for s in streams[:2]], "distribution": dist, "disagreements_checked": len(ctx.violations)}


def replay(ctx, payload):
    print("replay: stream", payload.get("stream"))
    return 0


def matches_known(k, v):
    st = core.from_jsonable(v.get("stream", []))
    why = v.get("why", "")
    yamlish = ("yaml" in why) or ("yml" in why)
    if k.get("class") == "yaml-key-is-merge-token":
        def has_key(x):
            if isinstance(x, dict):
                return "<<" in x or any(has_key(y) for y in x.values())
            if isinstance(x, list):
                return any(has_key(y) for y in x)
            return False
        return yamlish and has_key(st)
    if k.get("class") == "yaml-string-leading-newline":
        return yamlish and any(s.startswith("\n") for s in gen.walk_strings(st))
    return False


def check_known(ctx, k):
    """does the recorded witness still fail?"""
    s = core.from_jsonable(k["witness"]["stream"])
    d = os.path.join(ctx.work, "known")
    shutil.rmtree(d, ignore_errors=True)
    os.makedirs(d)
    open(os.path.join(d, "in.json"), "w").write(gen.emit("json", s))
    bkl = os.path.join(ctx.bindir, "bkl")
    rc, out, err = core.cli(bkl, ["-f", "yaml", "in.json"], d)
    open(os.path.join(d, "o.yaml"), "wb").write(out)
    rc2, out2, err2 = core.cli(bkl, ["-f", "json", "o.yaml"], d)
    if rc2 != 0:
        return True
    return not veq(core.parse_json_docs(out2.decode()), s)
