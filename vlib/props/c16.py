# C16 — bkli yields the maximal common base, and the migrate workflow is lossless.
import os
import shutil

from .. import core, edits, gen, hist
from ..core import F, veq

CLI = ("bkl", "bkld", "bkli")
HARNESS = False
ASSUMPTIONS = [
    "theorems are about Model.Tools.intersect/intersect_all (+ diff, merge for the migration); tie to cmd/bkli, cmd/bkld and bkl is this run's differential comparison of the binaries",
    "domain: map-rooted, null-free, $-free trees",
]
RULE = ("sets of 2-4 trees derived from a common ancestor by arbitrary edits (incl. list reordering/duplication, kind changes and print-alike scalars of another kind), and unrelated "
        "trees, in random argument order and mixed formats; real bkli compared with the model's fold; implementation-only oracles: bkli x x = x, "
        "every non-marker leaf of the result occurs at the same map path in every input, and for each input bkl(base + bkld(base, input)) = input; "
        "non-trivial = inputs are pairwise different; distinct by hash")


def gen_case(rng):
    n = 2 + rng.below(3)
    if rng.chance(1, 6):
        return [edits.base(rng, 2) for _ in range(n)]
    anc = edits.base(rng)
    outs = []
    for _ in range(n):
        t = anc
        for _ in range(1 + rng.below(2)):
            t = edits.edit(rng, t)
        outs.append(t)
    if rng.chance(1, 8):
        outs[1] = outs[0]
    return outs


def leaves(v, pre=()):
    """(map-key path, leaf) pairs; list positions are not part of the path"""
    if isinstance(v, dict):
        for k, x in v.items():
            yield from leaves(x, pre + (k,))
    elif isinstance(v, list):
        for x in v:
            yield from leaves(x, pre + ("[]",))
    else:
        yield pre, core.canon(v)


def run_impl(ctx, idx, trees, rng):
    d = os.path.join(ctx.work, "c%s" % idx)
    shutil.rmtree(d, ignore_errors=True)
    os.makedirs(d)
    bkl, bkld, bkli = (os.path.join(ctx.bindir, x) for x in ("bkl", "bkld", "bkli"))
    paths = [edits.write(d, "in%d" % i, t, rng) for i, t in enumerate(trees)]
    r = {"files": paths}
    rc, out, err = core.cli(bkli, ["-f", "json"] + paths, d)
    r["bkli_rc"], r["bkli_err"] = rc, err[-300:]
    if rc != 0:
        return r
    try:
        r["base"] = core.parse_json_docs(out.decode("utf-8", "replace"))
    except Exception as e:
        r["base"] = "unparsable %r" % (e,)
        return r
    # idempotence on the first input
    rc, out, err = core.cli(bkli, ["-f", "json", paths[0], paths[0]], d)
    r["self_rc"] = rc
    if rc == 0:
        try:
            r["self"] = core.parse_json_docs(out.decode("utf-8", "replace"))
        except Exception as e:
            r["self"] = "unparsable %r" % (e,)
    # migration: base file, per input a diff layer named as child of base
    bf = rng.pick(["json", "yaml", "toml"])
    rc, _, err = core.cli(bkli, ["-o", "base." + bf] + paths, d)
    r["bkli_o_rc"], r["base_fmt"] = rc, bf
    if rc != 0:
        r["bkli_o_err"] = err[-300:]
        return r
    r["migrate"] = []
    for i, p in enumerate(paths):
        lf = rng.pick(["json", "yaml", "toml"])
        lp = "base.in%d.%s" % (i, lf)
        rc, _, err = core.cli(bkld, ["-o", lp, "base." + bf, p], d)
        if rc != 0:
            r["migrate"].append({"step": "bkld", "rc": rc, "err": err[-300:]})
            continue
        rc, out, err = core.cli(bkl, ["-f", "json", lp], d)
        m = {"step": "bkl", "rc": rc, "err": err[-300:]}
        if rc == 0:
            try:
                m["out"] = core.parse_json_docs(out.decode("utf-8", "replace"))
            except Exception as e:
                m["out"] = "unparsable %r" % (e,)
        r["migrate"].append(m)
    return r


def judge(trees, im, mo):
    if im["bkli_rc"] != 0:
        return "bkli failed: " + im["bkli_err"].strip()
    if not isinstance(im.get("base"), list) or len(im["base"]) != 1:
        return "bkli output is not one JSON document"
    base = im["base"][0]
    if im.get("self_rc") != 0 or not veq(im.get("self"), [trees[0]]):
        return "intersecting a document with itself does not return it: %s" % hist.short(im.get("self"))
    for pth, leaf in leaves(base):
        if leaf == ("str", "$required"):
            continue
        for t in trees:
            if (pth, leaf) not in set(leaves(t)):
                return "value %r at %r of the result does not occur in every input" % (leaf, pth)
    if im.get("bkli_o_rc") != 0:
        return "bkli -o failed: " + im.get("bkli_o_err", "")
    for t, m in zip(trees, im.get("migrate", [])):
        if m["rc"] != 0:
            return "migration: %s failed for an input: %s" % (m["step"], m["err"].strip())
        if not veq(m.get("out"), [t]):
            return "migration is lossy: base + bkld(base, input) evaluates to %s" % hist.short(m.get("out"))
    # marking and maximality are what the model pins down; the implementation-only clauses above all hold here
    if not veq(base, mo):
        return "bkli's result differs from the model's intersection (marking / maximality): %s vs %s" % (hist.short(base), hist.short(mo))
    return None


def run_batch(ctx, cases, rng):
    mo = ctx.model([["intersect", list(ts)] for ts in cases])
    rngs = [rng.fork("e%d" % i) for i in range(len(cases))]
    tag = id(cases) % 100000
    im = core.pmap(lambda i: run_impl(ctx, "%d_%d" % (tag, i), cases[i], rngs[i]), range(len(cases)))
    return im, mo


def shrink(ctx, trees, rng):
    cur = trees
    import time
    deadline = time.time() + 20          # shrinking runs the real tools: bounded, the unshrunk case is a replay too
    for _ in range(40):
        if time.time() > deadline:
            break
        cands = []
        if len(cur) > 2:
            for i in range(len(cur)):
                cands.append(cur[:i] + cur[i + 1:])
        for i, t in enumerate(cur):
            for x in gen.shrink_tree(t)[:40]:
                if isinstance(x, dict) and not gen.has_null(x):
                    cands.append(cur[:i] + [x] + cur[i + 1:])
        if not cands:
            break
        im, mo = run_batch(ctx, cands, rng)
        nxt = None
        for c, a, m in zip(cands, im, mo):
            if judge(c, a, m) is not None:
                nxt = c
                break
        if nxt is None:
            break
        cur = nxt
    return cur


def run(ctx):
    n = ctx.n(300, 6000)
    rng = core.Rng(ctx.seed)
    cases = [gen_case(rng.fork("case%d" % i)) for i in range(n)]
    im, mo = run_batch(ctx, cases, rng)
    seen, nt = set(), 0
    dist = {"inputs": {}, "with_required": 0, "empty_base": 0}
    for c, a, m in zip(cases, im, mo):
        why = judge(c, a, m)
        dist["inputs"][str(len(c))] = dist["inputs"].get(str(len(c)), 0) + 1
        if "$required" in list(gen.walk_strings(m)):
            dist["with_required"] += 1
        if m == {}:
            dist["empty_base"] += 1
        h = core.vhash(c)
        if h not in seen and len({core.vhash(t) for t in c}) == len(c):
            seen.add(h)
            nt += 1
        if why and len(ctx.violations) < 5:
            small = shrink(ctx, c, rng)
            sim, smo = run_batch(ctx, [small], rng)
            ctx.violations.append({"name": "case-" + core.vhash(small), "property": "C16", "kind": "failing-input",
                                   "why": judge(small, sim[0], smo[0]) or why, "inputs": core.to_jsonable(small),
                                   "implementation": {k: core.to_jsonable(v) for k, v in sim[0].items()}, "model": core.to_jsonable(smo[0]),
                                   "class": "c16-disagreement"})
    return {"evaluations": len(cases), "distinct_nontrivial": nt, "rule": RULE, "samples": [core.to_jsonable(c) for c in cases[:2]],
            "distribution": dist, "disagreements_checked": len(ctx.violations)}


def replay(ctx, payload):
    trees = core.from_jsonable(payload["inputs"])
    rng = core.Rng(1)
    im, mo = run_batch(ctx, [trees], rng)
    why = judge(trees, im[0], mo[0])
    print("implementation:", im[0])
    print("model:", mo[0])
    print("verdict:", why or "agrees")
    return 1 if why else 0


def matches_known(k, v):
    return False
