# C08 — every invocation terminates with complete output or a reported error.
import os
import shutil

from .. import core, dgen, evalgen, gen, hist, ynodes
from ..core import F, veq
from . import c03

CLI = ("bkl", "bkld", "bkli", "bklr")
HARNESS = True
ASSUMPTIONS = [
    "theorems: the model returns Err ECircular on reference cycles and never a value on them; that the Go process itself does not panic, overflow "
    "its stack or hang is a fact about the runtime that only execution shows: every case runs in a child process under a memory and time limit",
]
RULE = ("(a) byte strings (grammar-aware mutations of valid documents, truncations, random bytes) offered as .json and .toml files; (b) structurally "
        "generated documents in all three formats with every directive taking arguments of every type at every position ($merge, $replace, "
        "$match, $value, $encode, $decode, $repeat, $output, $parent, interpolation, keys that evaluate to non-strings, self and mutual "
        "references, self-containing merges), 1-3 layers x 1-2 documents; (c) small graphs of files related by $parent incl. cycles; each run by "
        "bkl (and bkld/bkli/bklr on the same files) in a child process under ulimit -v 2GB and a 20 s limit; oracle: exit status 0 or 1, stdout "
        "empty when the status is not 0, no 'panic:'/'fatal error:'/'goroutine ' on stderr, no timeout; (b) also compared with the model "
        "(ok/err); non-trivial = the input contains a directive or is malformed; distinct by hash")

ARGS = [None, True, False, 0, 1, -1, 5, F("0.5"), "", "a", "a.b", "$merge:a", "$\"{a}\"", "$\"{self}\"", [], [1], ["a"], ["a", "b"], {}, {"a": 1},
        {"$match": {}}, {"$match": {"a": 1}, "$path": "a"}, [{"a": 1}, "a"], "json", "base64", ["json", "base64"], "tolist:=", 2, "x:y:z",
        {"$merge": "a"}, {"$replace": "a"}, "$required", "$env:NOPE", "$repeat"]
DIRECTIVES = ["$merge", "$replace", "$match", "$value", "$encode", "$decode", "$repeat", "$output", "$parent", "$delete", "$invert", "$required"]
KEYS = ["a", "b", "self", "$merge:a", "$replace:b", "$\"{a}\"", "$env:X", "$repeat", "$$x", "$"]


def wild_tree(rng, depth):
    if depth <= 0 or rng.chance(1, 4):
        return rng.pick(ARGS)
    if rng.chance(3, 5):
        m = {}
        for _ in range(rng.below(4)):
            k = rng.pick(DIRECTIVES) if rng.chance(1, 3) else rng.pick(KEYS)
            m[k] = rng.pick(ARGS) if rng.chance(1, 2) else wild_tree(rng, depth - 1)
        return m
    return [wild_tree(rng, depth - 1) for _ in range(rng.below(4))]


YAML_TAGS = ["a: !!binary aGk=\n", "a: !custom x\n", "a: !!set {x, y}\n", "a: !!omap [x: 1]\n", "? [1, 2]\n: v\n", "a: !!int \"12\"\n", "a: !!str 12\n",
             "a: !!float 1\n", "a: !!null x\n", "a: !!bool yes\n", "!!map {a: 1}\n", "--- !tagged\na: 1\n"]
YAML_SELF = ["a: &a [*a]\n", "a: &a {b: *a}\n", "a: &a {<<: *a, c: 1}\n", "a: &a\n  b: &b\n    - *a\n    - *b\n", "x: 1\n---\na: &a [[*a]]\n"]

CYCLES = [
    {"a": "$merge:b", "b": "$merge:a"},
    {"a": "$merge:a"},
    {"a": '$"{a}"'},
    {"a": '$"{b}"', "b": '$"x{a}"'},
    {"a": {"a": 1, "$merge": []}},
    {"c": {"a": {"$merge": "c"}, "c": {"$merge": "c", "a": "q"}}},
    {"$merge:a": 1, "a": 5},
    {"a": ["$merge:b", "$merge:b"], "b": ["$merge:a", "$merge:a"]},
    {"a": {"$replace": "a"}},
    {"a": [{"$merge": "a"}, 1]},
    {"x": {"$merge": "x.y", "y": {"$merge": "x"}}},
    {"$merge": ""},
    {"a": {"b": {"$merge": "a"}}},
    {"$repeat": 3, "a": '$"{a}{$repeat}"'},
    {"k": {"$repeat": 2, "$merge": "k"}},
    {"$env:X": 1, "$repeat": {"x": 2, "y": "z"}},
    [{"$repeat": 2}, {"$merge": []}],
    {"a": {"$encode": "json", "$merge": "a"}},
    {"a": {"$decode": "json", "$value": "{\"$merge\": \"a\"}"}},
    {"a": '$"{a}{a}"'},
    {"a": '$"{b}{b}"', "b": '$"{a}"'},
    {"a": '$"{a}-{b}"', "b": "x"},
    {"a": '$"{nope}{b}"', "b": "x"},
    {"x": {"l": [{"y": {"$merge": "x"}}]}},
    {"x": {"l": [[{"$merge": "x"}]], "k": 1}},
    {"$repeat": 2, "$repeat:x": 1},
]


def gen_struct(rng):
    if rng.chance(1, 4):
        base = rng.pick(CYCLES)
        if rng.chance(1, 2) and isinstance(base, dict):
            base = dict(base)
            base[rng.pick(KEYS)] = wild_tree(rng, 2)
        return [[base]]
    nl = 1 + rng.below(3)
    layers = []
    for _ in range(nl):
        layers.append([wild_tree(rng, 3) for _ in range(1 + rng.below(2))])
    return layers


def gen_bytes(rng):
    valid = rng.pick(['{"a": 1, "b": [1, 2, {"c": null}]}', '{"$merge": "a", "a": {"x": "$required"}}', '[1, "x", {"$repeat": 2}]',
                      'a = 1\nb = "x"\n[t]\nk = [1, 2]\n', '"$match" = {a = 1}\nx = 2\n---\ny = 3\n', '"$repeat" = 3\nv = "$repeat"\n',
                      '{"a": "$\\"{a}\\""}', '{"a":1}{"b":2}', '1', '"x"', 'null', ''])
    b = bytearray(valid.encode())
    k = rng.below(6)
    if k == 0 and b:
        b = b[: rng.below(len(b) + 1)]
    elif k == 1 and b:
        for _ in range(1 + rng.below(3)):
            b[rng.below(len(b))] = rng.below(256)
    elif k == 2:
        b = bytearray(rng.below(256) for _ in range(rng.below(64)))
    elif k == 3 and b:
        i = rng.below(len(b))
        b[i:i] = rng.pick([b"{", b"[", b"\"", b"\x00", b"---\n", b"+++\n", b"$", b"\\u", b"\xff\xfe", b"1e999", b"-", b"[[", b"= ="])
    elif k == 4:
        b = b * (2 + rng.below(3))
    return bytes(b)


LIMIT = "ulimit -v 2500000; exec \"$@\""


SLOWEST = [0.0]


def run_tool(ctx, tool, args, cwd, inp=None):
    cmd = ["/bin/sh", "-c", LIMIT, "sh", os.path.join(ctx.bindir, tool)] + args
    import subprocess
    import time
    env = core.cover_env({"PATH": "/usr/bin:/bin", "HOME": cwd, "TMPDIR": cwd})
    try:
        t0 = time.time()
        p = subprocess.run(cmd, cwd=cwd, env=env, stdout=subprocess.PIPE, stderr=subprocess.PIPE, timeout=20, input=inp,
                           stdin=(None if inp is not None else subprocess.DEVNULL))
        SLOWEST[0] = max(SLOWEST[0], time.time() - t0)
        return p.returncode, p.stdout, p.stderr.decode("utf-8", "replace")
    except subprocess.TimeoutExpired as e:
        return -9, e.stdout or b"", "TIMEOUT"


def discipline(tool, rc, out, err):
    if rc == -9:
        return "%s did not terminate within 20 s" % tool
    if rc not in (0, 1):
        return "%s exit status %d: %s" % (tool, rc, err[-300:])
    if rc != 0 and out:
        return "%s failed but wrote %d bytes to stdout" % (tool, len(out))
    if rc != 0 and not err.strip():
        return "%s failed without a diagnostic" % tool
    for marker in ("panic:", "fatal error:", "goroutine "):
        if marker in err:
            return "%s crashed: %s" % (tool, err[:300])
    return None


def expressible(fmt, docs):
    if fmt == "toml":
        return all(gen.toml_ok(d) and toml_keys_ok(d) for d in docs)
    return True


def toml_keys_ok(v):
    if isinstance(v, dict):
        return all(toml_keys_ok(x) for x in v.values())
    if isinstance(v, list):
        # TOML arrays may be heterogeneous in 1.0; go-toml accepts; keep
        return all(toml_keys_ok(x) for x in v)
    return True


def run(ctx):
    n = ctx.n(250, 6000)
    rng = core.Rng(ctx.seed)
    fmts, _ = hist.formats_from_source()
    jobs = []
    for i in range(n):
        r = rng.fork("s%d" % i)
        k = r.below(10)
        if k < 6:
            jobs.append(("struct", gen_struct(r), r))
        elif k < 8:
            jobs.append(("bytes", gen_bytes(r), r))
        else:
            lay = c03.fix_toml(c03.gen_layout(r))
            jobs.append(("graph", lay, r))
    for cyc in CYCLES:
        jobs.append(("struct", [[cyc]], rng.fork("cyc")))
    for lay in c03.link_corpus():
        jobs.append(("graph", lay, rng.fork("link")))
    # structurally generated YAML with anchors, aliases and merge keys, a third of it with an alias to an enclosing anchor
    # (a: &a [*a] - yaml.v3's node tree is then cyclic), plus the three smallest such documents
    for text in YAML_SELF + YAML_TAGS:
        jobs.append(("yamltext", text, rng.fork("ys")))
    for i in range(n // 10):
        r = rng.fork("y%d" % i)
        tree, text = ynodes.document(r, bad=(i % 4 == 3), selfref=(i % 3 == 0))
        jobs.append(("yamltext", text, r))

    def one(i):
        kind, payload, r = jobs[i]
        d = os.path.join(ctx.work, "j%d" % i)
        shutil.rmtree(d, ignore_errors=True)
        os.makedirs(d)
        problems = []
        model_case = None
        if kind == "struct":
            names = ["a", "a.b", "a.b.c"]
            top = None
            files = {}
            for li, docs in enumerate(payload):
                f = r.pick(["json", "yaml", "toml"])
                if not expressible(f, docs):
                    f = "json"
                top = "%s.%s" % (names[li], f)
                try:
                    text = gen.emit(f, docs, r)
                except Exception:
                    f = "json"
                    top = "%s.%s" % (names[li], f)
                    text = gen.emit(f, docs, r)
                open(os.path.join(d, top), "w").write(text)
                files[top] = ("reg", docs)
            model_case = c03.model_case({"files": files, "opts": {"inputs": [top], "f": "json", "P": False}}, fmts)
            runs = [("bkl", ["-f", "json", top]), ("bklr", [top]), ("bkld", [names[0] + "." + [k for k in files][0].rsplit(".", 1)[1], top]),
                    ("bkli", [[k for k in files][0], top])]
        elif kind == "yamltext":
            open(os.path.join(d, "x.yaml"), "w").write(payload)
            runs = [("bkl", ["-f", "json", "x.yaml"]), ("bklr", ["x.yaml"]), ("bkld", ["x.yaml", "x.yaml"]), ("bkli", ["x.yaml", "x.yaml"]),
                    ("bkl", ["-v", "-f", "yaml", "x.yaml"]), ("bkl", ["-o", "nosuchdir/out.json", "x.yaml"])]
        elif kind == "bytes":
            ext = r.pick(["json", "toml"])
            open(os.path.join(d, "x." + ext), "wb").write(payload)
            runs = [("bkl", ["x." + ext]), ("bklr", ["x." + ext]), ("bkld", ["x." + ext, "x." + ext]), ("bkli", ["x." + ext, "x." + ext])]
        else:
            c03.write_layout(d, payload, r)
            inp = payload["opts"]["inputs"]
            runs = [("bkl", ["-f", "json"] + inp), ("bklr", inp[:1]), ("bkld", [inp[0], inp[-1]]), ("bkli", [inp[0], inp[-1]])]
        first = None
        if kind == "yamltext":
            runs.append(("bkl", ["-f", "json", "--", "-.yaml"], payload.encode()))        # the same text as a layer read from stdin
        elif kind == "bytes":
            runs.append(("bkl", ["-f", "json", "--", "-." + ext], bytes(payload)))
        for run in runs:
            tool, args = run[0], run[1]
            rc, out, err = run_tool(ctx, tool, args, d, inp=(run[2] if len(run) > 2 else None))
            if first is None:
                first = (rc, out, err)
            why = discipline(tool, rc, out, err)
            if why:
                problems.append(why)
        shutil.rmtree(d, ignore_errors=True)
        return problems, first, model_case
    results = core.pmap(one, range(len(jobs)), workers=12)
    mcases = [(i, r[2]) for i, r in enumerate(results) if r[2] is not None]
    mres = dict(zip([i for i, _ in mcases], ctx.model(c03.fill_tables(ctx, [c for _, c in mcases])))) if mcases else {}
    seen, nt = set(), 0
    dist = {"struct": 0, "bytes": 0, "graph": 0, "yamltext": 0, "bkl_ok": 0, "bkl_err": 0, "model_compared": 0, "model_circular": 0}
    for i, ((kind, payload, r), (problems, first, mc)) in enumerate(zip(jobs, results)):
        dist[kind] += 1
        dist["bkl_ok" if first[0] == 0 else "bkl_err"] += 1
        why = problems[0] if problems else None
        if why is None and i in mres:
            m = mres[i]
            if not (m[0] == "err" and m[1] == "oracle"):
                dist["model_compared"] += 1
                if m[0] == "err" and m[1] == "circular":
                    dist["model_circular"] += 1
                if (m[0] == "ok") != (first[0] == 0):
                    why = "bkl %s where the model %s" % ("succeeds" if first[0] == 0 else "fails: " + first[2].strip()[-200:], "evaluates" if m[0] == "ok" else "reports " + m[1])
                elif m[0] == "ok":
                    try:
                        got = core.parse_json_docs(first[1].decode("utf-8", "replace"))
                        if not veq(got, m[1][1]):
                            why = "bkl output differs from the model: %s vs %s" % (hist.short(got), hist.short(m[1][1]))
                    except Exception:
                        why = "bkl output is not JSON"
        h = core.vhash(payload if kind in ("struct", "yamltext") else (payload.hex() if kind == "bytes" else sorted(payload["files"])))
        if h not in seen:
            seen.add(h)
            nt += 1
        if why and len(ctx.violations) < 5:
            ctx.violations.append({"name": "case-%s" % h, "property": "C08", "kind": "failing-input", "why": why, "input_kind": kind,
                                   "input": core.to_jsonable(payload) if kind in ("struct", "yamltext") else (payload.hex() if kind == "bytes" else
                                            {a: [b[0], core.to_jsonable(b[1])] for a, b in payload["files"].items()}),
                                   "opts": payload["opts"] if kind == "graph" else None, "class": "c08-robustness"})
    dist["slowest_tool_run_seconds"] = round(SLOWEST[0], 2)      # the limit is 20 s
    return {"evaluations": len(jobs) * 4, "distinct_nontrivial": nt, "rule": RULE,
            "samples": [core.to_jsonable(j[1]) for j in jobs[:3] if j[0] == "struct"][:2] or ["bytes"], "distribution": dist,
            "disagreements_checked": len(ctx.violations)}


def replay(ctx, payload):
    print("replay: input kind %s; re-run ./check C08 (the case is in the corpus of fixed cycles if it is one of them)" % payload.get("input_kind"))
    return 0


def matches_known(k, v):
    return False
