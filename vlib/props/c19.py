# C19 — producing output is a pure observation of parser state.
from .. import core, dgen, evalgen, gen, hist, histprop
from ..core import F, veq

CLI = ()
HARNESS = True
ASSUMPTIONS = [
    "theorems are about Model.Parser.step/run (observers leave the state unchanged); tie to parser.go/document.go is this run's history comparison",
    "Output(format) bytes are compared among themselves (repeatability) and, for JSON, re-parsed and compared with the model's documents",
]
RULE = ("histories of up to 8 MergeDocument/Documents/OutputDocuments/Output(fmt)/OutputToWriter calls over 1-2 base documents that use "
        "$merge, $replace, $repeat, $encode, $output and interpolation (cross-document references included), with further layers merged after "
        "output calls; compared call by call with the model (whose observers are pure) and by the implementation-only oracles: repeated output "
        "is byte-identical, Documents() is unchanged by output, the history without output calls yields the same documents; "
        "non-trivial = at least one output call precedes another call and a directive is present; distinct by hash")

FMTS = ["json", "yaml", "toml", "json-pretty", "jsonl", "yml"]


def list_doc(rng):
    """list-rooted documents whose entries are evaluated (references into other documents, $repeat, $encode)"""
    k = rng.below(4)
    if k == 0:
        return ["header", {"svc": "web", "$merge": {"$match": {"name": "D0"}, "$path": "t"}}]
    if k == 1:
        return [{"a": {"$replace": [{"name": "D0"}, "name"]}}, {"$repeat": 2, "i": "$repeat"}, "tail"]
    if k == 2:
        return [1, {"x": {"$merge": {"$match": {"name": "D0"}}}, "own": True}, {"$encode": "json"}]
    return [{"$output": True, "k": 1}, {"deep": [{"m": {"$merge": {"$match": {"name": "D0"}, "$path": "t"}}}]}]


def feature_doc(rng):
    k = rng.below(7)
    if k == 0:
        return evalgen.repeat_doc(rng)
    if k == 1:
        return evalgen.encode_doc(rng)[0]
    if k == 2:
        return evalgen.output_tree(rng, 2)
    if k == 3:
        d, env = evalgen.interp_doc(rng)
        return {kk: v for kk, v in d.items() if "$env" not in kk and not (isinstance(v, str) and "$env" in v)}
    if k == 4:
        return {"t": {"x": 1, "l": [1, 2]}, "h": {"$merge": "t", "y": 2}, "r": {"$replace": "t.l"}, "s": "$merge:t.x"}
    if k == 5:
        return {"$repeat": 2, "a": "$repeat", "b": '$"i{$repeat}"', "m": {"$merge": "c"}, "c": {"q": 1}}
    return {"l": [{"id": 1, "v": 1}, {"$merge": "tl"}], "tl": [{"$match": {"id": 1}, "v": 2}], "z": "$merge:l"}


def gen_case(rng):
    ops = []
    nbase = 1 + rng.below(2)
    idx = 0
    base_idx = []
    for i in range(nbase):
        d = feature_doc(rng)
        if isinstance(d, dict):
            d = dict(d)
            d["name"] = "D%d" % i
        ops.append(["new", "base|doc%d" % i, [], d])
        ops.append(["merge", idx])
        base_idx.append(idx)
        idx += 1
    if rng.chance(1, 4):
        # a list-rooted document after a map document it refers to
        if isinstance(ops[0][3], dict):
            ops[0][3].setdefault("t", {"x": 1, "l": [1]})
        ops.append(["new", "lst|doc", [], list_doc(rng)])
        ops.append(["merge", idx])
        idx += 1
    if nbase == 2 and rng.chance(1, 2):
        # cross-document reference from the second document into the first
        ops[2][3] = dict(ops[2][3]) if isinstance(ops[2][3], dict) else {"v": ops[2][3]}
        ops[2][3]["x"] = {"$merge": {"$match": {"name": "D0"}}} if rng.chance(1, 2) else {"$replace": [{"name": "D0"}, "name"]}
    calls = 0
    prev = list(base_idx)
    while calls < 2 + rng.below(5):
        k = rng.below(10)
        if k < 3:
            ops.append(["out"])
        elif k < 5:
            ops.append(["outfmt", rng.pick(FMTS)])
        elif k < 6:
            ops.append(["outw", rng.pick(FMTS + [""])])
        elif k < 7:
            ops.append(["docs"])
        else:
            layer = {rng.pick(["extra", "n", "more"]): rng.pick([1, "s", {"k": 1}, [1]])}
            if rng.chance(1, 3):
                layer = {"$match": {"name": "D0"}, "t": {"x": rng.pick([7, 8, "changed"])}}
            if rng.chance(1, 4):
                layer = {"$repeat": rng.below(4)}
            ops.append(["new", "l|doc%d" % idx, list(prev), layer])
            ops.append(["merge", idx])
            prev = [idx]
            idx += 1
            ops.append(["docs"])
        calls += 1
    ops.append(["out"])
    ops.append(["docs"])
    return ["history", None, ops]


def project(ops):
    """the model knows 'out' only; Output(fmt)/OutputToWriter observe the same documents"""
    return [["out"] if o[0] in ("outfmt", "outw") else o for o in ops]


def run_both(ctx, cases):
    hist.collect_tables(ctx, cases, lambda c: {}, hist.docs_of_history)
    im = ctx.impl(cases)
    mo = ctx.model([["history", c[1], project(c[2])] for c in cases])
    return im, mo


def judge(c, a, b):
    if hist.has_oracle_miss(b):
        return None
    if not isinstance(a, list) or (a and a[0] in ("panic", "crash")):
        return "implementation %s" % (a[:2],)
    ops = c[2]
    # implementation-only oracles
    last_docs = None
    last_bytes = {}
    last_out = None
    for i, (o, r) in enumerate(zip(ops, a)):
        if r[0] == "skipped":
            break
        if o[0] == "merge":
            last_bytes, last_out, last_docs = {}, None, None
        elif o[0] == "docs":
            if last_docs is not None and not veq(last_docs, r[1]):
                return "call %d: Documents() changed although only output calls happened since the last snapshot" % i
            last_docs = r[1]
        elif o[0] == "out":
            if last_out is not None and not veq(last_out, r[1]):
                return "call %d: OutputDocuments differs from the previous call on the same state" % i
            last_out = r[1]
        elif o[0] in ("outfmt", "outw"):
            f = o[1] or "json-pretty"
            if f in last_bytes and not veq(last_bytes[f], r[1]):
                return "call %d: Output(%s) bytes differ from the previous call on the same state" % (i, f)
            last_bytes[f] = r[1]
    # model comparison (model observers are pure by construction)
    pa = []
    for o, r in zip(ops, a):
        if r[0] == "skipped":
            pa.append(r)
        elif o[0] in ("outfmt", "outw"):
            f = o[1] or "json-pretty"
            if r[1][0] == "ok" and f in ("json", "jsonl", "json-pretty"):
                try:
                    pa.append(["out", ["ok", core.parse_json_docs(r[1][1])]])
                except Exception:
                    return "Output(%s) is not parseable JSON" % f
            else:
                pa.append(None)
        else:
            pa.append(r)
    for i, (x, y) in enumerate(zip(pa, b)):
        if x is None:
            o = ops[i]
            if a[i][1][0] == "ok" and y[1][0] != "ok":
                return "call %d: Output(%s) succeeded but the model's evaluation fails (%s)" % (i, o[1], y[1][1])
            continue
        r = hist.compare_outs([x], [y])
        if r:
            return "call %d: %s" % (i, r[1])
    return None


def nontrivial(c, a, b):
    ops = c[2]
    outs = [i for i, o in enumerate(ops) if o[0] in ("out", "outfmt", "outw")]
    has_dir = any(s.startswith("$") for d in hist.docs_of_history(c) for s in gen.walk_strings(d))
    return len(outs) >= 2 and has_dir


def dist_fn(dist, c, a, b):
    for o in c[2]:
        dist["op_" + o[0]] = dist.get("op_" + o[0], 0) + 1
    if isinstance(b, list):
        for r in b:
            if r[0] == "out":
                k = "out_ok" if r[1][0] == "ok" else "out_err_" + r[1][1]
                dist[k] = dist.get(k, 0) + 1


def run(ctx):
    n = ctx.n(1200, 25000)
    rng = core.Rng(ctx.seed)
    corpus = histprop.load_corpus("C19")
    cases = corpus + [gen_case(rng.fork("case%d" % i)) for i in range(n)]
    im, mo = run_both(ctx, cases)
    seen, nt, dist, skipped = set(), 0, {}, 0
    for c, a, b in zip(cases, im, mo):
        if hist.has_oracle_miss(b):
            skipped += 1
        dist_fn(dist, c, a, b)
        why = judge(c, a, b)
        h = core.vhash(c[2])
        if h not in seen and nontrivial(c, a, b):
            seen.add(h)
            nt += 1
        if why and len(ctx.violations) < 5:
            small = shrink(ctx, c)
            sim, smo = run_both(ctx, [small])
            ctx.violations.append({"name": "case-" + core.vhash(small[2]), "property": "C19", "kind": "failing-input",
                                   "why": judge(small, sim[0], smo[0]) or why, "case": core.to_jsonable(small),
                                   "implementation": core.to_jsonable(sim[0]), "model": core.to_jsonable(smo[0]), "class": "c19-disagreement"})
    dist["oracle_missing_skipped"] = skipped
    return {"evaluations": len(cases), "distinct_nontrivial": nt, "rule": RULE, "samples": [core.to_jsonable(c[2]) for c in cases[len(corpus):len(corpus) + 2]],
            "distribution": dist, "disagreements_checked": len(ctx.violations)}


def shrink(ctx, case):
    cur = case
    for _ in range(30):
        cands = []
        ops = cur[2]
        for i, o in enumerate(ops):
            if o[0] in ("out", "outfmt", "outw", "docs"):
                cands.append(["history", None, ops[:i] + ops[i + 1:]])
        for i, o in enumerate(ops):
            if o[0] == "new":
                for t in gen.shrink_tree(o[3])[:60]:
                    cands.append(["history", None, ops[:i] + [[o[0], o[1], o[2], t]] + ops[i + 1:]])
        if not cands:
            break
        im, mo = run_both(ctx, cands)
        nxt = None
        for c, a, b in zip(cands, im, mo):
            if judge(c, a, b) is not None:
                nxt = c
                break
        if nxt is None:
            break
        cur = nxt
    return cur


def replay(ctx, payload):
    c = core.from_jsonable(payload["case"])
    im, mo = run_both(ctx, [c])
    why = judge(c, im[0], mo[0])
    print("implementation:", hist.short(im[0], 3000))
    print("model:         ", hist.short(mo[0], 3000))
    print("verdict:", why or "agrees")
    return 1 if why else 0


def matches_known(k, v):
    return False
