# C19 — producing output is a pure observation of parser state.
from .. import core, dgen, evalgen, gen, hist, histprop
from ..core import F, veq

CLI = ()
HARNESS = True
ASSUMPTIONS = [
    "theorems are about Model.Parser.step/run (observers leave the state unchanged); tie to parser.go/document.go is this run's history comparison",
    "Output(format) bytes are compared among themselves (repeatability) and, for JSON, re-parsed and compared with the model's documents",
]
RULE = ("histories of up to 8 MergeDocument/Documents/OutputDocuments/Output(fmt)/OutputToWriter calls over 1-2 base documents that use "
        "$merge, $replace, $repeat, $encode, $output and interpolation (cross-document references included), with further layers merged after "
        "output calls; compared call by call with the model (whose observers are pure) and by the implementation-only oracles: repeated output "
        "is byte-identical, Documents() is unchanged by output, the history without output calls yields the same documents; the same through MergeFile / MergeFileLayers over 2-3 layer files with output calls "
        "of every kind in between (implementation only); "
        "non-trivial = at least one output call precedes another call and a directive is present; distinct by hash")

FMTS = ["json", "yaml", "toml", "json-pretty", "jsonl", "yml"]


def list_doc(rng):
    """list-rooted documents whose entries are evaluated (references into other documents, $repeat, $encode)"""
    k = rng.below(4)
    if k == 0:
        return ["header", {"svc": "web", "$merge": {"$match": {"name": "D0"}, "$path": "t"}}]
    if k == 1:
        return [{"a": {"$replace": [{"name": "D0"}, "name"]}}, {"$repeat": 2, "i": "$repeat"}, "tail"]
    if k == 2:
        return [1, {"x": {"$merge": {"$match": {"name": "D0"}}}, "own": True}, {"$encode": "json"}]
    return [{"$output": True, "k": 1}, {"deep": [{"m": {"$merge": {"$match": {"name": "D0"}, "$path": "t"}}}]}]


def skeleton(rng, v):
    """a partial restatement of v in which containers may be left empty: merging v into it fills the empty ones"""
    if isinstance(v, dict):
        if rng.chance(1, 3):
            return {}
        return {k: skeleton(rng, x) for k, x in v.items() if rng.chance(2, 3)}
    if isinstance(v, list):
        return [] if rng.chance(1, 2) else [rng.pick([9, "own"])]
    return v if rng.chance(1, 2) else rng.pick([7, "other"])


def placeholder_doc(rng):
    """a $merge / $replace host that restates parts of its target with EMPTY containers as placeholders: evaluation fills them, and
    must do so in the output's copy only (an evaluator sharing empty containers with the stored tree writes into the parser's state)"""
    t = rng.pick([{"cfg": {"a": 1}}, {"cfg": {"a": 1, "n": {"b": [1, 2]}}, "l": [1, 2], "e": {}},
                  {"x": {"y": {"z": {"w": 1}}}, "l": [{"k": 1}]}])
    host = skeleton(rng, t)
    if not isinstance(host, dict):
        host = {}
    host = dict(host)
    host["$merge"] = "tmpl"
    d = {"tmpl": t, "out": host}
    if rng.chance(1, 3):
        d["tmpl"] = dict(t, **{"$output": False})
    if rng.chance(1, 3):
        d["also"] = [{"$merge": "tmpl.cfg"} if "cfg" in t else {"$merge": "tmpl.x"}, {}]
    return d


def feature_doc(rng):
    k = rng.below(9)
    if k >= 7:
        return placeholder_doc(rng)
    if k == 0:
        return evalgen.repeat_doc(rng)
    if k == 1:
        return evalgen.encode_doc(rng)[0]
    if k == 2:
        return evalgen.output_tree(rng, 2)
    if k == 3:
        d, env = evalgen.interp_doc(rng)
        return {kk: v for kk, v in d.items() if "$env" not in kk and not (isinstance(v, str) and "$env" in v)}
    if k == 4:
        return {"t": {"x": 1, "l": [1, 2]}, "h": {"$merge": "t", "y": 2}, "r": {"$replace": "t.l"}, "s": "$merge:t.x"}
    if k == 5:
        return {"$repeat": 2, "a": "$repeat", "b": '$"i{$repeat}"', "m": {"$merge": "c"}, "c": {"q": 1}}
    return {"l": [{"id": 1, "v": 1}, {"$merge": "tl"}], "tl": [{"$match": {"id": 1}, "v": 2}], "z": "$merge:l"}


def gen_case(rng):
    ops = []
    nbase = 1 + rng.below(2)
    idx = 0
    base_idx = []
    for i in range(nbase):
        d = feature_doc(rng)
        if isinstance(d, dict):
            d = dict(d)
            d["name"] = "D%d" % i
        ops.append(["new", "base|doc%d" % i, [], d])
        ops.append(["merge", idx])
        base_idx.append(idx)
        idx += 1
    if rng.chance(1, 4):
        # a list-rooted document after a map document it refers to
        if isinstance(ops[0][3], dict):
            ops[0][3].setdefault("t", {"x": 1, "l": [1]})
        ops.append(["new", "lst|doc", [], list_doc(rng)])
        ops.append(["merge", idx])
        idx += 1
    if nbase == 2 and rng.chance(1, 2):
        # cross-document reference from the second document into the first
        ops[2][3] = dict(ops[2][3]) if isinstance(ops[2][3], dict) else {"v": ops[2][3]}
        ops[2][3]["x"] = {"$merge": {"$match": {"name": "D0"}}} if rng.chance(1, 2) else {"$replace": [{"name": "D0"}, "name"]}
    calls = 0
    prev = list(base_idx)
    while calls < 2 + rng.below(5):
        k = rng.below(10)
        if k < 3:
            ops.append(["out"])
        elif k < 5:
            ops.append(["outfmt", rng.pick(FMTS)])
        elif k < 6:
            ops.append(["outw", rng.pick(FMTS + [""])])
        elif k < 7:
            ops.append(["docs"])
        else:
            layer = {rng.pick(["extra", "n", "more"]): rng.pick([1, "s", {"k": 1}, [1]])}
            if rng.chance(1, 3):
                layer = {"$match": {"name": "D0"}, "t": {"x": rng.pick([7, 8, "changed"])}}
            if rng.chance(1, 4):
                layer = {"$repeat": rng.below(4)}
            ops.append(["new", "l|doc%d" % idx, list(prev), layer])
            ops.append(["merge", idx])
            prev = [idx]
            idx += 1
            ops.append(["docs"])
        calls += 1
    ops.append(["out"])
    ops.append(["docs"])
    return ["history", None, ops]


def project(ops):
    """the model knows 'out' only; Output(fmt)/OutputToWriter observe the same documents"""
    return [["out"] if o[0] in ("outfmt", "outw") else o for o in ops]


def run_both(ctx, cases):
    hist.collect_tables(ctx, cases, lambda c: {}, hist.docs_of_history)
    im = ctx.impl(cases)
    mo = ctx.model([["history", c[1], project(c[2])] for c in cases])
    return im, mo


def judge(c, a, b):
    if hist.has_oracle_miss(b):
        return None
    if not isinstance(a, list) or (a and a[0] in ("panic", "crash")):
        return "implementation %s" % (a[:2],)
    ops = c[2]
    # implementation-only oracles
    last_docs = None
    last_bytes = {}
    last_out = None
    for i, (o, r) in enumerate(zip(ops, a)):
        if r[0] == "skipped":
            break
        if o[0] == "merge":
            last_bytes, last_out, last_docs = {}, None, None
        elif o[0] == "docs":
            if last_docs is not None and not veq(last_docs, r[1]):
                return "call %d: Documents() changed although only output calls happened since the last snapshot" % i
            last_docs = r[1]
        elif o[0] == "out":
            if last_out is not None and not veq(last_out, r[1]):
                return "call %d: OutputDocuments differs from the previous call on the same state" % i
            last_out = r[1]
        elif o[0] in ("outfmt", "outw"):
            f = o[1] or "json-pretty"
            if f in last_bytes and not veq(last_bytes[f], r[1]):
                return "call %d: Output(%s) bytes differ from the previous call on the same state" % (i, f)
            last_bytes[f] = r[1]
    # model comparison (model observers are pure by construction)
    pa = []
    for o, r in zip(ops, a):
        if r[0] == "skipped":
            pa.append(r)
        elif o[0] in ("outfmt", "outw"):
            f = o[1] or "json-pretty"
            if r[1][0] == "ok" and f in ("json", "jsonl", "json-pretty"):
                try:
                    pa.append(["out", ["ok", core.parse_json_docs(r[1][1])]])
                except Exception:
                    return "Output(%s) is not parseable JSON" % f
            else:
                pa.append(None)
        else:
            pa.append(r)
    for i, (x, y) in enumerate(zip(pa, b)):
        if x is None:
            o = ops[i]
            if a[i][1][0] == "ok" and y[1][0] != "ok":
                return "call %d: Output(%s) succeeded but the model's evaluation fails (%s)" % (i, o[1], y[1][1])
            continue
        r = hist.compare_outs([x], [y])
        if r:
            return "call %d: %s" % (i, r[1])
    return None


def nontrivial(c, a, b):
    ops = c[2]
    outs = [i for i, o in enumerate(ops) if o[0] in ("out", "outfmt", "outw")]
    has_dir = any(s.startswith("$") for d in hist.docs_of_history(c) for s in gen.walk_strings(d))
    return len(outs) >= 2 and has_dir


def dist_fn(dist, c, a, b):
    for o in c[2]:
        dist["op_" + o[0]] = dist.get("op_" + o[0], 0) + 1
    if isinstance(b, list):
        for r in b:
            if r[0] == "out":
                k = "out_ok" if r[1][0] == "ok" else "out_err_" + r[1][1]
                dist[k] = dist.get(k, 0) + 1


def file_history_pass(ctx, rng, n, dist):
    """implementation only, through MergeFileLayers / MergeFile: a chain of layer files is merged file by file with output
    calls of every kind in between; (1) repeated output calls on one state give the same bytes, (2) Documents() is unchanged
    by them, (3) the final output equals that of the same merges with no output call in between"""
    import os
    from . import c03
    from .. import evalgen
    base = os.path.join(ctx.work, "fh")
    cases_with, cases_without, metas = [], [], []
    for i in range(n):
        r = rng.fork("fh%d" % i)
        d = os.path.join(base, "h%d" % i)
        os.makedirs(d, exist_ok=True)
        docs0 = [evalgen.ref_history_doc(r) if hasattr(evalgen, "ref_history_doc") else gen_doc(r) for _ in range(1 + r.below(2))]
        l1 = [{"extra": r.pick([1, "x", {"k": 1}]), "n": {"q": 1}}]
        l2 = [{"n": {"z": r.pick([2, [1]])}, "last": True}]
        files = [("a.yaml", docs0), ("a.b.json", l1), ("a.b.c.yaml", l2)][: 2 + r.below(2)]
        for name, docs in files:
            fmt = name.rsplit(".", 1)[1]
            open(os.path.join(d, name), "w").write(gen.emit(fmt, docs, r))
        paths = [os.path.join(d, name) for name, _ in files]
        ops_w, ops_wo = [], []
        for k, pth in enumerate(paths):
            op = [r.pick(["mergefileonly", "mergefile"]), pth]    # MergeFile (this file) or MergeFileLayers (with what it inherits from)
            ops_w.append(op)
            ops_wo.append(op)
            for _ in range(r.below(3)):
                ops_w.append(r.pick([["out"], ["docs"], ["outfmt", "json"], ["outfmt", "yaml"], ["outw", "json-pretty"], ["out"], ["docs"]]))
        ops_w += [["docs"], ["outfmt", "json"], ["outfmt", "json"], ["docs"]]
        ops_wo += [["docs"], ["outfmt", "json"]]
        cases_with.append(["history", {"env": {}}, ops_w])
        cases_without.append(["history", {"env": {}}, ops_wo])
        metas.append(paths)
    a = ctx.impl(cases_with)
    b = ctx.impl(cases_without)
    bad = 0
    for cw, cwo, ra, rb, paths in zip(cases_with, cases_without, a, b, metas):
        why = None
        if not isinstance(ra, list) or not isinstance(rb, list) or (ra and ra[0] in ("crash", "panic")):
            why = "implementation %s" % (str(ra)[:200],)
        else:
            why = judge(cw, ra, None) if False else None
            # (1)+(2): same-state repetition, via the generic judge's implementation-only part
            last_docs, last_fmt = None, {}
            for o, r_ in zip(cw[2], ra):
                if r_[0] == "skipped":
                    break
                if o[0].startswith("mergefile"):
                    last_docs, last_fmt = None, {}
                elif o[0] == "docs":
                    if last_docs is not None and not veq(last_docs, r_[1]):
                        why = "Documents() changed although only output calls happened since the last merge"
                    last_docs = r_[1]
                elif o[0] in ("outfmt", "outw"):
                    key = o[1]
                    if key in last_fmt and not veq(last_fmt[key], r_[1]):
                        why = "output in %s differs from the previous call on the same state" % key
                    last_fmt[key] = r_[1]
            # (3): as if output had never been requested
            if why is None and not veq(ra[-3:-1][0] if False else ra[-3], rb[-1]) :
                why = "final output after interleaved output calls %s differs from the output without them %s" % (hist.short(ra[-3]), hist.short(rb[-1]))
            if why is None and not veq(ra[-4], rb[-2]):
                why = "final Documents() after interleaved output calls differ from those without them"
        if why and len(ctx.violations) < 5:
            bad += 1
            ctx.violations.append({"name": "filehist-" + core.vhash(cw[2]), "property": "C19", "kind": "failing-input", "why": why,
                                   "ops": core.to_jsonable(cw[2]), "files": {os.path.basename(p): open(p).read() for p in paths},
                                   "class": "c19-file-history"})
    dist["file_histories"] = n
    dist["file_histories_all_merges_ok"] = sum(1 for ra in a if isinstance(ra, list) and not any(isinstance(x, list) and x and x[0] == "skipped" for x in ra))
    return n


def gen_doc(r):
    """a document whose evaluation does something (reference, repeat, interpolation, hidden part)"""
    k = r.below(7)
    if k >= 5:
        return placeholder_doc(r)
    if k == 0:
        return {"t": {"x": 1, "l": [1]}, "h": {"$merge": "t", "y": 2}}
    if k == 1:
        return {"name": '$"n{v}"', "v": r.pick([1, "s"]), "keep": None}
    if k == 2:
        return {"tpl": {"$output": False, "a": [1, 2]}, "use": {"$replace": "tpl.a"}}
    if k == 3:
        return {"list": [{"$repeat": 2, "i": "$repeat"}], "e": {"$encode": "json", "a": 1}}
    return {"plain": r.pick([1, "x", [1, {"a": 2}]]), "m": {"k": "v"}}


def run(ctx):
    n = ctx.n(1200, 25000)
    rng = core.Rng(ctx.seed)
    corpus = histprop.load_corpus("C19")
    cases = corpus + [gen_case(rng.fork("case%d" % i)) for i in range(n)]
    im, mo = run_both(ctx, cases)
    seen, nt, dist, skipped = set(), 0, {}, 0
    for c, a, b in zip(cases, im, mo):
        if hist.has_oracle_miss(b):
            skipped += 1
        dist_fn(dist, c, a, b)
        why = judge(c, a, b)
        h = core.vhash(c[2])
        if h not in seen and nontrivial(c, a, b):
            seen.add(h)
            nt += 1
        if why and len(ctx.violations) < 5:
            small = shrink(ctx, c)
            sim, smo = run_both(ctx, [small])
            ctx.violations.append({"name": "case-" + core.vhash(small[2]), "property": "C19", "kind": "failing-input",
                                   "why": judge(small, sim[0], smo[0]) or why, "case": core.to_jsonable(small),
                                   "implementation": core.to_jsonable(sim[0]), "model": core.to_jsonable(smo[0]), "class": "c19-disagreement"})
    dist["oracle_missing_skipped"] = skipped
    nfh = file_history_pass(ctx, core.Rng(ctx.seed + 3), ctx.n(150, 3000), dist)
    return {"evaluations": len(cases) + nfh, "distinct_nontrivial": nt, "rule": RULE, "samples": [core.to_jsonable(c[2]) for c in cases[len(corpus):len(corpus) + 2]],
            "distribution": dist, "disagreements_checked": len(ctx.violations)}


def shrink(ctx, case):
    cur = case
    for _ in range(30):
        cands = []
        ops = cur[2]
        for i, o in enumerate(ops):
            if o[0] in ("out", "outfmt", "outw", "docs"):
                cands.append(["history", None, ops[:i] + ops[i + 1:]])
        for i, o in enumerate(ops):
            if o[0] == "new":
                for t in gen.shrink_tree(o[3])[:60]:
                    cands.append(["history", None, ops[:i] + [[o[0], o[1], o[2], t]] + ops[i + 1:]])
        if not cands:
            break
        im, mo = run_both(ctx, cands)
        nxt = None
        for c, a, b in zip(cands, im, mo):
            if judge(c, a, b) is not None:
                nxt = c
                break
        if nxt is None:
            break
        cur = nxt
    return cur


def replay(ctx, payload):
    c = core.from_jsonable(payload["case"])
    im, mo = run_both(ctx, [c])
    why = judge(c, im[0], mo[0])
    print("implementation:", hist.short(im[0], 3000))
    print("model:         ", hist.short(mo[0], 3000))
    print("verdict:", why or "agrees")
    return 1 if why else 0


def matches_known(k, v):
    return False
