# C09 — evaluation is deterministic.
import os

from .. import core, gen, hist, histprop
from ..core import veq
from . import c01, c02, c06, c07, c10, c11, c12, c13, c19

CLI = ("bkl",)
HARNESS = True
ASSUMPTIONS = [
    "theorems: order-independence lemmas of the model's map traversals and 'eval is a function'; tie to the code is repeated execution",
    "goroutine half is empirical (same history from many goroutines; -race build in the thorough tier)",
    "package-level mutable state is checked syntactically (no assignment to a package-level var outside its declaration)",
]
RULE = ("inputs of the generators of C01, C02, C06, C07, C10, C11, C12, C13, C19; each evaluated 4x in one process on fresh parsers, in 2 further "
        "fresh processes, and from 8 goroutines at once (32 under -race in the thorough tier); all results must be identical and equal to the "
        "model's; a sample is also run 3x through the bkl binary on files (bytes and status identical); non-trivial = the history reaches an "
        "output call and a map with >= 2 keys is involved; distinct by hash")

GENS = [c01.gen_case, c02.gen_case, c06.gen_case, c07.gen_case, c10.gen_case, c11.gen_case, c12.gen_case, c13.gen_case, c19.gen_case]


def collide_case(rng):
    """keys that collapse to one after $$ -> $ (finalize), and self-overlapping root $merge"""
    if rng.chance(1, 3):
        # sibling keys that become ONE key when evaluated (interpolated keys meeting a literal key, or each other): which entry
        # survives is fixed by the sorted traversal, never by map iteration order
        pool = [("k", 1), ('$"k"', 2), ('$"{w}"', 3), ('$"k{e}"', 4), ("kk", 5), ('$"{w}{w}"', 6), ('$"{w}k"', 7)]
        ks = rng.shuffle(pool)[: 2 + rng.below(4)]
        d = {k: v for k, v in ks}
        d["w"] = "k"
        d["e"] = ""
        d["n"] = {k: [v] for k, v in ks}
        d["n"]["z"] = {k: {"deep": v} for k, v in ks}
        return ["history", None, hist.stream_history([d])]
    if rng.chance(1, 2):
        ks = rng.shuffle(["$$$x", "$$$$x", "$$$$$x", "a$$$b", "a$$$$b", "$$", "$$$"])[: 2 + rng.below(3)]
        d = {k: i for i, k in enumerate(ks)}
        d["n"] = {k: [i] for i, k in enumerate(ks)}
    else:
        d = {"$merge": "c", "c": {"c": {"x": 1}, "d": 2, "e": {"f": 1}}, "d": 5, "z": {"$merge": "c.e"}}
    return ["history", None, hist.stream_history([d])]


def reader_case(rng):
    """documents that read a variable nothing in them binds ($repeat, $repeat:x, $repeat.x, an unset $env): an error by
    themselves - unless another evaluation in the same process leaked its bindings"""
    ref = rng.pick(["$repeat", "$repeat:x", "$repeat:y", "$repeat.x", "$repeat.y", "$env:VERIF_UNSET_%d" % rng.below(3)])
    form = rng.below(3)
    if form == 0:
        d = {"v": ref, "k": 1}
    elif form == 1:
        d = {"v": '$"a{%s}b"' % ref, "k": 1}
    else:
        d = {"k": 1, "list": [{"w": '$"{%s}"' % ref}]}
    return ["history", None, hist.stream_history([d])]


def gen_case(rng):
    if rng.chance(1, 8):
        return collide_case(rng)
    if rng.chance(1, 12):
        return reader_case(rng)
    g = GENS[rng.below(len(GENS))]
    c = g(rng)
    if g is c19.gen_case:
        c = ["history", None, c19.project(c[2])]
    if g is not c13.gen_case:
        c = c[:3]
    # bytes, not only values: the same documents written twice as JSON and once pretty, results held to the end
    if c[2] and c[2][-1][0] == "out":
        c[2] = c[2] + [["outfmt", "json"], ["outfmt", "json-pretty"], ["outfmt", "json"], ["outfmt", "yaml"]]
    return c


def env_of(c):
    return c13.env_of(c)


def norm_run(r):
    """status and values only: which error is reported first may depend on map order (the status may not)"""
    if not isinstance(r, list):
        return r
    out = []
    for x in r:
        if isinstance(x, list) and len(x) == 2 and isinstance(x[1], list) and len(x[1]) == 2 and x[1][0] == "err":
            out.append([x[0], ["err", "*"]])
            if x[0] == "merge":
                break
        else:
            out.append(x)
    return out


def static_globals_check():
    """package-level vars of bkl must never be assigned after initialisation"""
    import re
    bad = []
    names = set()
    files = [f for f in os.listdir(core.REPO) if f.endswith(".go") and not f.endswith("_test.go")]
    for f in files:
        src = open(os.path.join(core.REPO, f)).read()
        for m in re.finditer(r"^var\s+(\w+)\s*=", src, re.M):
            names.add(m.group(1))
        for blk in re.finditer(r"^var\s*\((.*?)^\)", src, re.M | re.S):
            for m in re.finditer(r"^\s*(\w+)\s*(?:[\w\.\*\[\]]+\s*)?=", blk.group(1), re.M):
                names.add(m.group(1))
    for f in files:
        src = open(os.path.join(core.REPO, f)).read()
        body = re.sub(r"^var\s*\(.*?^\)", "", src, flags=re.M | re.S)
        body = re.sub(r"^var\s+\w+\s*=.*$", "", body, flags=re.M)
        for n in names:
            for m in re.finditer(r"(?<![\w\.])%s(\[[^\]]*\])?\s*(=|\+=|:=)[^=]" % re.escape(n), body):
                bad.append("%s: %s" % (f, m.group(0).strip()))
    return sorted(names), bad


def run(ctx):
    n = ctx.n(500, 8000)
    gor = 8 if ctx.tier == "quick" else 32
    rng = core.Rng(ctx.seed)
    corpus = histprop.load_corpus("C09")
    cases = corpus + [gen_case(rng.fork("case%d" % i)) for i in range(n)]
    hist.collect_tables(ctx, cases, env_of, hist.docs_of_history)
    reps = 4
    batch = []
    for c in cases:
        batch.extend([c] * reps)
    im1 = ctx.impl(batch)
    im2 = ctx.impl(cases)
    # a third process runs the cases in REVERSE order: a result that depends on what the process evaluated before shows
    im3 = list(reversed(ctx.impl(list(reversed(cases)))))
    if ctx.tier == "thorough":
        race_dir = os.path.join(ctx.work, "race")
        os.makedirs(race_dir, exist_ok=True)
        rc, out = core.sh(["go", "build", "-race", "-o", os.path.join(race_dir, "verifh"), "."], cwd=os.path.join(core.VERIF, "harness"),
                          env=core.GOENV, timeout=1800)
        if rc:
            raise core.BuildError("go build -race harness", out)
        conc_bin = os.path.join(race_dir, "verifh")
    else:
        conc_bin = os.path.join(ctx.bindir, "verifh")
    # groups of 8 different histories run at once, each from several goroutines; histories that need an
    # environment run alone (the environment is process-wide)
    env = core.cover_env({"PATH": os.environ.get("PATH", ""), "HOME": ctx.work, "TMPDIR": ctx.work, "GORACE": "halt_on_error=1"})
    groups, cur = [], []
    for i, c in enumerate(cases):
        if env_of(c):
            groups.append([i])
        else:
            cur.append(i)
            if len(cur) == 8:
                groups.append(cur)
                cur = []
    if cur:
        groups.append(cur)
    per = max(2, gor // 8)
    conc_cases = [["concurrent", cases[g[0]][1], [cases[i][2] for i in g], per if len(g) > 1 else gor] for g in groups]
    gres = core.run_stream(conc_bin, conc_cases, timeout=3000, env=env)
    imc = [None] * len(cases)
    for g, r in zip(groups, gres):
        for j, i in enumerate(g):
            imc[i] = r[j] if isinstance(r, list) and r and r[0] not in ("crash", "panic") and j < len(r) else r
    mo = ctx.model([["history", c[1], [o for o in c[2] if o[0] != "outfmt"]] for c in cases])
    seen, nt, dist = set(), 0, {"race_build": ctx.tier == "thorough", "goroutines": gor}
    for i, c in enumerate(cases):
        runs = im1[i * reps:(i + 1) * reps] + [im2[i], im3[i]]
        conc = imc[i] if isinstance(imc[i], list) else [imc[i]]
        if conc and conc[0] in ("crash", "panic"):
            why = "concurrent execution died: %s" % (conc[1:2],)
        else:
            runs = [norm_run(r) for r in runs + list(conc)]
            why = None
            # within one run: the two Output("json") calls on the same state must return the same bytes
            r0 = runs[0]
            if isinstance(r0, list):
                js = [x[1] for o, x in zip(c[2], r0) if o[0] == "outfmt" and o[1] == "json" and isinstance(x, list) and len(x) == 2]
                if len(js) == 2 and not veq(js[0], js[1]):
                    why = "Output(json) called twice on the same state returned different bytes: %s vs %s" % (hist.short(js[0]), hist.short(js[1]))
            for r in (runs[1:] if why is None else []):
                if not veq(r, runs[0]):
                    why = "two runs of the same input differ: %s vs %s" % (hist.short(runs[0]), hist.short(r))
                    break
        if why is None and not hist.has_oracle_miss(mo[i]):
            mm = norm_run(mo[i])
            if isinstance(mm, list):
                mm = [[x[0], ["err", "*"]] if (isinstance(x, list) and len(x) == 2 and isinstance(x[1], list) and x[1][:1] == ["err"]) else x for x in mm]
            r0v = [x for o, x in zip(c[2], runs[0]) if o[0] != "outfmt"] if isinstance(runs[0], list) else runs[0]
            if isinstance(r0v, list) and isinstance(mm, list) and not veq(r0v[:len(mm)], mm):
                why = "implementation differs from the (deterministic) model: %s vs %s" % (hist.short(runs[0]), hist.short(mm))
        h = core.vhash(c[2])
        reaches_out = isinstance(mo[i], list) and any(x[0] == "out" for x in mo[i])
        if h not in seen and reaches_out and any(isinstance(d, dict) and len(d) >= 2 for d in hist.docs_of_history(c)):
            seen.add(h)
            nt += 1
        k = "reaches_output" if reaches_out else "stops_before_output"
        dist[k] = dist.get(k, 0) + 1
        if why and len(ctx.violations) < 5:
            ctx.violations.append({"name": "case-" + h, "property": "C09", "kind": "failing-input", "why": why,
                                   "case": core.to_jsonable(c), "runs": core.to_jsonable(runs[:3]), "class": "c09-nondeterminism"})
    # bkl binary on files, repeated
    cli_runs = 0
    bkl = os.path.join(ctx.bindir, "bkl")
    for j in range(ctx.n(30, 300)):
        r2 = rng.fork("cli%d" % j)
        c = c01.gen_case(r2)
        docs = hist.docs_of_history(c)
        d = os.path.join(ctx.work, "cli%d" % j)
        os.makedirs(d)
        names = ["a", "a.b", "a.b.c", "a.b.c.d"]
        top = None
        for li, l in enumerate(docs[:4]):
            f = "json" if gen.has_null(l) or not isinstance(l, dict) else r2.pick(["json", "yaml", "toml"])
            top = "%s.%s" % (names[li], f)
            open(os.path.join(d, top), "w").write(gen.emit(f, [l], r2))
        outs = [core.cli(bkl, ["-f", r2.pick(["json", "yaml", "json-pretty"]), top], d)[:2] for _ in range(1)]
        fmt = r2.pick(["json", "yaml", "toml"])
        outs = [core.cli(bkl, ["-f", fmt, top], d)[:2] for _ in range(3)]
        cli_runs += 1
        if any(o != outs[0] for o in outs[1:]) and len(ctx.violations) < 5:
            ctx.violations.append({"name": "cli-%d" % j, "property": "C09", "kind": "failing-input",
                                   "why": "bkl binary gave different bytes/status on repeated runs", "layers": core.to_jsonable(docs), "class": "c09-nondeterminism"})
    dist["cli_inputs_x3"] = cli_runs
    names, bad = static_globals_check()
    dist["package_level_vars"] = len(names)
    if bad and len(ctx.violations) < 5:
        ctx.violations.append({"name": "static-globals", "property": "C09", "kind": "no-failing-input-found",
                               "why": "package-level variable assigned after initialisation: %s" % bad[:5], "class": "c09-global-state"})
    return {"evaluations": len(cases) * (reps + 2 + gor) + cli_runs * 3, "distinct_nontrivial": nt, "rule": RULE,
            "samples": [core.to_jsonable(c[2]) for c in cases[len(corpus):len(corpus) + 2]], "distribution": dist,
            "disagreements_checked": len(ctx.violations)}


def replay(ctx, payload):
    c = core.from_jsonable(payload["case"])
    runs = ctx.impl([c] * 8)
    diff = [r for r in runs[1:] if not veq(r, runs[0])]
    print("8 runs, %d differ from the first" % len(diff))
    for r in [runs[0]] + diff[:1]:
        print(hist.short(r, 1500))
    return 1 if diff else 0


def matches_known(k, v):
    return False
