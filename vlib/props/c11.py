# C11 — $output selects exactly the marked subtrees and hides exactly the excluded ones.
from .. import filepass, core, evalgen, gen, hist, histprop

CLI = ("bkl",)
HARNESS = True
ASSUMPTIONS = ["theorems are about Model.Eval.find_outputs/filter_output/outputs_of; tie to output.go/parser.go is this run's comparison through OutputDocuments",
               "a list element map carrying a boolean $output next to other keys is an extra-keys error (the code's reading; see DESIGN.md C11)"]
RULE = ("trees with $output: true/false (and a few non-boolean) markers on random maps (as key) and lists (as marker entry), nested and mixed, 1-2 "
        "documents per stream; outputs compared with the model; non-trivial = at least one boolean marker present; distinct by hash")


def gen_case(rng):
    docs = [evalgen.output_tree(rng, 3)]
    if rng.chance(1, 4):
        docs.append(evalgen.output_tree(rng, 2))
    return ["history", None, hist.stream_history(docs)]


def has_marker(v):
    if isinstance(v, dict):
        return isinstance(v.get("$output"), bool) or any(has_marker(x) for x in v.values())
    if isinstance(v, list):
        return any(has_marker(x) for x in v)
    return False


def no_marker_left(v):
    if isinstance(v, dict):
        return "$output" not in v and all(no_marker_left(x) for x in v.values())
    if isinstance(v, list):
        return all(no_marker_left(x) for x in v)
    return True


def judge(c, a, b):
    if hist.has_oracle_miss(b):
        return None
    r = hist.compare_outs(a, b)
    if r:
        return r[1]
    if isinstance(a, list) and a and a[-1][0] == "out" and a[-1][1][0] == "ok":
        docs = hist.docs_of_history(c)
        only_bool = all(isinstance(x, bool) for d in docs for x in markers(d))
        if only_bool and not no_marker_left(a[-1][1][1]):
            return "an $output marker survived into the output"
    return None


def markers(v):
    if isinstance(v, dict):
        if "$output" in v:
            yield v["$output"]
        for x in v.values():
            yield from markers(x)
    elif isinstance(v, list):
        for x in v:
            yield from markers(x)


def nontrivial(c, a, b):
    return any(has_marker(d) for d in hist.docs_of_history(c))


def dist_fn(dist, c, a, b):
    if isinstance(b, list) and b and b[-1][0] == "out":
        r = b[-1][1]
        if r[0] == "ok":
            k = "outputs_%d" % min(len(r[1]), 5)
        else:
            k = "err_" + r[1]
        dist[k] = dist.get(k, 0) + 1


def run(ctx):
    n = ctx.n(2000, 40000)
    stats = histprop.run_history_property(ctx, "C11", gen_case, n, RULE, nontrivial, judge=judge, dist_fn=dist_fn)
    rng = core.Rng(ctx.seed + 1)
    nf = ctx.n(200, 4000)
    cases = [gen_case(rng.fork("fc%d" % i)) for i in range(nf)]
    done = filepass.run_layers_through_files(ctx, [filepass.layers_of_history(c) for c in cases], rng, "C11", "c11-disagreement")
    stats["distribution"]["through_layer_files"] = done
    stats["evaluations"] += done
    stats["disagreements_checked"] = len(ctx.violations)
    return stats


def replay(ctx, payload):
    return histprop.replay_history(ctx, payload)


def matches_known(k, v):
    return False
