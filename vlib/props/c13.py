# C13 — interpolation and $env substitute exactly the referenced values.
from .. import core, evalgen, gen, hist, histprop

CLI = ()
HARNESS = True
ASSUMPTIONS = ["theorems are about Model.Eval.scan/p2_string/get_with_var; tie to process2.go/get.go/evalcontext.go is this run's comparison",
               "yaml.Unmarshal of a reference string is an oracle (table computed per case by calling yaml.v3 directly)"]
RULE = ("templates of 0-4 $-free literal segments (punctuation, unicode, '}' and ':') and 0-4 references to scalar paths, $env:NAME and "
        "missing names; $env as whole value, in keys and in lists; environment set per case (the harness clears its own); values that look "
        "like numbers/booleans/null; compared with the model; non-trivial = at least one template with a reference; distinct by hash")

ENVS = {}


def gen_case(rng):
    doc, env = evalgen.interp_doc(rng, safe_env=True)
    c = ["history", None, hist.stream_history([doc])]
    c.append({"env": env})
    return c


def env_of(c):
    if len(c) > 3 and isinstance(c[3], dict):
        return c[3].get("env", {})
    if isinstance(c[1], dict):
        return c[1].get("env", {})
    return {}


def nontrivial(c, a, b):
    return any(s.startswith('$"') and "{" in s for d in hist.docs_of_history(c) for s in gen.walk_strings(d))


def dist_fn(dist, c, a, b):
    if isinstance(b, list) and b and b[-1][0] == "out":
        r = b[-1][1]
        k = "ok" if r[0] == "ok" else "err_" + r[1]
        dist[k] = dist.get(k, 0) + 1


def keep_env(c):
    return c


def run(ctx):
    n = ctx.n(1500, 30000)
    return histprop.run_history_property(ctx, "C13", gen_case, n, RULE, nontrivial, env_of=env_of, dist_fn=dist_fn)


def replay(ctx, payload):
    return histprop.replay_history(ctx, payload, env_of=env_of)


def matches_known(k, v):
    if k.get("class") != "env-value-has-dollar":
        return False
    c = core.from_jsonable(v.get("case"))
    return any("$" in x for x in env_of(c).values())


def check_known(ctx, k):
    doc = core.from_jsonable(k["witness"]["doc"])
    env = k["witness"]["env"]
    c = ["history", None, hist.stream_history([doc]), {"env": env}]
    hist.collect_tables(ctx, [c], env_of, hist.docs_of_history)
    r = ctx.impl([c])[0]
    out = r[-1][1]
    want = ["ok", [{"a": env["FOO"]}]]
    return not core.veq(out, want)
