# C12 — $repeat expands to exactly n indexed copies (cartesian product for named counts).
from .. import filepass, core, evalgen, gen, hist, histprop
from ..core import F, veq

CLI = ("bkl",)
HARNESS = True
ASSUMPTIONS = ["theorems are about Model.Eval.repeat_doc/repeat_gen/p2; tie to repeat.go/process2.go is this run's comparison through OutputDocuments"]
RULE = ("documents with $repeat (count -1..5, bad counts; 1-3 named counts 0..3) at document level, in list-rooted documents, inside lists and "
        "inside maps, bodies using $repeat / {$repeat} / {$repeat:name} in values, interpolations and keys; sometimes an upper layer overriding "
        "the count; compared with the model and, for document-level integer counts, with the hand-expanded stream evaluated by the "
        "implementation; non-trivial = a count >= 2 or a product of >= 2 counts; distinct by hash")


def subst(v, i):
    """the body written out by hand for index i (integer document-level $repeat)"""
    if isinstance(v, str) and not isinstance(v, F):
        if v == "$repeat":
            return i
        if v.startswith('$"') and v.endswith('"'):
            return v.replace("{$repeat}", str(i))
        return v
    if isinstance(v, dict):
        out = {}
        for k, x in v.items():
            if isinstance(x, dict) and "$repeat" in x:
                # an entry with its own $repeat is its own scope - its key and body see the inner index: left as written
                out[k] = x
            else:
                out[subst(k, i) if k != "$repeat" else k] = subst(x, i)
        return out
    if isinstance(v, list):
        return [x if (isinstance(x, dict) and "$repeat" in x) else subst(x, i) for x in v]
    return v


def gen_case(rng):
    d = evalgen.repeat_doc(rng)
    layers = [d]
    if isinstance(d, dict) and isinstance(d.get("$repeat"), int) and not isinstance(d.get("$repeat"), bool) and rng.chance(1, 4):
        new = rng.below(5)
        if new != d["$repeat"]:
            layers.append({"$repeat": new})
    c = ["history", None, hist.chain_history(layers, docs_each=False)]
    return c


def final_count(c):
    docs = hist.docs_of_history(c)
    d = docs[0]
    if isinstance(d, dict) and "$repeat" in d:
        n = docs[-1].get("$repeat") if len(docs) > 1 else d["$repeat"]
        return n, d
    return None, d


def extra_batch(ctx, cases, im, mo):
    idx, c2s, ns = [], [], []
    for i, c in enumerate(cases):
        n, d = final_count(c)
        a = im[i]
        if not (isinstance(n, int) and not isinstance(n, bool)) or not isinstance(a, list) or not a or a[-1][0] != "out":
            continue
        body = {k: v for k, v in d.items() if k != "$repeat"}
        expanded = [subst(body, j) for j in range(max(n, 0))]
        idx.append(i)
        ns.append(n)
        c2s.append(["history", None, hist.stream_history(expanded)])
    out = [None] * len(cases)
    if not c2s:
        return out
    im2, _ = hist.run_histories(ctx, c2s)
    for i, n, r in zip(idx, ns, im2):
        out[i] = compare_expanded(im[i], r, n)
    return out


def compare_expanded(a, r2, n):
    o1 = a[-1][1]
    o2 = r2[-1][1] if isinstance(r2, list) and r2 and r2[-1][0] == "out" else None
    if o2 is None:
        return None
    if o1[0] != o2[0]:
        return "document with $repeat:%d evaluates to %s but the hand-expanded stream to %s" % (n, o1[0], o2[0])
    if o1[0] == "ok" and not veq(o1[1], o2[1]):
        return "document with $repeat:%d differs from the hand-expanded stream" % n
    return None


def nontrivial(c, a, b):
    for d in hist.docs_of_history(c):
        for r in repeats(d):
            if isinstance(r, int) and not isinstance(r, bool) and r >= 2:
                return True
            if isinstance(r, dict):
                p = 1
                for x in r.values():
                    p *= x if isinstance(x, int) and not isinstance(x, bool) else 0
                if p >= 2:
                    return True
    return False


def repeats(v):
    if isinstance(v, dict):
        if "$repeat" in v:
            yield v["$repeat"]
        for x in v.values():
            yield from repeats(x)
    elif isinstance(v, list):
        for x in v:
            yield from repeats(x)


def dist_fn(dist, c, a, b):
    if isinstance(b, list) and b and b[-1][0] == "out":
        r = b[-1][1]
        k = ("outputs_%d" % min(len(r[1]), 9)) if r[0] == "ok" else "err_" + r[1]
        dist[k] = dist.get(k, 0) + 1


def run(ctx):
    n = ctx.n(1500, 30000)
    stats = histprop.run_history_property(ctx, "C12", gen_case, n, RULE, nontrivial, extra_batch=extra_batch, dist_fn=dist_fn)
    rng = core.Rng(ctx.seed + 1)
    nf = ctx.n(200, 4000)
    cases = [gen_case(rng.fork("fc%d" % i)) for i in range(nf)]
    done = filepass.run_layers_through_files(ctx, [filepass.layers_of_history(c) for c in cases], rng, "C12", "c12-disagreement")
    stats["distribution"]["through_layer_files"] = done
    stats["evaluations"] += done
    stats["disagreements_checked"] = len(ctx.violations)
    return stats


def replay(ctx, payload):
    return histprop.replay_history(ctx, payload)


def matches_known(k, v):
    return False
