# filepass.py — run layer chains / streams through layer FILES and the real bkl binary, compared with the
# file-layer model (Model.Files.bkl_cli). Shared by C01, C02, C06, C07, C10-C13.
import os
import shutil

from . import core, gen, hist
from .props import c03

NAMES = ["a", "a.b", "a.b.c", "a.b.c.d", "a.b.c.d.e"]


def run_layers_through_files(ctx, layer_lists, rng, prop_id, klass, env_of=None):
    """layer_lists: list of [layer0_docs, layer1_docs, ...] (each a list of documents)"""
    fmts, _ = hist.formats_from_source()
    jobs = []
    for ci, ls in enumerate(layer_lists):
        if not ls or len(ls) > len(NAMES):
            continue
        files = {}
        r = rng.fork("f%d" % ci)
        for li, docs in enumerate(ls):
            if any(gen.has_null(d) or not isinstance(d, dict) for d in docs):
                f = r.pick(["json", "yaml", "yml", "jsonl"])
            else:
                f = r.pick(["json", "yaml", "toml", "toml"])
            files["%s.%s" % (NAMES[li], f)] = ("reg", docs)
        top = sorted(files, key=len)[-1]
        jobs.append((ci, {"files": files, "opts": {"inputs": [top], "f": "json", "P": False}, "kind": "chain"}))

    def one(j):
        ci, lay = jobs[j]
        d = os.path.join(ctx.work, "fp%d" % j)
        try:
            c03.write_layout(d, lay, rng.fork("w%d" % j))
        except Exception:
            return None
        env = env_of(ci) if env_of else None
        args = ["-f", "json"] + lay["opts"]["inputs"]
        res = core.cli(os.path.join(ctx.bindir, "bkl"), args, d, env=env)
        shutil.rmtree(d, ignore_errors=True)
        return res
    results = core.pmap(one, range(len(jobs)))
    mcases = [c03.model_case(l, fmts) for _, l in jobs]
    c03.fill_tables(ctx, mcases)
    if env_of:
        for (ci, _), mc in zip(jobs, mcases):
            mc[1]["env"] = dict(env_of(ci) or {})
    mo = ctx.model(mcases)
    done = 0
    for (ci, lay), res, m in zip(jobs, results, mo):
        if res is None:
            continue
        done += 1
        why = c03.judge(lay, res, m)
        if why and len(ctx.violations) < 5:
            ctx.violations.append({"name": "files-%d" % ci, "property": prop_id, "kind": "failing-input",
                                   "why": "through layer files: " + why,
                                   "layout": {a: [b[0], core.to_jsonable(b[1])] for a, b in lay["files"].items()},
                                   "opts": lay["opts"], "class": klass})
    return done


def layers_of_history(case):
    """a history made by chain_history/stream_history as layer files: documents grouped by their parent set"""
    layers, cur, cur_par = [], [], None
    for o in case[2]:
        if o[0] != "new":
            continue
        par = tuple(o[2])
        if cur and par != cur_par:
            layers.append(cur)
            cur = []
        cur_par = par
        cur.append(o[3])
    if cur:
        layers.append(cur)
    return layers
