# gen.py — seeded generators of JSON-like trees, derived child layers, and file emitters.
import json
from .core import F, Rng

KEYS = ["a", "b", "c", "x", "y"]
INTS = [0, 1, 2, 3, -1, 7]
FLOATS = [F("0.5"), F("1.5"), F("1e+100"), F("-2.25")]
STRS = ["s", "t", "u", "", "hello world", "1", "true", "null", "é"]
BIG_INTS = [2147483647, -2147483648, 2147483648, 9007199254740993, 9223372036854775807, -9223372036854775807]


def scalar(rng, prof):
    pool = prof.get("scalars")
    if pool:
        return rng.pick(pool)
    k = rng.below(10)
    if k < 3:
        return rng.pick(INTS)
    if k < 4:
        return rng.pick(FLOATS)
    if k < 5:
        return rng.pick([True, False])
    if k < 6 and prof.get("nulls", True):
        return None
    return rng.pick(prof.get("strs", STRS))


def tree(rng, depth, prof, root_map=False):
    """random tree; prof: keys, strs, scalars, nulls, width, p_map, p_list"""
    keys = prof.get("keys", KEYS)
    width = prof.get("width", 3)
    if depth <= 0 and not root_map:
        return scalar(rng, prof)
    k = rng.below(10)
    if root_map or k < prof.get("p_map", 4):
        n = rng.below(width + 1)
        m = {}
        for _ in range(n):
            m[rng.pick(keys)] = tree(rng, depth - 1, prof)
        return m
    if k < prof.get("p_map", 4) + prof.get("p_list", 2):
        n = rng.below(width + 1)
        return [tree(rng, depth - 1, prof) for _ in range(n)]
    return scalar(rng, prof)


def is_scalar(v):
    return not isinstance(v, (dict, list))


def different_scalar(rng, v, prof):
    for _ in range(20):
        s = scalar(rng, prof)
        if s is not None and not (type(s) == type(v) and s == v):
            return s
    return "zz"


def paths(v, pre=()):
    """all positions (as tuples of keys / indices) of a tree"""
    yield pre
    if isinstance(v, dict):
        for k in sorted(v):
            yield from paths(v[k], pre + (k,))
    elif isinstance(v, list):
        for i, e in enumerate(v):
            yield from paths(e, pre + (i,))


def at(v, p):
    for s in p:
        v = v[s]
    return v


def replace_at(v, p, new):
    if not p:
        return new
    if isinstance(v, dict):
        r = dict(v)
        r[p[0]] = replace_at(v[p[0]], p[1:], new)
        return r
    r = list(v)
    r[p[0]] = replace_at(v[p[0]], p[1:], new)
    return r


def delete_at(v, p):
    if len(p) == 1:
        if isinstance(v, dict):
            r = dict(v)
            del r[p[0]]
            return r
        r = list(v)
        del r[p[0]]
        return r
    if isinstance(v, dict):
        r = dict(v)
        r[p[0]] = delete_at(v[p[0]], p[1:])
        return r
    r = list(v)
    r[p[0]] = delete_at(v[p[0]], p[1:])
    return r


def size(v):
    if isinstance(v, dict):
        return 1 + sum(size(x) for x in v.values())
    if isinstance(v, list):
        return 1 + sum(size(x) for x in v)
    return 1


def walk_strings(v):
    if isinstance(v, str) and not isinstance(v, F):
        yield v
    elif isinstance(v, dict):
        for k, x in v.items():
            yield k
            yield from walk_strings(x)
    elif isinstance(v, (list, tuple)):
        for x in v:
            yield from walk_strings(x)


def has_null(v):
    if v is None:
        return True
    if isinstance(v, dict):
        return any(has_null(x) for x in v.values())
    if isinstance(v, list):
        return any(has_null(x) for x in v)
    return False


def drop_nulls(v):
    if isinstance(v, dict):
        return {k: drop_nulls(x) for k, x in v.items() if x is not None}
    if isinstance(v, list):
        return [drop_nulls(x) for x in v if x is not None]
    return v


# ------------------------------------------------------------------ shrinking candidates
def shrink_tree(v):
    """smaller variants of a tree (one step)"""
    out = []
    for p in paths(v):
        if not p:
            continue
        out.append(delete_at(v, p))
    for p in paths(v):
        sub = at(v, p)
        if isinstance(sub, (dict, list)) and p:
            out.append(replace_at(v, p, 0))
            if isinstance(sub, dict):
                for x in sub.values():
                    out.append(replace_at(v, p, x))
            else:
                for x in sub:
                    out.append(replace_at(v, p, x))
        elif isinstance(sub, str) and not isinstance(sub, F) and len(sub) > 1 and p:
            out.append(replace_at(v, p, sub[:-1]))
    return out


# ------------------------------------------------------------------ emitters (independent of bkl's encoders)
def _json_tok(v):
    if isinstance(v, F):
        s = str(v)
        return s if ("." in s or "e" in s or "E" in s) else s + ".0"
    if v is None:
        return "null"
    if v is True:
        return "true"
    if v is False:
        return "false"
    if isinstance(v, int):
        return str(v)
    if isinstance(v, str):
        return json.dumps(v, ensure_ascii=False)
    if isinstance(v, list):
        return "[" + ", ".join(_json_tok(x) for x in v) + "]"
    if isinstance(v, dict):
        return "{" + ", ".join(json.dumps(k, ensure_ascii=False) + ": " + _json_tok(v[k]) for k in sorted(v)) + "}"
    raise TypeError(repr(v))


def to_json(docs):
    return "".join(_json_tok(d) + "\n" for d in docs)


def _yaml_float(v):
    s = str(v)
    # YAML 1.2 core schema floats need a dot or exponent with sign handled by yaml.v3; "1e+100" is fine
    if "." not in s and "e" not in s and "E" not in s:
        s += ".0"
    return s


def _yaml_block(v, ind):
    pad = "  " * ind
    if isinstance(v, dict) and v:
        lines = []
        for k in sorted(v):
            x = v[k]
            if (isinstance(x, dict) and x) or (isinstance(x, list) and x):
                lines.append("%s%s:" % (pad, json.dumps(k, ensure_ascii=False)))
                lines.extend(_yaml_block(x, ind + 1))
            else:
                lines.append("%s%s: %s" % (pad, json.dumps(k, ensure_ascii=False), _yaml_scalar(x)))
        return lines
    if isinstance(v, list) and v:
        lines = []
        for x in v:
            if (isinstance(x, dict) and x) or (isinstance(x, list) and x):
                sub = _yaml_block(x, ind + 1)
                lines.append("%s- %s" % (pad, sub[0].lstrip()))
                lines.extend(sub[1:])
            else:
                lines.append("%s- %s" % (pad, _yaml_scalar(x)))
        return lines
    return [pad + _yaml_scalar(v)]


def _yaml_scalar(v):
    if isinstance(v, F):
        return _yaml_float(v)
    if isinstance(v, dict):
        return "{}"
    if isinstance(v, list):
        return "[]"
    return _json_tok(v)


def to_yaml(docs, flow=False, lead=False):
    """lead: begin the file with the document start marker, as most YAML in the wild does"""
    parts = []
    for d in docs:
        if flow:
            parts.append(_json_tok(d) + "\n")
        else:
            parts.append("\n".join(_yaml_block(d, 0)) + "\n")
    return ("---\n" if lead else "") + "---\n".join(parts)


def _toml_val(v):
    if isinstance(v, F):
        s = str(v)
        if "." not in s and "e" not in s:
            s += ".0"
        return s
    if v is True:
        return "true"
    if v is False:
        return "false"
    if isinstance(v, int):
        return str(v)
    if isinstance(v, str):
        return json.dumps(v, ensure_ascii=False).replace("\\u007f", "\\u007F")
    if isinstance(v, list):
        return "[" + ", ".join(_toml_val(x) for x in v) + "]"
    if isinstance(v, dict):
        return "{" + ", ".join(json.dumps(k, ensure_ascii=False) + " = " + _toml_val(v[k]) for k in sorted(v)) + "}"
    raise TypeError("toml cannot express %r" % (v,))


def toml_ok(d):
    return isinstance(d, dict) and not has_null(d)


def to_toml(docs):
    parts = []
    for d in docs:
        parts.append("".join("%s = %s\n" % (json.dumps(k, ensure_ascii=False), _toml_val(d[k])) for k in sorted(d)))
    return "---\n".join(parts)


def emit(fmt, docs, rng=None):
    if fmt in ("json", "jsonl"):
        return to_json(docs)
    if fmt in ("yaml", "yml"):
        return to_yaml(docs, flow=bool(rng and rng.chance(1, 3)), lead=bool(rng and rng.chance(1, 3)))
    if fmt == "toml":
        return to_toml(docs)
    raise ValueError(fmt)


def pick_format(rng, docs):
    fmts = ["json", "yaml", "yml", "jsonl"]
    if all(toml_ok(d) for d in docs):
        fmts += ["toml", "toml"]
    return rng.pick(fmts)
