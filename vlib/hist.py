# hist.py — in-process correspondence on call histories of one Parser (public API), shared by
# C01, C02, C06, C07, C09-C14, C19: build oracle tables, run both sides, compare, shrink.
import hashlib
import json
import os
import re
import unicodedata

from . import core, gen
from .core import F, X, veq

PINNED_FORMATS = ["json", "json-pretty", "jsonl", "toml", "yaml", "yml"]


def formats_from_source():
    """keys of formatByExtension, re-read from /repo on every run (falls back to the pinned list)"""
    try:
        src = open(os.path.join(core.REPO, "formats.go")).read()
        blk = src[src.index("formatByExtension"):]
        blk = blk[:blk.index("\n}\n")]
        ks = re.findall(r'^\t"([^"]+)":\s*\{', blk, re.M)
        if ks:
            return sorted(ks), True
    except Exception:
        pass
    return PINNED_FORMATS, False


def ref_candidates(s):
    """strings bkl may hand to yaml.Unmarshal as a reference"""
    out = {s}
    for pre in ("$merge:", "$replace:"):
        if s.startswith(pre):
            out.add(s[len(pre):])
    if s.startswith('$"') and s.endswith('"'):
        body = s[2:-1] if len(s) >= 3 else ""
        out.add(body)
        i = 0
        while True:
            j = body.find("{", i)
            if j < 0:
                break
            k = body.find("}", j + 1)
            if k < 0:
                break
            out.add(body[j + 1:k])
            i = j + 1
    return out


def lower_candidates(s):
    if len(s) >= 2 and s[0] == "$" and ord(s[1]) >= 0x80:
        return [ord(s[1])] if unicodedata.category(s[1]) == "Ll" else []
    return []


def py_decode(fmt, text):
    """independent decoders for $decode tables: python json / PyYAML / tomllib"""
    import tomllib
    import yaml

    def norm(v):
        if isinstance(v, bool) or v is None or isinstance(v, str):
            return v
        if isinstance(v, int):
            return v
        if isinstance(v, float):
            return F(core.go_g(v))
        if isinstance(v, list):
            return [norm(x) for x in v]
        if isinstance(v, dict):
            if not all(isinstance(k, str) for k in v):
                raise ValueError("non-string key")
            return {k: norm(x) for k, x in v.items()}
        raise ValueError("type %r" % type(v))
    try:
        if fmt in ("json", "jsonl", "json-pretty"):
            docs = core.parse_json_docs(text)
        elif fmt in ("yaml", "yml"):
            parts = re.split(r"(?m)^---$", text)
            docs = [yaml.safe_load(p) for p in parts]
        elif fmt == "toml":
            parts = re.split(r"(?m)^(?:\+\+\+|---)$", text)
            docs = [tomllib.loads(p) for p in parts]
        else:
            return None
        return ["ok", [norm(d) for d in docs]]
    except Exception:
        return ["err", "unmarshal"]


def collect_tables(ctx, cases, env_of, docs_of, extra_enc=None, extra_sha=None):
    """fills case[1] (the oracle tables) for every case"""
    fmts, _ = formats_from_source()
    all_refs = set()
    per = []
    for c in cases:
        strs = set()
        for d in docs_of(c):
            strs.update(gen.walk_strings(d))
        env = env_of(c)
        strs.update(env.values())
        refs = set()
        lows = set()
        for s in strs:
            refs |= ref_candidates(s)
            lows.update(lower_candidates(s))
        per.append((refs, lows, strs))
        all_refs |= refs
    refs_l = sorted(all_refs, key=lambda s: s.encode("utf-8", "surrogateescape"))
    ymap = {}
    if refs_l:
        r = ctx.impl([["yaml", refs_l]])
        if isinstance(r[0], dict):
            ymap = r[0]
    encq = []
    for i, c in enumerate(cases):
        for q in (extra_enc(c) if extra_enc else []):
            encq.append(q)
    encmap = {}
    if encq:
        r = ctx.impl([["enc", encq]])
        for f, v, res in r[0]:
            encmap[(f, repr(core.canon(v)))] = res
    for i, c in enumerate(cases):
        refs, lows, strs = per[i]
        t = {
            "env": dict(env_of(c)),
            "yaml": {s: sanitize(ymap[s]) for s in refs if s in ymap},
            "fmts": list(fmts),
            "lower": sorted(lows),
            "sha": {},
            "enc": [],
            "dec": [],
        }
        for d in docs_of(c):
            for f, text in decode_sites(d):
                r = py_decode(f, text)
                if r is not None:
                    t["dec"].append([f, text, r])
        for q in (extra_enc(c) if extra_enc else []):
            res = encmap.get((q[0], repr(core.canon(q[1]))))
            if res is not None:
                t["enc"].append([q[0], q[1], res])
        for s in (extra_sha(c) if extra_sha else []):
            t["sha"][s] = hashlib.sha256(s.encode("utf-8", "surrogateescape")).hexdigest()
        c[1] = t
    return cases


def sanitize(r):
    """a yaml.Unmarshal result containing Go types the model has no value for becomes an error entry"""
    def bad(v):
        if isinstance(v, X):
            return True
        if isinstance(v, list):
            return any(bad(x) for x in v)
        if isinstance(v, dict):
            return any(bad(x) for x in v.values())
        return False
    if r[0] == "ok" and bad(r[1]):
        return ["err", "yamltype"]
    return r


def decode_sites(v):
    if isinstance(v, dict):
        if isinstance(v.get("$decode"), str) and isinstance(v.get("$value"), str) and not isinstance(v.get("$value"), F):
            yield v["$decode"], v["$value"]
        for x in v.values():
            yield from decode_sites(x)
    elif isinstance(v, list):
        for x in v:
            yield from decode_sites(x)


# ------------------------------------------------------------------ comparison of history results
def norm_res(r, classes):
    """["ok", v] stays; ["err", cls] keeps cls only when it is one of `classes`"""
    if isinstance(r, list) and len(r) == 2 and r[0] == "err":
        return ["err", r[1] if r[1] in classes else "*"]
    return r


def has_oracle_miss(mo):
    return '"oracle"' in json.dumps(core.to_jsonable(mo))


def compare_outs(im, mo, classes=("required", "invaliddirective")):
    """None when equal on the projected observables, else (index, description)"""
    if not isinstance(im, list) or (im and im[0] in ("panic", "crash")):
        return (-1, "implementation %s: %s" % (im[0], im[1] if len(im) > 1 else ""))
    if not isinstance(mo, list) or len(im) != len(mo):
        return (-1, "result shapes differ")
    for i, (a, b) in enumerate(zip(im, mo)):
        if a[0] != b[0]:
            return (i, "call %d: implementation %s, model %s" % (i, a[0], b[0]))
        if a[0] in ("merge", "out"):
            ra, rb = a[1], b[1]
            if rb[0] == "err" and rb[1] == "validatemixed":
                if ra[0] != "err":
                    return (i, "call %d: model rejects the output (required and invalid directive), implementation succeeds" % i)
                continue
            na, nb = norm_res(ra, classes), norm_res(rb, classes)
            if not veq(na, nb):
                return (i, "call %d (%s): implementation %s, model %s" % (i, a[0], short(ra), short(rb)))
        elif a[0] in ("docs",):
            if not veq(a[1], b[1]):
                return (i, "call %d: Documents() differ: implementation %s, model %s" % (i, short(a[1]), short(b[1])))
        elif a[0] == "new":
            if a[1] != b[1]:
                return (i, "call %d: document index differs" % i)
    return None


def short(v, n=300):
    s = json.dumps(core.to_jsonable(v), ensure_ascii=False)
    return s if len(s) <= n else s[:n] + "..."


# ------------------------------------------------------------------ histories from chains / streams
def chain_history(layers, with_out=True, docs_each=True):
    """base, then each layer as a document whose parent is the previous layer's document"""
    ops = []
    for i, l in enumerate(layers):
        ops.append(["new", "L%d" % i, ([i - 1] if i else []), l])
        ops.append(["merge", i])
        if docs_each:
            ops.append(["docs"])
    if with_out:
        ops.append(["out"])
    return ops


def stream_history(docs, with_out=True):
    ops = []
    for i, d in enumerate(docs):
        ops.append(["new", "D%d" % i, [], d])
        ops.append(["merge", i])
    if with_out:
        ops.append(["out"])
    return ops


def docs_of_history(c):
    return [o[3] for o in c[2] if o[0] == "new"]


def run_histories(ctx, cases, env_of=lambda c: {}, extra_enc=None, extra_sha=None):
    """cases: [["history", None, ops], ...] -> (impl results, model results)"""
    collect_tables(ctx, cases, env_of, docs_of_history, extra_enc, extra_sha)
    im = ctx.impl(cases)
    mo = ctx.model(cases)
    return im, mo


def shrink_history(ctx, case, still_fails, env_of=lambda c: {}, extra_enc=None, extra_sha=None, rounds=40, data_ok=lambda d: True):
    """delta-debug the document data of a history (and drop trailing calls)"""
    cur = case
    for _ in range(rounds):
        cands = []
        ops = cur[2]
        # drop the last layer (new+merge+docs...) when nothing after refers to it
        news = [i for i, o in enumerate(ops) if o[0] == "new"]
        if len(news) > 1:
            last = news[-1]
            tail = [o for o in ops[last + 1:] if o[0] not in ("merge", "docs")]
            cands.append(["history", None, ops[:last] + tail])
        for i, o in enumerate(ops):
            if o[0] == "new":
                for t in gen.shrink_tree(o[3])[:80]:
                    if data_ok(t):
                        cands.append(["history", None, ops[:i] + [[o[0], o[1], o[2], t]] + ops[i + 1:]])
        cands = cands[:300]
        if not cands:
            break
        im, mo = run_histories(ctx, cands, env_of, extra_enc, extra_sha)
        nxt = None
        for c, a, b in zip(cands, im, mo):
            if still_fails(c, a, b):
                nxt = c
                break
        if nxt is None:
            break
        cur = nxt
    return cur
