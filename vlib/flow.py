# flow.py — the common skeleton of one check run.
import json
import os
import sys
import time
import traceback

from . import core
from .core import BuildError, Ctx, VERIF

TRUSTED_BASE = [
    "Coq 8.16.1 kernel (coqc, Debian build) incl. the bytecode VM used by vm_compute; native_compute not used",
    "axioms: none (every theorem of Properties/<id>.v prints 'Closed under the global context')",
    "extraction: Coq.extraction.Extraction with ExtrOcamlBasic + ExtrOcamlString/ExtrOcamlChar as shipped (bool, option, unit, list, prod, sumbool, sumor, andb, orb; ascii->char, string->char list, Ascii.eqb/compare, byte); no directive of our own; Z/N/positive/nat stay inductives; OCaml 4.13.1 ocamlfind ocamlopt",
    "driver/main.ml (parser/printer of the exchange format only)",
    "harness/main.go, vlib/*.py (generators, file emitters, comparison, shrinking), Go toolchain, /usr/bin/python3",
    "hand-written model coq/Model/*.v of the Go sources named in DESIGN.md section 8; tie to /repo = this run's correspondence",
]


def run_check(prop_mod, prop_id, tier, replay=None):
    payload = None
    if replay is not None:
        # a replay re-runs the check exactly as the reporting run did (same seed, tier and effort: generation is a function
        # of them) and looks for the same violation again on the current tree
        payload = json.load(open(replay))
        info = payload.get("_run") or {}
        if "seed" in info:
            os.environ["VERIF_SEED"] = str(info["seed"])
        tier = info.get("tier", tier)
    ctx = Ctx(prop_id, tier)
    if payload is not None and "scale" in (payload.get("_run") or {}):
        ctx.scale = payload["_run"]["scale"]
    ctx.replay_of = payload
    ctx.replay_path = replay
    rc = 1
    if replay is None:
        # replays of earlier runs of this property would only mislead; this run writes its own
        import glob
        for old in glob.glob(os.path.join(core.VERIF, "replays", prop_id + "-*.json")):
            try:
                os.remove(old)
            except OSError:
                pass
    try:
        rc = _run(ctx, prop_mod, None)
    finally:
        ctx.cleanup()
    return rc


def _nofail(ctx, what, detail):
    p = core.write_replay(ctx, "broken-" + "".join(c if c.isalnum() else "_" for c in what)[:40],
                          {"property": ctx.prop_id, "kind": "no-failing-input-found", "what": what, "detail": detail[-4000:]})
    print("VIOLATION property=%s replay=%s no-failing-input-found" % (ctx.prop_id, p))
    return p


def _run(ctx, prop_mod, replay):
    prop_id = ctx.prop_id
    obligations, discharged, checker_out = [], [], ""
    broken = []
    # 1. proofs
    try:
        core.build_coq_and_driver()
    except BuildError as e:
        broken.append(("proof or model build: " + e.what, e.log))
    bad = core.hygiene()
    if bad:
        broken.append(("hygiene grep found forbidden vernacular", "\n".join(bad)))
    if not broken:
        obligations, discharged, checker_out = core.check_assumptions(prop_id, ctx.work)
        missing = [t for t in obligations if t not in discharged]
        if not obligations:
            broken.append(("no theorems found for " + prop_id, checker_out))
        elif missing:
            broken.append(("theorems not closed under the global context: " + ", ".join(missing), checker_out))
    # 2. implementation
    stats = None
    if not broken:
        try:
            ctx.bindir = core.build_go(ctx.work, cli=getattr(prop_mod, "CLI", ()), harness=getattr(prop_mod, "HARNESS", True),
                                       race=False)
        except BuildError as e:
            broken.append(("implementation build: " + e.what, e.log))
    if not broken:
        try:
            if replay:
                return prop_mod.replay(ctx, json.load(open(replay)))
            stats = prop_mod.run(ctx)
        except Exception:
            broken.append(("check crashed", traceback.format_exc()))
    if stats is not None and ctx.impl_crashes and not any(("crash" in str(v.get("why", "")) or "panic" in str(v.get("why", ""))) for v in ctx.violations):
        for c, r in ctx.impl_crashes[:2]:
            ctx.violations.append({"name": "crash-" + core.vhash(c), "property": prop_id, "kind": "failing-input",
                                   "why": "the implementation %s on this case: %s" % ("died" if r[0] == "crash" else "panicked", str(r[1:])[:300]),
                                   "case": core.to_jsonable(c), "class": "implementation-crash"})
    # 2b. thorough tier: independent re-check of the compiled proofs, kernel-side evaluation of a sample
    extra = {}
    if ctx.tier == "thorough" and not broken:
        try:
            extra.update(core.coqchk(prop_id))
            if extra.get("coqchk_rc") != 0 or extra.get("coqchk_axioms") not in ("<none>",):
                broken.append(("coqchk does not accept Properties/%s.vo without axioms" % prop_id, json.dumps(extra)))
            extra.update(core.vm_crosscheck(ctx))
            if extra.get("vm_compute_mismatches", 0) != 0:
                broken.append(("vm_compute of the model disagrees with the extracted driver on this run's cases", json.dumps(extra)))
        except Exception:
            broken.append(("thorough-tier cross-check crashed", traceback.format_exc()))
    # 3. verdict
    known = core.load_known()
    reported = 0
    if getattr(ctx, "replay_of", None) is not None:
        want = ctx.replay_of
        hit = None
        if "what" in want and want.get("kind") == "no-failing-input-found" and "name" not in want:
            for what, detail in broken:
                if what == want["what"]:
                    hit = {"why": what}
        else:
            for v in ctx.violations:
                if v.get("name") == want.get("name"):
                    hit = v
        if hit is not None:
            tail = " no-failing-input-found" if want.get("kind") == "no-failing-input-found" else ""
            print("replay: reproduced on the current tree: %s" % str(hit.get("why", ""))[:400])
            print("VIOLATION property=%s replay=%s%s" % (prop_id, ctx.replay_path, tail))
            return 1
        others = len(ctx.violations) + len(broken)
        print("replay: %s is not reproduced on the current tree (%d other violation(s) in this run)" % (want.get("name", want.get("what", "?")), others))
        return 0
    for what, detail in broken:
        _nofail(ctx, what, detail)
        reported += 1
    printed = set()
    if not broken and stats is not None:
        for k in known.get("findings", []):
            if k.get("property") == prop_id and hasattr(prop_mod, "check_known"):
                try:
                    still = prop_mod.check_known(ctx, k)
                except Exception:
                    still = None
                if still:
                    print("KNOWN-FINDING: property=%s %s" % (prop_id, k.get("what", "")))
                    printed.add(k.get("id"))
                elif still is False:
                    ctx.notes.append("known finding %s no longer reproduces" % k.get("id"))
    for v in ctx.violations:
        kf = None
        for k in known.get("findings", []):
            if k.get("property") == prop_id and prop_mod.matches_known(k, v):
                kf = k
        if kf:
            if kf.get("id") not in printed:
                print("KNOWN-FINDING: property=%s %s" % (prop_id, kf.get("what", "")))
                printed.add(kf.get("id"))
            continue
        p = core.write_replay(ctx, v.get("name", "v%d" % reported), v)
        tail = " no-failing-input-found" if v.get("kind") == "no-failing-input-found" else ""
        print("VIOLATION property=%s replay=%s%s" % (prop_id, p, tail))
        reported += 1
    cov = {
        "obligations": len(obligations),
        "discharged": len(discharged),
        "checker_cmd": "make -C coq -j16 (coq_makefile, full .vo build) ; coqc -Q coq Bkl <Print Assumptions of: %s>" % ", ".join(obligations),
        "trusted_base": TRUSTED_BASE + list(getattr(prop_mod, "TRUSTED", [])),
        "theorems": obligations,
    }
    if stats:
        cov.update(stats)
    cov.update(extra)
    cov["sources_changed_since_reference"] = ctx.changed_sources
    cov["effort_scale"] = ctx.scale
    cov.setdefault("evaluations", 0)
    cov.setdefault("distinct_nontrivial", 0)
    cov.setdefault("rule", "")
    cov.setdefault("samples", [])
    core.write_evidence(ctx, cov, list(getattr(prop_mod, "ASSUMPTIONS", [])), reported)
    print("%s tier=%s seed=%d obligations=%d discharged=%d evaluations=%d nontrivial=%d violations=%d wall=%.1fs" % (
        prop_id, ctx.tier, ctx.base_seed, len(obligations), len(discharged), cov["evaluations"], cov["distinct_nontrivial"],
        reported, time.time() - ctx.t0))
    for n in ctx.notes:
        print("note: " + n)
    return 1 if reported else 0


def default_matches_known(k, v):
    return k.get("class") is not None and k.get("class") == v.get("class")
