# ynodes.py — generated yaml.v3 node trees (the shape Model/Yaml.v reads) with their rendering as YAML text.
# The renderer is this file's own: which node tree a text denotes is YAML's rule, written down here independently
# of both bkl and the model; the check compares what bkl loads from the text with what the model says of the tree.
import json

PLAIN_KEYS = ["p", "q", "r", "t", "z", "name", "k1"]
ODD_KEYS = [("1", "1"), ("true", "true"), ("~", "~"), ('"a b"', "a b"), ("2.5", "2.5")]


def scalar(rng):
    """(node, text)"""
    k = rng.below(12)
    if k < 3:
        n = rng.pick([0, 1, 7, -3, 42, 2147483648, -9223372036854775807])
        return ["s", "!!int", str(n)], str(n)
    if k < 4:
        g = rng.pick(["2.5", "-0.25", "1e+100", "0.1"])
        return ["s", "!!float", g], g
    if k < 5:
        b = rng.pick(["true", "false"])
        return ["s", "!!bool", b], b
    if k < 7:
        t = rng.pick(["null", "~"])
        return ["s", "!!null", t], t
    if k < 8:
        t = rng.pick(["2001-12-14", "2001-12-14T21:59:43Z"])
        return ["s", "!!timestamp", t], t
    if k < 9:
        return ["s", "!!merge", "<<"], "<<"
    if k < 10:
        s = rng.pick(["hello", "x y", "abc", "v1.2.3"])
        return ["s", "!!str", s], s
    s = rng.pick(["", "1", "true", "null", "<<", "a: b", "é", "~", "line\nbreak", "2001-12-14"])
    return ["s", "!!str", s], json.dumps(s, ensure_ascii=False)


def key(rng, used):
    for _ in range(20):
        if rng.chance(1, 6):
            text, val = rng.pick(ODD_KEYS)
        else:
            val = rng.pick(PLAIN_KEYS)
            text = val
        if val not in used:
            used.add(val)
            return ["s", "!!str", val], text
    return None, None


def node(rng, depth, anchors, bad, enclosing=()):
    """(node, flow text); anchors: list of (name, node) defined earlier in the document; enclosing: names of the anchors
    on nodes that contain this one (an alias to one of them makes the node tree cyclic: always a circular-reference error)"""
    if enclosing and rng.chance(1, 6):
        return ["aliasup"], "*" + rng.pick(list(enclosing))
    k = rng.below(10)
    if anchors and k < 2:
        name, target = rng.pick(anchors)
        return ["alias", target], "*" + name
    if depth > 0 and k < 6:
        return mapping(rng, depth, anchors, bad, enclosing)
    if depth > 0 and k < 8:
        items = [node(rng, depth - 1, anchors, bad, enclosing) for _ in range(rng.below(4))]
        return ["seq", [n for n, _ in items]], "[" + ", ".join(t for _, t in items) + "]"
    return scalar(rng)


def mapping(rng, depth, anchors, bad, enclosing=()):
    used = set()
    entries = []
    n = rng.below(4)
    for _ in range(n):
        kn, kt = key(rng, used)
        if kn is None:
            break
        vn, vt = node(rng, depth - 1, anchors, bad, enclosing)
        entries.append(([kn, vn], "%s: %s" % (kt, vt)))
    map_anchors = [(nm, t) for nm, t in anchors if t[0] == "map"]
    if enclosing and rng.chance(1, 8):
        entries.insert(rng.below(len(entries) + 1), ([["s", "!!merge", "<<"], ["aliasup"]], "<<: *%s" % rng.pick(list(enclosing))))
    elif map_anchors and rng.chance(1, 2):
        form = 9 if (bad and rng.chance(1, 2)) else rng.below(9)
        if form < 4:
            nm, t = rng.pick(map_anchors)
            mv, mt = ["alias", t], "*" + nm
        elif form < 8:
            picks = [rng.pick(map_anchors) for _ in range(1 + rng.below(3))]
            mv, mt = ["seq", [["alias", t] for _, t in picks]], "[" + ", ".join("*" + nm for nm, _ in picks) + "]"
        elif form < 9:
            # an inline mapping as the merge source
            sub, st = mapping(rng, 0, [], bad)
            mv, mt = sub, st
        elif bad:
            nm, t = rng.pick(map_anchors)
            sv, stxt = scalar(rng)
            if rng.chance(1, 2):
                mv, mt = sv, stxt
            else:
                mv, mt = ["seq", [["alias", t], sv]], "[*%s, %s]" % (nm, stxt)
        else:
            nm, t = rng.pick(map_anchors)
            mv, mt = ["alias", t], "*" + nm
        entries.insert(rng.below(len(entries) + 1), ([["s", "!!merge", "<<"], mv], "<<: %s" % mt))
    return ["map", [e for e, _ in entries]], "{" + ", ".join(t for _, t in entries) + "}"


def document(rng, bad=False, selfref=False):
    """(node tree of the document, YAML text): top-level block mapping; anchors first, then uses. An anchor NAME may be
    bound more than once (YAML: an alias refers to the most recent binding before it), half of the time from a pool of two
    names so that rebinding is frequent"""
    latest = {}          # anchor name -> node of its most recent binding
    lines = []
    entries = []
    small_pool = rng.chance(1, 2)
    for i in range(1 + rng.below(3 if not small_pool else 4)):
        name = rng.pick(["p", "q"]) if small_pool else "a%d" % i
        key = "d%d" % i
        # inside the node that (re)binds `name`, *name already means that node itself (the anchor is registered when the
        # node starts): earlier bindings of the same name are no longer reachable from inside it
        anchors = sorted((nm, t) for nm, t in latest.items() if nm != name)
        enc = (name,) if selfref else ()
        if rng.chance(4, 5):
            n, t = mapping(rng, 1 + (1 if selfref else 0), anchors, bad, enc)
        else:
            n, t = node(rng, 1, anchors, bad, enc)
        if n[0] in ("alias", "aliasup"):
            # an anchor on an alias is not YAML
            n, t = scalar(rng)
        lines.append("%s: &%s %s" % (key, name, t))
        entries.append([["s", "!!str", key], n])
        latest[name] = n
        # a use right after this binding, so that bindings and uses interleave
        if rng.chance(1, 2):
            un, ut = node(rng, 1, sorted(latest.items()), bad)
            lines.append("m%d: %s" % (i, ut))
            entries.append([["s", "!!str", "m%d" % i], un])
    for i in range(1 + rng.below(3)):
        name = "u%d" % i
        n, t = node(rng, 2, sorted(latest.items()), bad)
        lines.append("%s: %s" % (name, t))
        entries.append([["s", "!!str", name], n])
    return ["map", entries], "\n".join(lines) + "\n"


def shrink(doc_node):
    """smaller documents: drop a top-level use entry (anchors stay, aliases carry their target by value)"""
    out = []
    ents = doc_node[1]
    for i in range(len(ents)):
        out.append(["map", ents[:i] + ents[i + 1:]])
    return out
