# edits.py — map-rooted, null-free, $-free trees and arbitrary edits of them (C15, C16).
from . import gen
from .core import F

PROF = {"keys": ["a", "b", "c", "d", "e"], "strs": ["s", "t", "u", "v w", "1", "é"], "nulls": False, "width": 3,
        "scalars": None}


def base(rng, depth=3):
    t = gen.tree(rng, depth, PROF, root_map=True)
    while len(t) < 2:
        t[rng.pick(PROF["keys"])] = gen.tree(rng, depth - 1, PROF)
    if rng.chance(2, 3):
        t["l"] = [rng.pick([1, 2, "s", {"a": 1}, {"a": 1, "b": 2}, [1], {"id": 1, "v": "x"}]) for _ in range(rng.below(5))]
    if rng.chance(1, 3):
        t["m"] = [{"a": 1}, {"a": 1, "b": 2}, {"c": 3}][: 1 + rng.below(3)]
    return t


def edit(rng, v, depth=0):
    """an arbitrary edit of v (same root kind at depth 0)"""
    if isinstance(v, dict):
        r = {}
        for k, x in v.items():
            c = rng.below(12)
            if c < 2:
                continue                                    # key removed
            if c < 6:
                r[k] = edit(rng, x, depth + 1)              # changed below
            elif c < 7:
                r[k] = other_kind(rng, x)                   # kind change
            else:
                r[k] = x
        if rng.chance(1, 3):
            r[rng.pick(["n", "new", "a", "z"])] = gen.tree(rng, 1, PROF)
        return r
    if isinstance(v, list):
        l = list(v)
        c = rng.below(10)
        if c < 2 and l:
            del l[rng.below(len(l))]                        # entry removed
        elif c < 4:
            l.insert(rng.below(len(l) + 1), gen.tree(rng, 1, PROF))   # entry added
        elif c < 5 and len(l) >= 2:
            l = rng.shuffle(l)                              # reordered
        elif c < 6 and l:
            l.append(rng.pick(l))                           # duplicated
        elif c < 7 and l:
            i = rng.below(len(l))
            l[i] = edit(rng, l[i], depth + 1)
        elif c < 8:
            l = []
        elif c < 9 and l:
            i = rng.below(len(l))
            l[i] = alike(l[i])                              # an entry that prints the same but is of another kind
        return l
    c = rng.below(5)
    if c == 0:
        return v
    if c == 4:
        return alike(v)
    return gen.different_scalar(rng, v, PROF)


def alike(v):
    """a scalar of another kind that prints like v (8080 / "8080", true / "true"); anything else unchanged"""
    if isinstance(v, bool):
        return "true" if v else "false"
    if isinstance(v, int):
        return str(v)
    if isinstance(v, str):
        if v in ("true", "false"):
            return v == "true"
        if v.isdigit() and len(v) < 10 and (v == "0" or v[0] != "0"):
            return int(v)
    return v


def other_kind(rng, v):
    if isinstance(v, dict):
        return rng.pick([5, "s", [1, 2], []])
    if isinstance(v, list):
        return rng.pick([5, "s", {"a": 1}, {}])
    return rng.pick([{"a": 1}, [1], {}, []])


def write(d, name, tree, rng, fmt=None):
    import os
    fmt = fmt or gen.pick_format(rng, [tree])
    if fmt == "jsonl":
        fmt = "json"
    p = "%s.%s" % (name, fmt)
    with open(os.path.join(d, p), "w") as f:
        f.write(gen.emit(fmt, [tree], rng))
    return p
