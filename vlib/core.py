# core.py — exchange format, PRNG, building, executors, comparison plumbing, evidence.
# Python 3 stdlib only (plus PyYAML/tomllib where a property needs an independent parser).
import fcntl
import hashlib
import json
import os
import re
import shutil
import subprocess
import sys
import time

VERIF = os.path.dirname(os.path.dirname(os.path.abspath(__file__)))
REPO = os.environ.get("VERIF_REPO", "/repo")
GOENV = dict(os.environ, GOFLAGS="-mod=mod", GOPROXY="off")
for k in ("GOTOOLCHAIN", "GOSUMDB"):
    GOENV.pop(k, None)   # both break the cached-toolchain build in this image


# ------------------------------------------------------------------ values
class F(str):
    """a float64, identified by strconv.FormatFloat(x,'g',-1,64)"""
    __slots__ = ()

    def __repr__(self):
        return "F(%s)" % str.__repr__(self)


class X:
    """a Go dynamic type the model has no value for (int64, json.Number, ...)"""

    def __init__(self, tag, payload):
        self.tag, self.payload = tag, payload

    def __eq__(self, o):
        return isinstance(o, X) and (self.tag, self.payload) == (o.tag, o.payload)

    def __hash__(self):
        return hash((self.tag, self.payload))

    def __repr__(self):
        return "X(%r,%r)" % (self.tag, self.payload)


def enc(v, out=None):
    top = out is None
    if top:
        out = []
    if v is None:
        out.append(b"N")
    elif v is True:
        out.append(b"T")
    elif v is False:
        out.append(b"F")
    elif isinstance(v, F):
        b = str(v).encode()
        out.append(b"D%d:" % len(b) + b)
    elif isinstance(v, int):
        out.append(b"I%d;" % v)
    elif isinstance(v, str):
        b = v.encode("utf-8", "surrogateescape")
        out.append(b"S%d:" % len(b) + b)
    elif isinstance(v, (list, tuple)):
        out.append(b"L%d;" % len(v))
        for e in v:
            enc(e, out)
    elif isinstance(v, dict):
        out.append(b"M%d;" % len(v))
        for k in sorted(v, key=lambda s: s.encode("utf-8", "surrogateescape")):
            b = k.encode("utf-8", "surrogateescape")
            out.append(b"S%d:" % len(b) + b)
            enc(v[k], out)
    else:
        raise TypeError("cannot encode %r" % (v,))
    if top:
        return b"".join(out)


def dec_stream(b):
    """parse a stream of values separated by whitespace"""
    pos = 0
    n = len(b)
    res = []

    def until(stop):
        nonlocal pos
        j = b.index(stop, pos)
        s = b[pos:j]
        pos = j + 1
        return s

    def nbytes():
        nonlocal pos
        k = int(until(b":"))
        s = b[pos:pos + k]
        pos += k
        return s

    def parse():
        nonlocal pos
        c = b[pos:pos + 1]
        pos += 1
        if c == b"N":
            return None
        if c == b"T":
            return True
        if c == b"F":
            return False
        if c == b"I":
            return int(until(b";"))
        if c == b"D":
            return F(nbytes().decode())
        if c == b"S":
            return nbytes().decode("utf-8", "surrogateescape")
        if c == b"L":
            k = int(until(b";"))
            return [parse() for _ in range(k)]
        if c == b"M":
            k = int(until(b";"))
            m = {}
            for _ in range(k):
                pos += 1
                key = nbytes().decode("utf-8", "surrogateescape")
                m[key] = parse()
            return m
        if c in (b"K", b"U"):
            return X(c.decode(), int(until(b";")))
        if c in (b"E", b"J", b"X"):
            return X(c.decode(), nbytes().decode("utf-8", "replace"))
        raise ValueError("bad tag %r at %d" % (c, pos))

    while True:
        while pos < n and b[pos:pos + 1] in b" \n\t\r":
            pos += 1
        if pos >= n:
            break
        res.append(parse())
    return res


def canon(v):
    """hashable canonical form"""
    if isinstance(v, F):
        return ("F", str(v))
    if isinstance(v, bool) or v is None or isinstance(v, (int, str)):
        return (type(v).__name__, v)
    if isinstance(v, (list, tuple)):
        return ("L",) + tuple(canon(e) for e in v)
    if isinstance(v, dict):
        return ("M",) + tuple((k, canon(v[k])) for k in sorted(v))
    if isinstance(v, X):
        return ("X", v.tag, v.payload)
    raise TypeError(repr(v))


def vhash(v):
    return hashlib.sha1(repr(canon(v)).encode("utf-8", "surrogateescape")).hexdigest()[:16]


def veq(a, b):
    return canon(a) == canon(b)


def to_jsonable(v):
    if isinstance(v, F):
        return {"$float": str(v)}
    if isinstance(v, X):
        return {"$gotype": v.tag, "v": v.payload}
    if isinstance(v, (list, tuple)):
        return [to_jsonable(e) for e in v]
    if isinstance(v, dict):
        return {"$map": [[k.encode("utf-8", "surrogateescape").decode("utf-8", "replace"), to_jsonable(v[k])] for k in sorted(v)]}
    if isinstance(v, str):
        return v.encode("utf-8", "surrogateescape").decode("utf-8", "replace")
    return v


def from_jsonable(j):
    if isinstance(j, list):
        return [from_jsonable(e) for e in j]
    if isinstance(j, dict):
        if "$float" in j:
            return F(j["$float"])
        if "$gotype" in j:
            return X(j["$gotype"], j["v"])
        return {k: from_jsonable(v) for k, v in j["$map"]}
    return j


# ------------------------------------------------------------------ PRNG
class Rng:
    """splitmix64; every random choice of a run derives from one seed"""
    M = (1 << 64) - 1

    def __init__(self, seed):
        self.s = seed & self.M

    def next(self):
        self.s = (self.s + 0x9E3779B97F4A7C15) & self.M
        z = self.s
        z = ((z ^ (z >> 30)) * 0xBF58476D1CE4E5B9) & self.M
        z = ((z ^ (z >> 27)) * 0x94D049BB133111EB) & self.M
        return z ^ (z >> 31)

    def below(self, n):
        return self.next() % n

    def chance(self, num, den):
        return self.below(den) < num

    def pick(self, seq):
        return seq[self.below(len(seq))]

    def fork(self, tag):
        h = int(hashlib.sha256(("%d/%s" % (self.s, tag)).encode()).hexdigest()[:16], 16)
        return Rng(h)

    def shuffle(self, l):
        l = list(l)
        for i in range(len(l) - 1, 0, -1):
            j = self.below(i + 1)
            l[i], l[j] = l[j], l[i]
        return l


def seed_for(prop_id, tier):
    base = int(os.environ.get("VERIF_SEED", "20260930"))
    h = int(hashlib.sha256(("%d/%s" % (base, prop_id)).encode()).hexdigest()[:15], 16)
    return base, h


# ------------------------------------------------------------------ building
class BuildError(Exception):
    def __init__(self, what, log):
        Exception.__init__(self, what)
        self.what, self.log = what, log


def sh(cmd, cwd=None, env=None, timeout=1800, inp=None):
    p = subprocess.run(cmd, cwd=cwd, env=env, stdout=subprocess.PIPE, stderr=subprocess.STDOUT,
                       input=inp, timeout=timeout, shell=isinstance(cmd, str))
    return p.returncode, p.stdout.decode("utf-8", "replace")


def locked(fn):
    os.makedirs(os.path.join(VERIF, ".work"), exist_ok=True)
    with open(os.path.join(VERIF, ".work", "build.lock"), "w") as lk:
        fcntl.flock(lk, fcntl.LOCK_EX)
        try:
            return fn()
        finally:
            fcntl.flock(lk, fcntl.LOCK_UN)


def newest_mtime(paths):
    m = 0
    for p in paths:
        if os.path.isdir(p):
            for root, _, files in os.walk(p):
                for f in files:
                    if f.endswith((".v", ".ml", ".mli", "_CoqProject")):
                        m = max(m, os.path.getmtime(os.path.join(root, f)))
        elif os.path.exists(p):
            m = max(m, os.path.getmtime(p))
    return m


def build_coq_and_driver():
    """full .vo build (never -vos), extraction, OCaml driver. Up-to-date => seconds."""
    def go():
        coq = os.path.join(VERIF, "coq")
        drv = os.path.join(VERIF, "driver")
        if not os.path.exists(os.path.join(coq, "Makefile")):
            rc, out = sh("coq_makefile -f _CoqProject -o Makefile", cwd=coq)
            if rc:
                raise BuildError("coq_makefile", out)
        rc, out = sh("timeout 3000 make -j16", cwd=coq, timeout=3100)
        if rc:
            raise BuildError("coq build (make -C coq)", out)
        binp = os.path.join(drv, "model_driver")
        src_m = max(newest_mtime([os.path.join(coq, "Model"), os.path.join(coq, "Extract.v")]),
                    os.path.getmtime(os.path.join(drv, "main.ml")))
        if not os.path.exists(binp) or os.path.getmtime(binp) < src_m:
            rc, out = sh("timeout 600 coqc -Q ../coq Bkl ../coq/Extract.v", cwd=drv)
            if rc:
                raise BuildError("extraction", out)
            rc, out = sh("ocamlfind ocamlopt -O3 -w -a -package str model.mli model.ml main.ml -o model_driver", cwd=drv)
            if rc:
                raise BuildError("ocaml driver", out)
        return out
    return locked(go)


def theorems_of(prop_id):
    p = os.path.join(VERIF, "coq", "Properties", prop_id + ".v")
    if not os.path.exists(p):
        return []
    src = open(p).read()
    return re.findall(r"^\s*(?:Theorem|Corollary)\s+([A-Za-z0-9_']+)", src, re.M)


ALLOWED_AXIOMS = set()   # none: every property theorem must be closed under the global context


def check_assumptions(prop_id, workdir):
    """Print Assumptions of every theorem of Properties/<id>.v, from the compiled library."""
    ths = theorems_of(prop_id)
    if not ths:
        return [], [], "no Properties/%s.v" % prop_id
    vf = os.path.join(workdir, "Assum_%s.v" % prop_id)
    with open(vf, "w") as f:
        f.write("From Bkl Require Import Properties.%s.\n" % prop_id)
        for t in ths:
            f.write('Print Assumptions %s.\n' % t)
    rc, out = sh(["coqc", "-Q", os.path.join(VERIF, "coq"), "Bkl", vf], cwd=workdir, timeout=600)
    if rc:
        return ths, [], out
    blocks = re.split(r"(?=Closed under the global context|Axioms:)", out)
    blocks = [b for b in blocks if b.startswith(("Closed", "Axioms:"))]
    closed = []
    for t, b in zip(ths, blocks):
        if b.startswith("Closed"):
            closed.append(t)
        else:
            names = set(re.findall(r"^([A-Za-z0-9_.']+)\s*:", b, re.M))
            if names <= ALLOWED_AXIOMS:
                closed.append(t)
    return ths, closed, out


HYGIENE_RE = re.compile(r"\b(Admitted|admit|Axiom|Parameter|Conjecture|Unset Guard|bypass_check|type-in-type|impredicative-set|Admit Obligations)\b")


def hygiene():
    bad = []
    coq = os.path.join(VERIF, "coq")
    for root, _, files in os.walk(coq):
        for f in files:
            if f.endswith(".v") or f == "_CoqProject":
                src = open(os.path.join(root, f)).read()
                src = re.sub(r"\(\*.*?\*\)", "", src, flags=re.S)
                for m in HYGIENE_RE.finditer(src):
                    bad.append("%s: %s" % (os.path.join(root, f), m.group(0)))
                # a Variable / Hypothesis / Context outside a section declares an axiom
                depth = 0
                for line in src.splitlines():
                    t = line.strip()
                    if re.match(r"Section\s+\w+\s*\.", t):
                        depth += 1
                    elif re.match(r"End\s+\w+\s*\.", t) and depth > 0:
                        depth -= 1
                    elif depth == 0 and re.match(r"(Variables?|Hypothes[ie]s|Context)\b", t):
                        bad.append("%s: %s outside a section" % (os.path.join(root, f), t[:60]))
    return bad


COVERDIR = os.environ.get("VERIF_COVERDIR")      # measurement aid only: builds with -cover, collects where the checks reach


def cover_env(env):
    if COVERDIR:
        env = dict(env)
        env["GOCOVERDIR"] = COVERDIR
    return env


def build_go(workdir, cli=("bkl",), harness=True, race=False):
    bindir = os.path.join(workdir, "bin")
    os.makedirs(bindir, exist_ok=True)
    cov = ["-cover", "-coverpkg=github.com/gopatchy/bkl/..."] if COVERDIR else []
    if harness:
        h = os.path.join(VERIF, "harness")
        if REPO != "/repo":
            # experiments against another tree (VERIF_REPO): a private copy of the harness whose go.mod points there
            h2 = os.path.join(workdir, "harness_src")
            shutil.rmtree(h2, ignore_errors=True)
            shutil.copytree(h, h2)
            gm = open(os.path.join(h2, "go.mod")).read().replace("=> /repo", "=> " + REPO)
            open(os.path.join(h2, "go.mod"), "w").write(gm)
            h = h2
        # go.sum of the tree under test; written atomically and only when it differs (checks may run in parallel)
        want = open(os.path.join(REPO, "go.sum"), "rb").read()
        dst = os.path.join(h, "go.sum")
        if not os.path.exists(dst) or open(dst, "rb").read() != want:
            tmp = dst + ".%d.tmp" % os.getpid()
            open(tmp, "wb").write(want)
            os.replace(tmp, dst)
        hcov = ["-cover", "-coverpkg=github.com/gopatchy/bkl/...,verifh"] if COVERDIR else []     # the main package must be instrumented for data to be written
        rc, out = sh(["go", "build"] + hcov + ["-o", os.path.join(bindir, "verifh"), "."], cwd=h, env=GOENV, timeout=900)
        if rc:
            raise BuildError("go harness against /repo", out)
    for c in cli:
        cmd = ["go", "build"] + cov + (["-race"] if race else []) + ["-o", os.path.join(bindir, c), "./cmd/" + c]
        rc, out = sh(cmd, cwd=REPO, env=GOENV, timeout=900)
        if rc:
            raise BuildError("go build ./cmd/%s" % c, out)
    return bindir


# ------------------------------------------------------------------ executors
def run_stream(binary, cases, timeout=600, env=None, per_case_recover=True):
    """run a batch through an executor; a crash/hang is attributed to the first unanswered case,
    which gets the result ["crash", <stderr tail>], and the rest are re-run."""
    results = []
    i = 0
    while i < len(cases):
        data = b"\n".join(enc(c) for c in cases[i:])
        try:
            p = subprocess.run([binary], input=data, stdout=subprocess.PIPE, stderr=subprocess.PIPE,
                               timeout=timeout, env=env)
            out, errtxt, rc = p.stdout, p.stderr.decode("utf-8", "replace"), p.returncode
        except subprocess.TimeoutExpired as e:
            out, errtxt, rc = e.stdout or b"", "timeout", -9
        lines = out.split(b"\n")
        got = []
        try:
            got = dec_stream(b"\n".join(lines[:-1]))
        except Exception:
            # partial last value: drop it
            for k in range(len(lines) - 1, 0, -1):
                try:
                    got = dec_stream(b"\n".join(lines[:k]))
                    break
                except Exception:
                    continue
        results.extend(got)
        i += len(got)
        if i < len(cases) and (rc != 0 or len(got) < len(cases) - (i - len(got))):
            if not per_case_recover:
                raise RuntimeError("executor %s died: %s" % (binary, errtxt[-400:]))
            results.append(["crash", errtxt[-300:] if errtxt else "rc=%d" % rc])
            i += 1
    return results


class Ctx:
    """one check run: work dir, binaries, counters"""

    def __init__(self, prop_id, tier):
        self.prop_id, self.tier = prop_id, tier
        self.t0 = time.time()
        self.base_seed, self.seed = seed_for(prop_id, tier)
        self.work = os.path.join(VERIF, ".work", "%s-%d" % (prop_id, os.getpid()))
        shutil.rmtree(self.work, ignore_errors=True)
        os.makedirs(self.work)
        self.model_bin = os.path.join(VERIF, "driver", "model_driver")
        self.bindir = None
        self.violations = []
        self.known = []
        self.notes = []
        self.vm_sample = []
        self.impl_crashes = []
        self.changed_sources = changed_sources()
        # quick tier: when the sources differ from the reference tree the checks were tuned on, spend four times the effort
        self.scale = 4 if (self.changed_sources and tier == "quick") else 1

    def n(self, quick, thorough):
        return quick * self.scale if self.tier == "quick" else thorough

    def impl(self, cases, timeout=900):
        env = cover_env({"PATH": os.environ.get("PATH", ""), "HOME": self.work, "TMPDIR": self.work})
        res = run_stream(os.path.join(self.bindir, "verifh"), cases, timeout=timeout, env=env)
        # the real code dying (process crash) or panicking on a case is never acceptable, whatever the property's judge compares
        for c, r in zip(cases, res):
            if isinstance(r, list) and r and r[0] in ("crash", "panic") and len(self.impl_crashes) < 5:
                self.impl_crashes.append((c, r))
        return res

    def model(self, cases, timeout=900, sample=True):
        """sample=False keeps the batch out of the thorough tier's vm_compute cross-check (cases that are cheap for the
        extracted model but far too slow inside Coq's VM: 1000-deep documents, 1000-step reference chains)"""
        res = run_stream(self.model_bin, cases, timeout=timeout, per_case_recover=False)
        if sample and self.tier == "thorough" and len(self.vm_sample) < 300:
            # printed now: the caller may go on to mutate its case objects (C14 completes its tables in place)
            took = 0
            for c, r in zip(cases, res):
                if len(self.vm_sample) >= 300 or took >= 100:
                    break
                if coq_printable(c) and coq_printable(r):
                    pc = coq_val(c)
                    if len(pc) > 20000:
                        continue          # very large cases are left to the extracted model: the VM inside Coq is too slow for them
                    self.vm_sample.append((pc, coq_val(r)))
                    took += 1
        return res

    def cleanup(self):
        shutil.rmtree(self.work, ignore_errors=True)


def source_files():
    out = subprocess.run(["git", "-C", REPO, "ls-files", "-co", "--exclude-standard", "*.go"], stdout=subprocess.PIPE).stdout.decode().split()
    return sorted(f for f in out if not f.endswith("_test.go"))


def source_hashes():
    h = {}
    for f in source_files():
        try:
            h[f] = hashlib.sha256(open(os.path.join(REPO, f), "rb").read()).hexdigest()
        except OSError:
            pass
    return h


def changed_sources():
    """non-test Go files of /repo that differ from tools/source_ref.json (the tree the checks were last tuned on)"""
    try:
        ref = json.load(open(os.path.join(VERIF, "tools", "source_ref.json")))["files"]
    except Exception:
        return []
    cur = source_hashes()
    return sorted(f for f in set(ref) | set(cur) if ref.get(f) != cur.get(f))


def write_replay(ctx, name, payload):
    d = os.path.join(VERIF, "replays")
    os.makedirs(d, exist_ok=True)
    p = os.path.join(d, "%s-%s.json" % (ctx.prop_id, name))
    if isinstance(payload, dict):
        # what a replay needs to find the same case again: generation is a function of these
        payload = dict(payload, _run={"seed": ctx.base_seed, "tier": ctx.tier, "scale": ctx.scale})
    with open(p, "w") as f:
        json.dump(payload, f, indent=1, sort_keys=True)
    return p


def write_evidence(ctx, coverage, assumptions, violations):
    d = os.path.join(VERIF, "evidence")
    os.makedirs(d, exist_ok=True)
    ev = {
        "property_id": ctx.prop_id,
        "tier": ctx.tier,
        "seed": ctx.base_seed,
        "level": "proof",
        "coverage": coverage,
        "assumptions": assumptions,
        "wall_s": round(time.time() - ctx.t0, 2),
        "violations": violations,
    }
    with open(os.path.join(d, ctx.prop_id + ".json"), "w") as f:
        json.dump(ev, f, indent=1, sort_keys=True)
    return ev


def load_known():
    p = os.path.join(VERIF, "known_findings.json")
    if not os.path.exists(p):
        return {"findings": [], "fixed": []}
    return json.load(open(p))


# ------------------------------------------------------------------ floats and CLI helpers
def go_g(x):
    """strconv.FormatFloat(x, 'g', -1, 64) for a finite Python float"""
    from decimal import Decimal
    if x == 0:
        return "0"
    d = Decimal(repr(float(x)))
    sign, digits, exp = d.as_tuple()
    ds = "".join(map(str, digits))
    stripped = ds.rstrip("0")
    exp += len(ds) - len(stripped)
    ds = stripped or "0"
    nd = len(ds)
    dp = nd + exp
    e = dp - 1
    neg = "-" if sign else ""
    if e < -4 or e >= 21 or (e >= 6 and True):
        if e < -4 or e >= 6:
            mant = ds[0] + ("." + ds[1:] if nd > 1 else "")
            return "%s%se%s%02d" % (neg, mant, "-" if e < 0 else "+", abs(e))
    if dp <= 0:
        return neg + "0." + "0" * (-dp) + ds
    if dp >= nd:
        return neg + ds + "0" * (dp - nd)
    return neg + ds[:dp] + "." + ds[dp:]


def parse_json_docs(text):
    """bkl JSON output (a stream of values) -> list of values, floats as F tokens"""
    decoder = json.JSONDecoder(parse_float=lambda s: F(go_g(float(s))))
    docs = []
    i = 0
    n = len(text)
    while True:
        while i < n and text[i] in " \n\t\r":
            i += 1
        if i >= n:
            break
        v, i = decoder.raw_decode(text, i)
        docs.append(v)
    return docs


def cli(binary, args, cwd, env=None, timeout=30, inp=None):
    e = {"PATH": "/usr/bin:/bin", "HOME": cwd, "TMPDIR": cwd}
    if env:
        e.update(env)
    e = cover_env(e)
    try:
        p = subprocess.run([binary] + list(args), cwd=cwd, env=e, stdout=subprocess.PIPE, stderr=subprocess.PIPE,
                           timeout=timeout, input=inp)
        return p.returncode, p.stdout, p.stderr.decode("utf-8", "replace")
    except subprocess.TimeoutExpired as ex:
        return -9, ex.stdout or b"", "TIMEOUT"


def pmap(fn, items, workers=16):
    from concurrent.futures import ThreadPoolExecutor
    with ThreadPoolExecutor(max_workers=workers) as ex:
        return list(ex.map(fn, items))


# ------------------------------------------------------------------ thorough tier: kernel-side cross-checks
def coq_printable(v):
    if isinstance(v, X):
        return False
    if isinstance(v, str):
        return all((32 <= ord(ch) < 0xD800 and ord(ch) != 127) or ch == "\n" for ch in v)
    if isinstance(v, (list, tuple)):
        return all(coq_printable(x) for x in v)
    if isinstance(v, dict):
        return all(coq_printable(k) and coq_printable(x) for k, x in v.items())
    return True


def coq_val(v):
    if v is None:
        return "VNull"
    if v is True:
        return "(VBool true)"
    if v is False:
        return "(VBool false)"
    if isinstance(v, F):
        return '(VFloat "%s")' % str(v)
    if isinstance(v, int):
        return "(VInt (%d)%%Z)" % v
    if isinstance(v, str):
        return '(VStr "%s")' % v.replace('"', '""')
    if isinstance(v, (list, tuple)):
        return "(VList [" + "; ".join(coq_val(x) for x in v) + "])"
    if isinstance(v, dict):
        ks = sorted(v, key=lambda s: s.encode("utf-8", "surrogateescape"))
        return "(VMap [" + "; ".join('("%s", %s)' % (k.replace('"', '""'), coq_val(v[k])) for k in ks) + "])"
    raise TypeError(repr(v))


def vm_crosscheck(ctx):
    """evaluate a sample of this run's cases with vm_compute inside Coq and compare with what the extracted
    driver answered: takes extraction and the OCaml driver out of the trusted path for that sample"""
    if not ctx.vm_sample:
        return {"vm_compute_cases": 0}
    vf = os.path.join(ctx.work, "VmCheck.v")
    with open(vf, "w") as f:
        f.write("From Coq Require Import String List ZArith.\nFrom Bkl Require Import Model.Value Model.Driver.\nImport ListNotations.\n"
                "Local Open Scope string_scope.\nLocal Open Scope list_scope.\n")
        f.write("Definition cases : list (value * value) := [\n")
        f.write(";\n".join("(%s, %s)" % (c, r) for c, r in ctx.vm_sample))
        f.write("].\n")
        f.write("Definition mismatches : nat := List.length (filter (fun cr => negb (deep_eqb (run_case (fst cr)) (snd cr))) cases).\n")
        f.write("Definition M := Eval vm_compute in mismatches.\nPrint M.\n")
    rc, out = sh(["coqc", "-Q", os.path.join(VERIF, "coq"), "Bkl", vf], cwd=ctx.work, timeout=3000)
    m = re.search(r"M\s*=\s*(\d+)", out)
    return {"vm_compute_cases": len(ctx.vm_sample), "vm_compute_mismatches": int(m.group(1)) if (rc == 0 and m) else -1,
            "vm_compute_log": out[-300:] if (rc != 0 or not m) else ""}


def coqchk(prop_id):
    rc, out = sh(["coqchk", "-silent", "-o", "-Q", os.path.join(VERIF, "coq"), "Bkl", "Bkl.Properties." + prop_id], timeout=6000)
    ax = re.search(r"\* Axioms:\s*(.*?)\n\s*\n", out, re.S)
    axioms = ax.group(1).strip() if ax else "?"
    return {"coqchk_rc": rc, "coqchk_axioms": axioms, "coqchk_tail": out[-400:] if rc else ""}
