#!/bin/sh
# setup: full Coq build (.vo, never -vos), extraction, OCaml driver, Go harness warm-up. Offline.
set -e
cd "$(dirname "$0")"
export GOFLAGS=-mod=mod GOPROXY=off
unset GOTOOLCHAIN GOSUMDB || true
( cd coq && coq_makefile -f _CoqProject -o Makefile >/dev/null && timeout 3000 make -j16 )
( cd driver && timeout 600 coqc -Q ../coq Bkl ../coq/Extract.v && ocamlfind ocamlopt -O3 -w -a -package str model.mli model.ml main.ml -o model_driver )
mkdir -p .work/bin
cp /repo/go.sum harness/go.sum
( cd harness && go build -o ../.work/bin/verifh . )
( cd /repo && go build -o /verif/.work/bin/ ./cmd/... )
echo setup ok
